#!/bin/sh
# Build the fact-extraction driver and warm the dependency check cache. Offline only.
set -e
cd "$(dirname "$0")"
export CARGO_NET_OFFLINE=true
(cd driver && cargo build --offline --release 2>&1 | tail -3)
# warm: type-check /repo's dependencies once into /verif/.cache/target (facts for the current tree are produced too)
python3 -m feoxlint.extract lib
python3 -m feoxlint.extract bin
