#!/bin/sh
# usage: archive_seed.sh <worktree> <seed id, e.g. C19-a> <demo cargo test args...>
# re-confirms a sub-agent's change in its own worktree (demo fails with / suite green with / demo passes without) and copies
# patch, demonstration, meta.json and the confirmation log to /verif/seeded/<id>/
wt=$1; id=$2; shift 2
out=/verif/seeded/$id
mkdir -p "$out"
/verif/tools/confirm_seed.sh "$wt" "$@" > "$out/confirm.log" 2>&1
cp "$wt"/seeded_out/patch.diff "$wt"/seeded_out/meta.json "$out/" 2>/dev/null
cp "$wt"/seeded_out/demo.diff "$out/" 2>/dev/null
cp "$wt"/seeded_out/demo_*.rs "$out/" 2>/dev/null
echo "archived $id"; grep -E "^##|^test result|FAILED" "$out/confirm.log" | head -40
