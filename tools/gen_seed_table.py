#!/usr/bin/env python3
"""Markdown rows for DESIGN.md §11 from seeded/<id>/meta.json and seeded/MATRIX.json.
usage: gen_seed_table.py [suffix letters, default 'de']"""
import glob
import json
import os
import sys

VERIF = os.path.dirname(os.path.dirname(os.path.abspath(__file__)))
M = json.load(open(os.path.join(VERIF, "seeded", "MATRIX.json")))
suffixes = sys.argv[1] if len(sys.argv) > 1 else "de"


def esc(s):
    return s.replace("|", "/").replace("\n", " ")


for d in sorted(glob.glob(os.path.join(VERIF, "seeded", "C*-[%s]" % suffixes))):
    sid = os.path.basename(d)
    m = json.load(open(os.path.join(d, "meta.json")))
    summ = esc(m.get("summary", ""))
    if len(summ) > 230:
        summ = summ[:230].rsplit(" ", 1)[0] + "…"
    ent = M.get(sid, {})
    rb = ent.get("reported_by", {})
    tgt = ent.get("property", sid[:3])
    parts = []
    if tgt in rb:
        parts.append("; ".join(rb[tgt]))
    others = ["; ".join(v) for k, v in sorted(rb.items()) if k != tgt]
    if others:
        parts.append("(also " + "; ".join(others) + ")")
    note = m.get("confirmed_by_main_session", {}).get("note", "")
    added = "yes" if ("missed at first" in note or "at first only" in note) else "no"
    print("| %s | %s | %s | %s |" % (sid, summ, esc(" ".join(parts)), added))
