#!/bin/sh
# apply a seeded patch to /repo, run every quick check, and ALWAYS restore /repo
d=$1
cd /verif || exit 2
git -C /repo diff --quiet || { echo "/repo is dirty; refusing"; exit 2; }
trap 'git -C /repo checkout -- . ; git -C /repo status --short | head -3' EXIT INT TERM
git -C /repo apply "$d/patch.diff" || { echo "patch does not apply"; exit 3; }
shift
if [ $# -gt 0 ]; then
  for p in "$@"; do ./check $p | grep -E "^(==|VIOLATION|FINDING)" | cut -c1-260; done
else
  tools/run_all.sh quick 2>&1 | grep -E "^(VIOLATION|FINDING)" | cut -c1-260
fi
