#!/usr/bin/env python3
"""Record in seeded/<id>/meta.json how the main session confirmed the change and which checks report it (from MATRIX.json).
usage: annotate_seeds.py <notes.json>    notes.json: {"C01-g": "caught at once by ..." | "missed at first; ...", ...}"""
import json
import os
import sys

VERIF = os.path.dirname(os.path.dirname(os.path.abspath(__file__)))
notes = json.load(open(sys.argv[1]))
M = json.load(open(os.path.join(VERIF, "seeded", "MATRIX.json")))
for sid, note in sorted(notes.items()):
    p = os.path.join(VERIF, "seeded", sid, "meta.json")
    m = json.load(open(p))
    ent = M.get(sid)
    if ent is None:
        print("no matrix row for", sid)
        continue
    m["confirmed_by_main_session"] = {
        "how": "in the sub-agent's own scratch worktree of /repo (tree with the fix: commit): (1) the demonstration FAILS with the change, "
               "(2) the whole `cargo test --offline --no-fail-fast` with the change: every pre-existing test ok (316 lib + 6 cli + 30 doc; "
               "the only failures are the added demonstration tests), (3) the demonstration passes with seeded_out/patch.diff reverted "
               "alone (git apply -R); see confirm.log. The worktree and its build output were removed afterwards.",
        "caught_by": {"caught_by_target": ent.get("caught_by_target"), "property": ent.get("property"), "reported_by": ent.get("reported_by")},
        "check_run": "python3 tools/seed_matrix.py " + sid,
        "note": note,
    }
    with open(p, "w") as f:
        json.dump(m, f, indent=1)
    print("annotated", sid, "caught_by_target =", ent.get("caught_by_target"))
