#!/usr/bin/env python3
"""Which product functions carry no path / pin / provenance obligation of any property (candidates for new rule instances)."""
import collections, importlib, os, sys
VERIF = os.path.dirname(os.path.dirname(os.path.abspath(__file__)))
sys.path.insert(0, VERIF)
from feoxlint import extract
from feoxlint.model import Program
from feoxlint.rulekit import Ctx
facts, _ = extract.extract("lib")
prog = Program([f for f in facts if f['crate'] == 'feoxdb'][0])
pids = sorted(f[:-3] for f in os.listdir(os.path.join(VERIF, 'rules')) if f.startswith('C') and f[1:3].isdigit() and f.endswith('.py'))
byfn = collections.defaultdict(collections.Counter)
for pid in pids:
    mod = importlib.import_module('rules.' + pid)
    ctx = Ctx(prog, pid, 'lib')
    mod.check(ctx)
    for o in ctx.obligations:
        if o.get('rule') in ('DOM', 'GUARD', 'FOLLOW', 'NEVER-AFTER', 'PIN', 'PROVENANCE', 'BOUNDS', 'NOERR-AFTER', 'HELD', 'ORDER', 'PROGRESS') and o.get('nontrivial', True):
            byfn[o.get('function') or ''][pid] += 1
rows = []
for p, b in prog.bodies.items():
    if b.is_test or b.is_closure:
        continue
    c = collections.Counter(byfn.get(p, {}))
    for q, bb in prog.bodies.items():
        if bb.is_closure and bb.root == p:
            c.update(byfn.get(q, {}))
    rows.append((b.file, p, len(b.nodes), c))
minn = int(sys.argv[1]) if len(sys.argv) > 1 else 30
skip = ("fmt::", "clone::Clone", "cmp::PartialEq", "error::Error", "default::Default")
unc = [r for r in rows if not r[3] and r[2] >= minn and not r[0].startswith('src/bin') and not any(s in r[1] for s in skip)]
unc.sort(key=lambda r: -r[2])
print("product fns: %d, with obligations: %d, uncovered (>= %d nodes, no derive impls): %d" % (len(rows), sum(1 for r in rows if r[3]), minn, len(unc)))
for r in unc:
    print("%5d %-30s %s" % (r[2], r[0].replace('src/', ''), r[1].split('::', 2)[-1][-80:]))
