#!/usr/bin/env python3
"""Apply a patch file to a *scratch copy* of /repo (never /repo itself) and run every rule module (or the listed ones) on it.
    python3 tools/try_patch.py <patch.diff> [C01 C02 ...]
Safe to run concurrently with anything else: /repo is only read."""
import importlib
import os
import shutil
import subprocess
import sys

VERIF = os.path.dirname(os.path.dirname(os.path.abspath(__file__)))
sys.path.insert(0, VERIF)
from feoxlint import extract, mutants  # noqa: E402
from feoxlint.model import Program  # noqa: E402
from feoxlint.rulekit import Ctx  # noqa: E402

pf = os.path.abspath(sys.argv[1])
want = sys.argv[2:]
pids = sorted(f[:-3] for f in os.listdir(os.path.join(VERIF, "rules")) if f.startswith("C") and f[1:3].isdigit() and f.endswith(".py"))
if want:
    pids = [p for p in pids if p in want]
d = mutants.make_scratch(extract.REPO)
try:
    r = subprocess.run(["patch", "-p1", "-s", "-i", pf], cwd=d, capture_output=True, text=True)
    if r.returncode != 0:
        print("patch does not apply:", r.stdout[-300:], r.stderr[-300:])
        sys.exit(2)
    extract.extract("lib", repo=d, cache=False)      # fail here if the patched tree does not compile
    mutants._FACTS_CACHED[d] = True
    hit = []
    for pid in pids:
        fs = mutants.run_rules(pid, d)
        seen = set()
        for f2 in fs:
            k = (f2.inst, f2.kind, f2.what[:100])
            if k in seen:
                continue
            seen.add(k)
            print("%s %s %s :: %s :: %s" % (pid, f2.kind, f2.inst, f2.fn.rsplit("::", 1)[-1], f2.what[:170]))
        if fs:
            hit.append(pid)
    print("REPORTED BY:", " ".join(hit) or "nobody")
finally:
    th = extract.tree_hash(d)
    shutil.rmtree(d, ignore_errors=True)
    shutil.rmtree(os.path.join(extract.CACHE, "facts", th), ignore_errors=True)
