#!/usr/bin/env python3
"""Prompts for one more round of independent seeding sub-agents (one per claimed property).
usage: gen_seed_prompts.py <round number> <out dir>   (worktrees are expected at /tmp/wt<round>-<id>)
Each prompt carries only the property text (from properties.jsonl) and one-line summaries of the changes earlier rounds
already produced for it (from seeded/<id>-*/meta.json), nothing else from /verif."""
import glob
import json
import os
import sys

VERIF = os.path.dirname(os.path.dirname(os.path.abspath(__file__)))
rnd = int(sys.argv[1])
out = sys.argv[2]
os.makedirs(out, exist_ok=True)
manifest = json.load(open(os.path.join(VERIF, "MANIFEST.json")))
na = set() if os.environ.get("SEED_ALL") else {(x.get("property_id") or x.get("property") or x.get("id")) if isinstance(x, dict) else x for x in manifest.get("not_applicable", [])}
WORDS = {1: "one", 2: "two", 3: "three", 4: "four", 5: "five", 6: "six", 7: "seven"}

for line in open(os.path.join(VERIF, "properties.jsonl")):
    p = json.loads(line)
    pid = p["id"]
    if pid in na:
        continue
    wt = "/tmp/wt%d-%s" % (rnd, pid)
    low = pid.lower()
    earlier = []
    for d in sorted(glob.glob(os.path.join(VERIF, "seeded", pid + "-*"))):
        m = json.load(open(os.path.join(d, "meta.json")))
        s = " ".join(m.get("summary", "").split())
        earlier.append(s[:260] + ("..." if len(s) > 260 else ""))
    mech = "; ".join("%s (%s)" % (m["name"], m["where"]) for m in p["anchors"].get("mechanism", []))
    txt = []
    txt.append("You are helping test a verification effort for the Rust crate `feoxdb` (an embedded key-value store). You have your own scratch git worktree of the repository at %s (a full checkout with a warm `target/` directory). Work ONLY inside %s. Do not read or touch /verif or /repo. There is no network: always use `cargo ... --offline`.\n" % (wt, wt))
    txt.append("PROPERTY %s — %s" % (pid, p["title"]))
    txt.append("Statement: " + p["statement"])
    txt.append("Quantifier: " + p["quantifier"]["text"])
    txt.append("Why the existing tests cannot settle it: " + p["why_tests_cant"])
    txt.append("Relevant files: " + ", ".join(p["anchors"].get("files", [])))
    txt.append("Mechanisms meant to make it hold: " + mech + "\n")
    txt.append("YOUR TASK: produce ONE realistic source change to the crate (the kind of edit a maintainer could make by mistake or during a refactor: a few lines, in product code under src/, not in tests) that BREAKS this property, while\n"
               "  (1) the crate still compiles (`cargo build --offline`),\n"
               "  (2) the whole existing test suite still passes with your change (`cargo test --offline --no-fail-fast 2>&1 | tail -40`; all test binaries must report ok; run it at least once, some tests are timing-sensitive so re-run a failing one once before concluding),\n"
               "  (3) the breakage needs something specific to manifest — a particular interleaving, a crash or I/O fault at a particular point, a multi-step sequence of operations, an unusual input, or two cooperating sites that each look fine alone — NOT something ordinary use would expose at once.\n"
               "Also write a DEMONSTRATION: a new integration test file `tests/seeded%d_%s.rs` (or a unit test under src/tests/ if it needs crate-private access; in that case register it the way the existing src/tests modules are registered) that FAILS with your change and PASSES on the unmodified code. Verify both directions yourself: run the demo with your change (must fail); then save the product change with `git diff -- src/ > /tmp/<your-worktree-name>.patch` (exclude any demo file under src/tests from that diff, e.g. by listing only the product files), revert it with `git apply -R` on that patch, run the demo again (must pass), then re-apply the patch with `git apply`. DO NOT use `git stash`: the stash is shared between several worktrees that other people are using right now. The demo may use std::process / child processes / explicit thread orchestration / the crate's existing test hooks if needed; it must terminate within ~60 s.\n" % (rnd, low))
    if earlier:
        txt.append("IMPORTANT: %s earlier exercises already produced the following changes for this property; yours must sabotage a DIFFERENT mechanism at a DIFFERENT site (a different function, ideally a different file), not a variation of any of them. Prefer a subtle semantic slip (a wrong operand, a boundary that is off by one, a condition that is almost right, a step skipped on one rare path, a value read at the wrong moment, two sites that drift apart, a constant or bit layout that two places must agree on) over reordering or deleting whole statements:" % WORDS.get(len(earlier), str(len(earlier))))
        for i, e in enumerate(earlier, 1):
            txt.append("  earlier change %d: %s" % (i, e))
        txt.append("")
    txt.append("Study the code first (the files above, and whatever they call), think about which single mechanism you will sabotage, and keep the change small and plausible. Avoid trivial sabotage such as deleting a whole function body or returning a constant from a public API.\n")
    txt.append("DELIVERABLES (write these files, all inside %s/seeded_out/):\n"
               "  - patch.diff : output of `git diff -- src/` containing ONLY the product change (not the demo test),\n"
               "  - demo.diff : `git diff` / new-file content for the demonstration test only (for a new file, `git add -N` it first so `git diff` shows it, or just copy the file as demo_<name>.rs and say where it goes),\n"
               "  - meta.json : {\"property\": \"%s\", \"summary\": \"...what you changed and why it breaks the property...\", \"needs\": \"...what is needed for it to manifest...\", \"files_changed\": [...], \"demo_cmd\": \"cargo test --offline --test seeded%d_%s\", \"suite_cmd\": \"cargo test --offline --no-fail-fast\", \"suite_result_with_change\": \"...\", \"demo_result_with_change\": \"...\", \"demo_result_without_change\": \"...\"}\n"
               "Leave the worktree with your change applied. In your final answer, summarise the change in 5-10 lines and state the verified results of the three runs (suite with change, demo with change, demo without change), and the exact command that runs your demo. If after honest effort you cannot find a change that keeps the whole suite green, deliver your best attempt and say exactly which existing test fails." % (wt, pid, rnd, low))
    with open(os.path.join(out, pid + ".txt"), "w") as f:
        f.write("\n".join(txt) + "\n")
print("wrote prompts to", out)
