#!/usr/bin/env python3
"""Regenerate /verif/MANIFEST.json from the rule modules present under rules/."""
import importlib
import json
import os
import sys

VERIF = os.path.dirname(os.path.dirname(os.path.abspath(__file__)))
sys.path.insert(0, VERIF)

NOT_APPLICABLE = {}   # C19 was not_applicable until round 7; its coverage clauses are now claimed (DESIGN.md §5/C19, §6)

props = [json.loads(l) for l in open(os.path.join(VERIF, "properties.jsonl"))]
checks = []
na = []
for p in props:
    pid = p["id"]
    if pid in NOT_APPLICABLE:
        na.append({"property_id": pid, "reason": NOT_APPLICABLE[pid]})
        continue
    path = os.path.join(VERIF, "rules", pid + ".py")
    if not os.path.exists(path):
        na.append({"property_id": pid, "reason": "rule tables for this property are not built yet in this tree (DESIGN.md §9 build order); not claimed until they are"})
        continue
    mod = importlib.import_module("rules." + pid)
    checks.append({
        "property_id": pid,
        "quick_cmd": "./check %s --tier quick" % pid,
        "thorough_cmd": "./check %s --tier thorough" % pid,
        "evidence_file": "/verif/evidence/%s.json" % pid,
        "replay_cmd_template": "./check %s --replay {path}" % pid,
        "engine": "feoxlint",
        "level_claimed": {
            "category": "other",
            "text": ("Static necessary-condition check: " + " ".join(getattr(mod, "EXPLANATION", "").split()))[:1800],
            "design_ref": "DESIGN.md §5/" + pid,
        },
        "level_note": "Decides only the structural clauses listed (" + "; ".join(getattr(mod, "DECIDED", [])) +
                      "). Not decided: " + "; ".join(getattr(mod, "NOT_DECIDED", [])) +
                      ". Trusted: rustc MIR construction, the driver's fact extraction, Instance::try_resolve, the reviewed instance tables.",
        "technique": getattr(mod, "TECHNIQUE", "static analysis: MIR dominance / must-pass-through / guard / call-graph rules via a custom rustc_private driver"),
    })

manifest = {
    "version": 1,
    "setup_cmd": "./setup.sh",
    "hooks": {
        "guard": "mehrantsi_feoxdb_verif",
        "enable": "none needed: the compiler front end is the observer (no hook commits in /repo)",
        "baseline_off_cmd": "cd /repo && cargo test --workspace --no-fail-fast --offline",
        "source_commits": [],
        "add_only": True,
    },
    "engines": [{
        "name": "feoxlint",
        "path": "/verif/feoxlint (rule engine, python3 stdlib) + /verif/driver (rustc_private fact extractor) + /verif/rules (instance tables)",
        "serves_properties": [c["property_id"] for c in checks],
        "kind_free_text": "static analysis over type-checked MIR: dominance, must-pass-through, guard polarity, never-after, "
                          "call-graph who-may-call, field-writer sets, lock-order graph, sibling/pin tables, compile-fail witnesses",
    }],
    "checks": checks,
    "not_applicable": na,
    "notes": "Every check inspects /repo's current working tree on each run (facts are cached only by a SHA-256 of the tree). "
             "No code of /repo is executed by any check. /repo carries one unguarded `fix:` commit (90d1707, C04: stale duplicates are "
             "retired before expired winners during recovery) for a genuine defect found by C04.retire-order and demonstrated in "
             "findings/C04-retire-order; it is recorded under `fixed` in known_findings.json (DESIGN.md §13). No hook commits.",
}
with open(os.path.join(VERIF, "MANIFEST.json"), "w") as f:
    json.dump(manifest, f, indent=1)
print("claimed:", [c["property_id"] for c in checks])
print("not_applicable:", [n["property_id"] for n in na])
