#!/usr/bin/env python3
"""Run every rule module against every kept seeded change (seeded/<id>/patch.diff), each applied to a *scratch copy*
of /repo (never /repo itself), and print / record which property's check reports it.

    python3 tools/seed_matrix.py [seed-dir-name ...]      -> writes seeded/MATRIX.json
    python3 tools/seed_matrix.py --shard i/n              -> every n-th seed from i, writes seeded/.matrix-shard-i.json
    python3 tools/seed_matrix.py --merge                  -> folds the shard files into seeded/MATRIX.json (and removes them)
"""
import importlib
import json
import os
import shutil
import subprocess
import sys

VERIF = os.path.dirname(os.path.dirname(os.path.abspath(__file__)))
sys.path.insert(0, VERIF)
from feoxlint import extract, mutants  # noqa: E402
from feoxlint.model import Program  # noqa: E402
from feoxlint.rulekit import Ctx  # noqa: E402


def main():
    sd = os.path.join(VERIF, "seeded")
    mpath = os.path.join(sd, "MATRIX.json")
    if "--merge" in sys.argv:
        matrix = json.load(open(mpath)) if os.path.exists(mpath) else {}
        rc = 0
        for fn in sorted(os.listdir(sd)):
            if fn.startswith(".matrix-shard-") and fn.endswith(".json"):
                matrix.update(json.load(open(os.path.join(sd, fn))))
                os.remove(os.path.join(sd, fn))
        have = {d for d in os.listdir(sd) if os.path.isfile(os.path.join(sd, d, "patch.diff"))}
        matrix = {k: v for k, v in matrix.items() if k in have}
        with open(mpath, "w") as f:
            json.dump(matrix, f, indent=1, sort_keys=True)
        missed = sorted(k for k, v in matrix.items() if not v.get("caught_by_target"))
        print("seeds: %d, caught by target: %d, missed: %s, without entry: %s" % (len(matrix), len(matrix) - len(missed), missed, sorted(have - set(matrix))))
        return 1 if missed or have - set(matrix) else 0
    shard = None
    argv = list(sys.argv[1:])
    if "--shard" in argv:
        i, n = argv[argv.index("--shard") + 1].split("/")
        shard = (int(i), int(n))
        del argv[argv.index("--shard"):argv.index("--shard") + 2]
    argv = [a for a in argv if a != "--target-only"]
    want = [a for a in argv if not a.startswith("-")]
    names = sorted(d for d in os.listdir(sd) if os.path.isfile(os.path.join(sd, d, "patch.diff")))
    if want:
        names = [n for n in names if n in want]
    if shard:
        names = names[shard[0]::shard[1]]
        mpath = os.path.join(sd, ".matrix-shard-%d.json" % shard[0])
    pids = sorted(f[:-3] for f in os.listdir(os.path.join(VERIF, "rules")) if f.startswith("C") and f[1:3].isdigit() and f.endswith(".py"))
    matrix = json.load(open(mpath)) if os.path.exists(mpath) and not shard else {}
    rc = 0
    for name in names:
        d = mutants.make_scratch(extract.REPO)
        try:
            # a seed made against the pinned tree whose lines the later `fix:` commit rewrote carries a re-based copy
            pf = os.path.join(sd, name, "patch_fixed_tree.diff")
            if not os.path.exists(pf):
                pf = os.path.join(sd, name, "patch.diff")
            r = subprocess.run(["patch", "-p1", "-s", "-i", pf], cwd=d, capture_output=True, text=True)
            if r.returncode != 0:
                print(name, "patch does not apply:", r.stdout[-200:], r.stderr[-200:])
                rc = 2
                continue
            extract.extract("lib", repo=d, cache=False)
            mutants._FACTS_CACHED[d] = True
            row = {}
            target_only = "--target-only" in sys.argv
            tgt0 = json.load(open(os.path.join(sd, name, "meta.json"))).get("property", name[:3])
            if target_only:
                # regression mode: only the targeted property's module is run; the other properties' entries of the last full
                # matrix are kept as they were
                full = json.load(open(os.path.join(sd, "MATRIX.json"))) if os.path.exists(os.path.join(sd, "MATRIX.json")) else {}
                row = {k: v for k, v in full.get(name, {}).get("reported_by", {}).items() if k != tgt0}
            for pid in ([tgt0] if target_only else pids):
                fs = mutants.run_rules(pid, d)
                if fs:
                    row[pid] = sorted({f2.inst + " " + f2.kind for f2 in fs})
                    if "-v" in sys.argv:
                        for f2 in fs:
                            print("   ", f2.key()[:400])
            target = json.load(open(os.path.join(sd, name, "meta.json"))).get("property", name[:3])
            matrix[name] = {"property": target, "caught_by_target": target in row, "reported_by": row}
            print("%-8s target=%s %-6s %s" % (name, target, "CAUGHT" if target in row else "MISSED", json.dumps(row)[:300]))
            if target not in row:
                rc = 1
        finally:
            th = extract.tree_hash(d)
            shutil.rmtree(d, ignore_errors=True)
            shutil.rmtree(os.path.join(extract.CACHE, "facts", th), ignore_errors=True)
    with open(mpath, "w") as f:
        json.dump(matrix, f, indent=1, sort_keys=True)
    return rc


if __name__ == "__main__":
    sys.exit(main())
