#!/bin/sh
# full self-test of the checker, in parallel: own mutants per property, benign edits, seed matrix.
# usage: tools/regress_parallel.sh [jobs]   (logs under .cache/regress/)
cd "$(dirname "$0")/.." || exit 2
J=${1:-6}
L=.cache/regress; rm -rf $L; mkdir -p $L
tools/run_all.sh quick > $L/quick.log 2>&1
ls mutants | grep '^C[0-9][0-9]\.json$' | sed 's/\.json//' | xargs -P $J -I{} sh -c "python3 -m feoxlint.mutants {} > $L/mut-{}.log 2>&1"
seq 0 $((J-1)) | xargs -P $J -I{} sh -c "python3 -m feoxlint.mutants --benign --shard {}/$J > $L/benign-{}.log 2>&1"
seq 0 $((J-1)) | xargs -P $J -I{} sh -c "python3 tools/seed_matrix.py --shard {}/$J > $L/matrix-{}.log 2>&1"
python3 tools/seed_matrix.py --merge > $L/matrix-merge.log 2>&1
echo "== quick";   grep -c "^== " $L/quick.log; grep -E "VIOLATION|FINDING" $L/quick.log | head
echo "== mutants"; cat $L/mut-*.log | grep "^mutants:" | awk '{c+=$2; o+=$4; m+=$6; s+=$8} END {print c" caught, "o" caught-other, "m" missed, "s" skipped"}'; grep -h "MISSED\|skipped" $L/mut-*.log | grep -v "^mutants:" | head -20
echo "== benign";  cat $L/benign-*.log | grep "^benign edits:" | awk '{q+=$3; f+=$5; s+=$8; k+=$10} END {print q" quiet, "f" false alarms, "s" skipped, "k" known-limit"}'; grep -h "FALSE-ALARM\|skipped \|known-limit " $L/benign-*.log | grep -v "^benign edits" | head
echo "== seeds";   cat $L/matrix-merge.log
