#!/bin/sh
# usage: confirm_seed.sh <worktree> <demo cargo test args...>
wt=$1; shift
cd $wt || exit 2
export CARGO_NET_OFFLINE=true
echo "## worktree $wt : product diff"; git diff --stat -- src/ | tail -3
echo "## (1) demo WITH change: expect FAIL"
cargo test --offline "$@" 2>&1 | grep -E "^test result|FAILED|panicked|error\[" | head -6
echo "## (2) whole suite WITH change (demo excluded by name filter where possible)"
cargo test --offline --no-fail-fast 2>&1 | grep -E "^test result|Running|FAILED" | head -30
echo "## (3) demo WITHOUT change (seeded_out/patch.diff reverted alone): expect ok"
git apply -R seeded_out/patch.diff
cargo test --offline "$@" 2>&1 | grep -E "^test result|FAILED|panicked|error\[" | head -6
git apply seeded_out/patch.diff
echo "## restored:"; git diff --stat -- src/ | tail -2
