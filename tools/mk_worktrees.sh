#!/bin/sh
# usage: mk_worktrees.sh <round> <id>...   creates /tmp/wt<round>-<id> (detached worktree of /repo HEAD, Cargo.lock + warm target copied)
rnd=$1; shift
for id in "$@"; do
  wt=/tmp/wt$rnd-$id
  [ -d "$wt" ] && { echo "$wt exists"; continue; }
  git -C /repo worktree add --detach "$wt" HEAD >/dev/null 2>&1 || { echo "worktree add failed for $wt"; continue; }
  cp /repo/Cargo.lock "$wt/"
  cp -r /repo/target "$wt/target"
  mkdir -p "$wt/seeded_out"
  echo "ready $wt"
done
