#!/bin/sh
# run every claimed check (quick by default)
cd "$(dirname "$0")/.." || exit 2
tier=${1:-quick}
rc=0
for p in $(python3 -c "import json;print(' '.join(c['property_id'] for c in json.load(open('MANIFEST.json'))['checks']))"); do
  ./check $p --tier $tier | grep -E "^(==|VIOLATION|KNOWN|FINDING)" | cut -c1-220 || true
done
