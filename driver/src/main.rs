// feoxlint-driver: a rustc_private driver that dumps the type-checked program
// (MIR at opt-level 0 with resolved callees, ADT tables, constants, unsafe
// inventory, fn signatures) of the *local* crate as one JSON facts file.
// It is used as RUSTC_WORKSPACE_WRAPPER; non-target crates go to the real
// rustc unchanged. Nothing is decided here: rules live in /verif/feoxlint.
#![feature(rustc_private)]
#![allow(clippy::all)]

extern crate rustc_abi;
extern crate rustc_driver;
extern crate rustc_hir;
extern crate rustc_interface;
extern crate rustc_middle;
extern crate rustc_session;
extern crate rustc_span;

use rustc_hir::def::DefKind;
use rustc_hir::def_id::{DefId, LocalDefId};
use rustc_middle::mir::{self, *};
use rustc_middle::ty::print::with_no_trimmed_paths;
use rustc_middle::ty::{self, Ty, TyCtxt};
use rustc_span::Span;
use std::fmt::Write as _;

mod json;
use json::J;

struct Cb {
    out_dir: String,
    nonce: String,
    cfgs: Vec<String>,
}

fn span_json(tcx: TyCtxt<'_>, sp: Span) -> J {
    let sm = tcx.sess.source_map();
    let exp = sp.from_expansion();
    // outermost call site of a macro expansion keeps the user-visible line
    let sp2 = if exp { sp.source_callsite() } else { sp };
    let lo = sm.lookup_char_pos(sp2.lo());
    let hi = sm.lookup_char_pos(sp2.hi());
    let file = match &lo.file.name {
        rustc_span::FileName::Real(r) => match r.local_path() {
            Some(p) => p.to_string_lossy().to_string(),
            None => format!("{:?}", r),
        },
        other => format!("{:?}", other),
    };
    J::obj(vec![
        ("file", J::s(&file)),
        ("lo", J::Int(lo.line as i128)),
        ("lc", J::Int(lo.col.0 as i128)),
        ("hi", J::Int(hi.line as i128)),
        ("hc", J::Int(hi.col.0 as i128)),
        ("exp", J::Bool(exp)),
    ])
}

fn ty_str<'tcx>(ty: Ty<'tcx>) -> String {
    with_no_trimmed_paths!(format!("{}", ty))
}

fn def_path(tcx: TyCtxt<'_>, did: DefId) -> String {
    with_no_trimmed_paths!(tcx.def_path_str(did))
}

struct BodyCx<'a, 'tcx> {
    tcx: TyCtxt<'tcx>,
    body: &'a Body<'tcx>,
    did: LocalDefId,
}

impl<'a, 'tcx> BodyCx<'a, 'tcx> {
    fn place(&self, p: &Place<'tcx>) -> J {
        let mut projs = Vec::new();
        let mut pty = mir::PlaceTy::from_ty(self.body.local_decls[p.local].ty);
        for elem in p.projection.iter() {
            let j = match elem {
                ProjectionElem::Deref => J::s("*"),
                ProjectionElem::Field(f, fty) => {
                    let mut kv = vec![("f", J::Int(f.as_usize() as i128))];
                    match pty.ty.kind() {
                        ty::Adt(adt, _) => {
                            let v = match pty.variant_index {
                                Some(vi) => adt.variant(vi),
                                None => adt.non_enum_variant(),
                            };
                            kv.push(("adt", J::s(&def_path(self.tcx, adt.did()))));
                            if adt.is_enum() {
                                kv.push(("var", J::s(v.name.as_str())));
                            }
                            if f.as_usize() < v.fields.len() {
                                kv.push(("n", J::s(v.fields[f].name.as_str())));
                            }
                        }
                        ty::Closure(cdid, _) => {
                            kv.push(("closure", J::s(&def_path(self.tcx, *cdid))));
                        }
                        ty::Tuple(_) => {
                            kv.push(("tuple", J::Bool(true)));
                        }
                        _ => {}
                    }
                    kv.push(("ty", J::s(&ty_str(fty))));
                    J::obj(kv)
                }
                ProjectionElem::Index(l) => J::obj(vec![("idx", J::Int(l.as_usize() as i128))]),
                ProjectionElem::ConstantIndex { offset, from_end, .. } => J::obj(vec![
                    ("cidx", J::Int(offset as i128)),
                    ("from_end", J::Bool(from_end)),
                ]),
                ProjectionElem::Subslice { from, to, from_end } => J::obj(vec![
                    ("sub_from", J::Int(from as i128)),
                    ("sub_to", J::Int(to as i128)),
                    ("from_end", J::Bool(from_end)),
                ]),
                ProjectionElem::Downcast(name, vi) => J::obj(vec![
                    (
                        "dc",
                        J::s(&name.map(|s| s.to_string()).unwrap_or_else(|| format!("{}", vi.as_usize()))),
                    ),
                    ("vi", J::Int(vi.as_usize() as i128)),
                ]),
                ProjectionElem::OpaqueCast(_) => J::s("opaque"),
                ProjectionElem::UnwrapUnsafeBinder(_) => J::s("unbinder"),
            };
            projs.push(j);
            pty = pty.projection_ty(self.tcx, elem);
        }
        J::obj(vec![("l", J::Int(p.local.as_usize() as i128)), ("p", J::Arr(projs))])
    }

    fn constant(&self, c: &ConstOperand<'tcx>) -> J {
        let tcx = self.tcx;
        let ty = c.const_.ty();
        let mut kv = vec![("k", J::s("const")), ("ty", J::s(&ty_str(ty)))];
        // named (unevaluated) constants keep their path
        if let mir::Const::Unevaluated(uv, _) = c.const_ {
            kv.push(("def", J::s(&def_path(tcx, uv.def))));
            if let Some(pidx) = uv.promoted {
                kv.push(("promoted", J::Bool(true)));
                // named constants / literal scalars referenced by the promoted body
                let mut refs: Vec<J> = Vec::new();
                let proms = tcx.promoted_mir(uv.def);
                if pidx.as_usize() < proms.len() {
                    let pb = &proms[pidx];
                    for bbd in pb.basic_blocks.iter() {
                        for st in bbd.statements.iter() {
                            if let StatementKind::Assign(b) = &st.kind {
                                let mut ops: Vec<&Operand<'tcx>> = Vec::new();
                                match &b.1 {
                                    Rvalue::Use(o, ..) | Rvalue::Repeat(o, _) | Rvalue::Cast(_, o, _) | Rvalue::UnaryOp(_, o) => ops.push(o),
                                    Rvalue::BinaryOp(_, ab) => {
                                        ops.push(&ab.0);
                                        ops.push(&ab.1);
                                    }
                                    Rvalue::Aggregate(_, os) => {
                                        for o in os.iter() {
                                            ops.push(o);
                                        }
                                    }
                                    _ => {}
                                }
                                for o in ops {
                                    if let Operand::Constant(c2) = o {
                                        if let mir::Const::Unevaluated(uv2, _) = c2.const_ {
                                            if uv2.promoted.is_none() {
                                                refs.push(J::s(&def_path(tcx, uv2.def)));
                                            }
                                        } else {
                                            refs.push(J::s(&with_no_trimmed_paths!(format!("{}", c2.const_))));
                                        }
                                    }
                                }
                            }
                        }
                    }
                }
                kv.push(("prefs", J::Arr(refs)));
            }
        }
        if let ty::FnDef(did, _) = ty.kind() {
            kv.push(("fn", J::s(&def_path(tcx, *did))));
        }
        // try to evaluate scalars
        let typing_env = ty::TypingEnv::post_analysis(tcx, self.did.to_def_id());
        if ty.is_integral() || ty.is_bool() || ty.is_char() {
            if let Some(si) = c.const_.try_eval_scalar_int(tcx, typing_env) {
                let size = si.size();
                let bits = si.to_bits(size);
                let v: i128 = if ty.is_signed() {
                    size.sign_extend(bits) as i128
                } else {
                    bits as i128
                };
                kv.push(("val", J::Int(v)));
            }
        }
        if !kv.iter().any(|(k, _)| *k == "val") {
            kv.push(("txt", J::s(&with_no_trimmed_paths!(format!("{}", c.const_)))));
        }
        J::obj(kv)
    }

    fn operand(&self, o: &Operand<'tcx>) -> J {
        match o {
            Operand::Copy(p) => J::obj(vec![("k", J::s("copy")), ("pl", self.place(p))]),
            Operand::Move(p) => J::obj(vec![("k", J::s("move")), ("pl", self.place(p))]),
            Operand::Constant(c) => self.constant(c),
            #[allow(unreachable_patterns)]
            _ => J::obj(vec![("k", J::s("other")), ("txt", J::s(&format!("{:?}", o)))]),
        }
    }

    fn rvalue(&self, rv: &Rvalue<'tcx>) -> J {
        match rv {
            Rvalue::Use(o, ..) => J::obj(vec![("rv", J::s("use")), ("a", self.operand(o))]),
            Rvalue::Repeat(o, _) => J::obj(vec![("rv", J::s("repeat")), ("a", self.operand(o))]),
            Rvalue::Ref(_, bk, p) => J::obj(vec![
                ("rv", J::s("ref")),
                ("mut", J::Bool(matches!(bk, BorrowKind::Mut { .. }))),
                ("pl", self.place(p)),
            ]),
            Rvalue::ThreadLocalRef(d) => {
                J::obj(vec![("rv", J::s("tls")), ("def", J::s(&def_path(self.tcx, *d)))])
            }
            Rvalue::RawPtr(_, p) => J::obj(vec![("rv", J::s("rawptr")), ("pl", self.place(p))]),
            Rvalue::Cast(kind, o, ty) => J::obj(vec![
                ("rv", J::s("cast")),
                ("kind", J::s(&format!("{:?}", kind))),
                ("a", self.operand(o)),
                ("ty", J::s(&ty_str(*ty))),
            ]),
            Rvalue::BinaryOp(op, ab) => J::obj(vec![
                ("rv", J::s("bin")),
                ("op", J::s(&format!("{:?}", op))),
                ("a", self.operand(&ab.0)),
                ("b", self.operand(&ab.1)),
            ]),
            Rvalue::UnaryOp(op, o) => J::obj(vec![
                ("rv", J::s("un")),
                ("op", J::s(&format!("{:?}", op))),
                ("a", self.operand(o)),
            ]),
            Rvalue::Discriminant(p) => J::obj(vec![("rv", J::s("discr")), ("pl", self.place(p))]),
            Rvalue::Aggregate(kind, ops) => {
                let mut kv = vec![("rv", J::s("agg"))];
                match &**kind {
                    AggregateKind::Array(_) => kv.push(("agg", J::s("array"))),
                    AggregateKind::Tuple => kv.push(("agg", J::s("tuple"))),
                    AggregateKind::Adt(did, vi, _, _, _) => {
                        let adt = self.tcx.adt_def(*did);
                        kv.push(("agg", J::s("adt")));
                        kv.push(("adt", J::s(&def_path(self.tcx, *did))));
                        let v = adt.variant(*vi);
                        kv.push(("var", J::s(v.name.as_str())));
                        kv.push((
                            "fields",
                            J::Arr(v.fields.iter().map(|f| J::s(f.name.as_str())).collect()),
                        ));
                    }
                    AggregateKind::Closure(did, _) => {
                        kv.push(("agg", J::s("closure")));
                        kv.push(("def", J::s(&def_path(self.tcx, *did))));
                    }
                    AggregateKind::Coroutine(did, _) | AggregateKind::CoroutineClosure(did, _) => {
                        kv.push(("agg", J::s("coroutine")));
                        kv.push(("def", J::s(&def_path(self.tcx, *did))));
                    }
                    AggregateKind::RawPtr(..) => kv.push(("agg", J::s("rawptr"))),
                }
                kv.push(("ops", J::Arr(ops.iter().map(|o| self.operand(o)).collect())));
                J::obj(kv)
            }
            Rvalue::CopyForDeref(p) => J::obj(vec![
                ("rv", J::s("use")),
                ("a", J::obj(vec![("k", J::s("copy")), ("pl", self.place(p))])),
            ]),
            other => J::obj(vec![("rv", J::s("other")), ("txt", J::s(&format!("{:?}", other)))]),
        }
    }

    fn call_target(&self, func: &Operand<'tcx>) -> Vec<(&'static str, J)> {
        let tcx = self.tcx;
        let fty = func.ty(&self.body.local_decls, tcx);
        let mut kv: Vec<(&'static str, J)> = Vec::new();
        match *fty.kind() {
            ty::FnDef(did, args) => {
                kv.push(("callee", J::s(&def_path(tcx, did))));
                kv.push((
                    "callee_full",
                    J::s(&with_no_trimmed_paths!(tcx.def_path_str_with_args(did, args))),
                ));
                kv.push((
                    "gargs",
                    J::Arr(
                        args.iter()
                            .map(|a| J::s(&with_no_trimmed_paths!(format!("{}", a))))
                            .collect(),
                    ),
                ));
                let sig = tcx.fn_sig(did).skip_binder();
                let is_unsafe = format!("{:?}", sig.safety()).contains("Unsafe");
                kv.push(("unsafe", J::Bool(is_unsafe)));
                let typing_env = ty::TypingEnv::post_analysis(tcx, self.did.to_def_id());
                match ty::Instance::try_resolve(tcx, typing_env, did, args) {
                    Ok(Some(inst)) => {
                        let rdid = inst.def_id();
                        kv.push(("resolved", J::s(&def_path(tcx, rdid))));
                        kv.push(("rlocal", J::Bool(rdid.is_local())));
                        let kind = match inst.def {
                            ty::InstanceKind::Item(_) => "item",
                            ty::InstanceKind::Virtual(..) => "virtual",
                            ty::InstanceKind::Intrinsic(_) => "intrinsic",
                            ty::InstanceKind::ClosureOnceShim { .. } => "closure_once",
                            ty::InstanceKind::FnPtrShim(..) => "fnptr_shim",
                            ty::InstanceKind::DropGlue(..) => "drop_glue",
                            ty::InstanceKind::CloneShim(..) => "clone_shim",
                            ty::InstanceKind::ReifyShim(..) => "reify",
                            _ => "other",
                        };
                        kv.push(("rkind", J::s(kind)));
                        if let ty::InstanceKind::DropGlue(_, Some(t)) = inst.def {
                            kv.push(("drop_ty", J::s(&ty_str(t))));
                        }
                    }
                    _ => {
                        kv.push(("resolved", J::Null));
                        kv.push(("rkind", J::s("unresolved")));
                    }
                }
                // trait item?
                if let Some(tr) = tcx.trait_of_assoc(did) {
                    kv.push(("trait", J::s(&def_path(tcx, tr))));
                }
            }
            _ => {
                kv.push(("callee", J::Null));
                kv.push(("rkind", J::s("indirect")));
                kv.push(("fn_op", self.operand(func)));
                kv.push(("fn_ty", J::s(&ty_str(fty))));
            }
        }
        kv
    }

    fn bb(&self, b: BasicBlock) -> J {
        J::Int(b.as_usize() as i128)
    }

    fn unwind(&self, u: &UnwindAction) -> J {
        match u {
            UnwindAction::Cleanup(b) => self.bb(*b),
            _ => J::Null,
        }
    }

    fn terminator(&self, t: &Terminator<'tcx>) -> J {
        let sp = span_json(self.tcx, t.source_info.span);
        match &t.kind {
            TerminatorKind::Goto { target } => {
                J::obj(vec![("t", J::s("goto")), ("target", self.bb(*target)), ("span", sp)])
            }
            TerminatorKind::SwitchInt { discr, targets } => {
                let mut arms = Vec::new();
                for (v, b) in targets.iter() {
                    arms.push(J::Arr(vec![J::Int(v as i128), self.bb(b)]));
                }
                J::obj(vec![
                    ("t", J::s("switch")),
                    ("discr", self.operand(discr)),
                    ("discr_ty", J::s(&ty_str(discr.ty(&self.body.local_decls, self.tcx)))),
                    ("arms", J::Arr(arms)),
                    ("otherwise", self.bb(targets.otherwise())),
                    ("span", sp),
                ])
            }
            TerminatorKind::Return => J::obj(vec![("t", J::s("return")), ("span", sp)]),
            TerminatorKind::Unreachable => J::obj(vec![("t", J::s("unreachable")), ("span", sp)]),
            TerminatorKind::UnwindResume => J::obj(vec![("t", J::s("resume")), ("span", sp)]),
            TerminatorKind::UnwindTerminate(_) => J::obj(vec![("t", J::s("terminate")), ("span", sp)]),
            TerminatorKind::Drop { place, target, unwind, .. } => J::obj(vec![
                ("t", J::s("drop")),
                ("pl", self.place(place)),
                ("ty", J::s(&ty_str(place.ty(&self.body.local_decls, self.tcx).ty))),
                ("target", self.bb(*target)),
                ("unwind", self.unwind(unwind)),
                ("span", sp),
            ]),
            TerminatorKind::Call { func, args, destination, target, unwind, fn_span, .. } => {
                let mut kv = vec![("t", J::s("call"))];
                kv.extend(self.call_target(func));
                kv.push(("args", J::Arr(args.iter().map(|a| self.operand(&a.node)).collect())));
                kv.push((
                    "arg_tys",
                    J::Arr(
                        args.iter()
                            .map(|a| J::s(&ty_str(a.node.ty(&self.body.local_decls, self.tcx))))
                            .collect(),
                    ),
                ));
                kv.push(("dest", self.place(destination)));
                kv.push((
                    "dest_ty",
                    J::s(&ty_str(destination.ty(&self.body.local_decls, self.tcx).ty)),
                ));
                kv.push(("target", target.map(|b| self.bb(b)).unwrap_or(J::Null)));
                kv.push(("unwind", self.unwind(unwind)));
                kv.push(("span", sp));
                kv.push(("fn_span", span_json(self.tcx, *fn_span)));
                J::obj(kv)
            }
            TerminatorKind::TailCall { func, args, .. } => {
                let mut kv = vec![("t", J::s("tailcall"))];
                kv.extend(self.call_target(func));
                kv.push(("args", J::Arr(args.iter().map(|a| self.operand(&a.node)).collect())));
                kv.push(("span", sp));
                J::obj(kv)
            }
            TerminatorKind::Assert { cond, expected, msg, target, unwind } => J::obj(vec![
                ("t", J::s("assert")),
                ("cond", self.operand(cond)),
                ("expected", J::Bool(*expected)),
                ("msg", J::s(&format!("{:?}", msg).chars().take(60).collect::<String>())),
                ("target", self.bb(*target)),
                ("unwind", self.unwind(unwind)),
                ("span", sp),
            ]),
            TerminatorKind::FalseEdge { real_target, .. } => {
                J::obj(vec![("t", J::s("goto")), ("target", self.bb(*real_target)), ("span", sp)])
            }
            TerminatorKind::FalseUnwind { real_target, .. } => {
                J::obj(vec![("t", J::s("goto")), ("target", self.bb(*real_target)), ("span", sp)])
            }
            other => J::obj(vec![
                ("t", J::s("other")),
                ("txt", J::s(&format!("{:?}", other).chars().take(120).collect::<String>())),
                ("span", sp),
            ]),
        }
    }

    fn statement(&self, s: &Statement<'tcx>) -> Option<J> {
        let sp = || span_json(self.tcx, s.source_info.span);
        match &s.kind {
            StatementKind::Assign(b) => {
                let (pl, rv) = &**b;
                let mut j = self.rvalue(rv);
                if let J::Obj(ref mut kv) = j {
                    kv.insert(0, ("s".to_string(), J::s("assign")));
                    kv.push(("dst".to_string(), self.place(pl)));
                    kv.push(("span".to_string(), sp()));
                }
                Some(j)
            }
            StatementKind::StorageDead(l) => Some(J::obj(vec![
                ("s", J::s("dead")),
                ("l", J::Int(l.as_usize() as i128)),
            ])),
            StatementKind::StorageLive(l) => Some(J::obj(vec![
                ("s", J::s("live")),
                ("l", J::Int(l.as_usize() as i128)),
            ])),
            StatementKind::SetDiscriminant { place, variant_index } => Some(J::obj(vec![
                ("s", J::s("setdiscr")),
                ("pl", self.place(place)),
                ("vi", J::Int(variant_index.as_usize() as i128)),
                ("span", sp()),
            ])),
            StatementKind::Intrinsic(i) => Some(J::obj(vec![
                ("s", J::s("intrinsic")),
                ("txt", J::s(&format!("{:?}", i).chars().take(120).collect::<String>())),
                ("span", sp()),
            ])),
            _ => None,
        }
    }
}

fn dump_body<'tcx>(tcx: TyCtxt<'tcx>, did: LocalDefId) -> J {
    let body = tcx.optimized_mir(did.to_def_id());
    let cx = BodyCx { tcx, body, did };
    let mut kv: Vec<(&'static str, J)> = Vec::new();
    kv.push(("path", J::s(&def_path(tcx, did.to_def_id()))));
    kv.push(("kind", J::s(&format!("{:?}", tcx.def_kind(did)))));
    kv.push(("span", span_json(tcx, body.span)));
    kv.push(("argc", J::Int(body.arg_count as i128)));
    // parent of a closure
    if tcx.is_closure_like(did.to_def_id()) {
        let parent = tcx.typeck_root_def_id(did.to_def_id());
        kv.push(("root", J::s(&def_path(tcx, parent))));
        kv.push(("parent", J::s(&def_path(tcx, tcx.parent(did.to_def_id())))));
    }
    // signature
    if matches!(tcx.def_kind(did), DefKind::Fn | DefKind::AssocFn) {
        let sig = tcx.fn_sig(did.to_def_id()).instantiate_identity().skip_norm_wip();
        kv.push(("sig", J::s(&with_no_trimmed_paths!(format!("{}", sig)))));
        let is_unsafe = format!("{:?}", sig.safety()).contains("Unsafe");
        kv.push(("unsafe_fn", J::Bool(is_unsafe)));
        kv.push(("vis", J::s(&format!("{:?}", tcx.visibility(did.to_def_id())))));
        // impl-of / trait-impl information
        if let Some(impl_did) = tcx.impl_of_assoc(did.to_def_id()) {
            let self_ty = tcx.type_of(impl_did).instantiate_identity().skip_norm_wip();
            kv.push(("impl_self", J::s(&ty_str(self_ty))));
            if let Some(tr) = tcx.impl_opt_trait_ref(impl_did) {
                let tr = tr.instantiate_identity().skip_norm_wip();
                kv.push(("impl_trait", J::s(&def_path(tcx, tr.def_id))));
            }
        }
    }
    // locals
    let mut names: Vec<Option<String>> = vec![None; body.local_decls.len()];
    let mut upvar_names: Vec<J> = Vec::new();
    for vdi in body.var_debug_info.iter() {
        if let VarDebugInfoContents::Place(p) = &vdi.value {
            if p.projection.is_empty() {
                names[p.local.as_usize()] = Some(vdi.name.to_string());
            } else {
                upvar_names.push(J::obj(vec![
                    ("name", J::s(vdi.name.as_str())),
                    ("pl", cx.place(p)),
                ]));
            }
        }
    }
    let mut locals = Vec::new();
    for (l, decl) in body.local_decls.iter_enumerated() {
        let mut lk = vec![("ty", J::s(&ty_str(decl.ty)))];
        if let Some(n) = &names[l.as_usize()] {
            lk.push(("name", J::s(n)));
        }
        locals.push(J::obj(lk));
    }
    kv.push(("locals", J::Arr(locals)));
    kv.push(("upvars", J::Arr(upvar_names)));
    // blocks
    let mut blocks = Vec::new();
    for (_bb, data) in body.basic_blocks.iter_enumerated() {
        let mut stmts = Vec::new();
        for s in data.statements.iter() {
            if let Some(j) = cx.statement(s) {
                stmts.push(j);
            }
        }
        let term = cx.terminator(data.terminator());
        blocks.push(J::obj(vec![
            ("cleanup", J::Bool(data.is_cleanup)),
            ("stmts", J::Arr(stmts)),
            ("term", term),
        ]));
    }
    kv.push(("blocks", J::Arr(blocks)));
    J::obj(kv)
}

struct UnsafeVisitor<'tcx> {
    tcx: TyCtxt<'tcx>,
    out: Vec<J>,
}

impl<'tcx> rustc_hir::intravisit::Visitor<'tcx> for UnsafeVisitor<'tcx> {
    type NestedFilter = rustc_middle::hir::nested_filter::All;
    fn maybe_tcx(&mut self) -> Self::MaybeTyCtxt {
        self.tcx
    }
    fn visit_block(&mut self, b: &'tcx rustc_hir::Block<'tcx>) {
        if let rustc_hir::BlockCheckMode::UnsafeBlock(src) = b.rules {
            let owner = self.tcx.hir_enclosing_body_owner(b.hir_id);
            self.out.push(J::obj(vec![
                ("kind", J::s("block")),
                ("user", J::Bool(matches!(src, rustc_hir::UnsafeSource::UserProvided))),
                ("owner", J::s(&def_path(self.tcx, owner.to_def_id()))),
                ("span", span_json(self.tcx, b.span)),
            ]));
        }
        rustc_hir::intravisit::walk_block(self, b);
    }
    fn visit_item(&mut self, it: &'tcx rustc_hir::Item<'tcx>) {
        if let rustc_hir::ItemKind::Impl(imp) = &it.kind {
            if let Some(of_trait) = imp.of_trait {
                if format!("{:?}", of_trait.safety).contains("Unsafe") {
                    let did = it.owner_id.to_def_id();
                    let self_ty = self.tcx.type_of(did).instantiate_identity().skip_norm_wip();
                    let tr = self
                        .tcx
                        .impl_opt_trait_ref(did)
                        .map(|t| def_path(self.tcx, t.instantiate_identity().skip_norm_wip().def_id))
                        .unwrap_or_default();
                    self.out.push(J::obj(vec![
                        ("kind", J::s("impl")),
                        ("user", J::Bool(!it.span.from_expansion())),
                        ("trait", J::s(&tr)),
                        ("self_ty", J::s(&ty_str(self_ty))),
                        ("span", span_json(self.tcx, it.span)),
                    ]));
                }
            }
        }
        rustc_hir::intravisit::walk_item(self, it);
    }
}

fn const_value_json<'tcx>(tcx: TyCtxt<'tcx>, did: DefId) -> Option<J> {
    let ty = tcx.type_of(did).instantiate_identity().skip_norm_wip();
    let val = tcx.const_eval_poly(did).ok()?;
    let mut kv = vec![("ty", J::s(&ty_str(ty)))];
    match val {
        mir::ConstValue::Scalar(mir::interpret::Scalar::Int(si)) => {
            let size = si.size();
            let bits = si.to_bits(size);
            let v: i128 = if ty.is_signed() { size.sign_extend(bits) as i128 } else { bits as i128 };
            kv.push(("val", J::Int(v)));
        }
        mir::ConstValue::Scalar(mir::interpret::Scalar::Ptr(ptr, _)) => {
            // reference to an allocation: dump the pointee bytes
            let (prov, off) = ptr.into_raw_parts();
            let aid = prov.alloc_id();
            if let Some(rustc_middle::mir::interpret::GlobalAlloc::Memory(alloc)) =
                tcx.try_get_global_alloc(aid)
            {
                let a = alloc.inner();
                let len = a.len();
                let bytes = a.inspect_with_uninit_and_ptr_outside_interpreter(off.bytes_usize()..len);
                kv.push(("bytes", J::Arr(bytes.iter().map(|b| J::Int(*b as i128)).collect())));
            }
        }
        mir::ConstValue::Slice { alloc_id, meta } => {
            if let Some(rustc_middle::mir::interpret::GlobalAlloc::Memory(alloc)) =
                tcx.try_get_global_alloc(alloc_id)
            {
                let a = alloc.inner();
                let bytes = a.inspect_with_uninit_and_ptr_outside_interpreter(0..(meta as usize).min(a.len()));
                kv.push(("bytes", J::Arr(bytes.iter().map(|b| J::Int(*b as i128)).collect())));
            }
        }
        mir::ConstValue::Indirect { alloc_id, offset } => {
            if let Some(rustc_middle::mir::interpret::GlobalAlloc::Memory(alloc)) =
                tcx.try_get_global_alloc(alloc_id)
            {
                let a = alloc.inner();
                if a.provenance().ptrs().is_empty() {
                    let bytes =
                        a.inspect_with_uninit_and_ptr_outside_interpreter(offset.bytes_usize()..a.len());
                    kv.push(("bytes", J::Arr(bytes.iter().map(|b| J::Int(*b as i128)).collect())));
                } else {
                    kv.push(("ptrs", J::Bool(true)));
                }
            }
        }
        mir::ConstValue::ZeroSized => {
            kv.push(("zst", J::Bool(true)));
        }
        #[allow(unreachable_patterns)]
        _ => {}
    }
    Some(J::obj(kv))
}

impl rustc_driver::Callbacks for Cb {
    fn after_analysis<'tcx>(
        &mut self,
        _compiler: &rustc_interface::interface::Compiler,
        tcx: TyCtxt<'tcx>,
    ) -> rustc_driver::Compilation {
        let crate_name = tcx.crate_name(rustc_hir::def_id::LOCAL_CRATE).to_string();
        let is_test = tcx.sess.is_test_crate();
        let crate_types: Vec<String> =
            tcx.crate_types().iter().map(|c| format!("{:?}", c)).collect();
        let mut cfgs: Vec<String> = self.cfgs.clone();
        cfgs.sort();

        let mut bodies = Vec::new();
        let mut n_bodies = 0usize;
        for did in tcx.hir_body_owners() {
            let dk = tcx.def_kind(did);
            match dk {
                DefKind::Fn | DefKind::AssocFn | DefKind::Closure => {
                    n_bodies += 1;
                    bodies.push(dump_body(tcx, did));
                }
                _ => {}
            }
        }

        // ADTs, consts, statics
        let mut adts = Vec::new();
        let mut consts = Vec::new();
        let mut statics = Vec::new();
        let mut fns_nobody = Vec::new();
        for did in tcx.hir_crate_items(()).definitions() {
            let dk = tcx.def_kind(did);
            match dk {
                DefKind::Struct | DefKind::Enum | DefKind::Union => {
                    let adt = tcx.adt_def(did.to_def_id());
                    let mut vars = Vec::new();
                    for v in adt.variants().iter() {
                        let mut fields = Vec::new();
                        for f in v.fields.iter() {
                            let fty = tcx.type_of(f.did).instantiate_identity().skip_norm_wip();
                            fields.push(J::obj(vec![
                                ("name", J::s(f.name.as_str())),
                                ("ty", J::s(&ty_str(fty))),
                            ]));
                        }
                        vars.push(J::obj(vec![
                            ("name", J::s(v.name.as_str())),
                            ("fields", J::Arr(fields)),
                        ]));
                    }
                    adts.push(J::obj(vec![
                        ("path", J::s(&def_path(tcx, did.to_def_id()))),
                        ("kind", J::s(&format!("{:?}", dk))),
                        ("variants", J::Arr(vars)),
                        ("span", span_json(tcx, tcx.def_span(did))),
                    ]));
                }
                DefKind::Const { .. } | DefKind::AssocConst { .. } => {
                    // generic-free items only
                    if tcx.generics_of(did).own_requires_monomorphization()
                        || tcx.generics_of(did).parent_count > 0
                    {
                        continue;
                    }
                    let mut kv = vec![
                        ("path", J::s(&def_path(tcx, did.to_def_id()))),
                        ("span", span_json(tcx, tcx.def_span(did))),
                    ];
                    if let Some(J::Obj(v)) = const_value_json(tcx, did.to_def_id()) {
                        for (k, val) in v {
                            kv.push((Box::leak(k.into_boxed_str()), val));
                        }
                    }
                    consts.push(J::obj(kv));
                }
                DefKind::Static { .. } => {
                    let ty = tcx.type_of(did).instantiate_identity().skip_norm_wip();
                    statics.push(J::obj(vec![
                        ("path", J::s(&def_path(tcx, did.to_def_id()))),
                        ("ty", J::s(&ty_str(ty))),
                    ]));
                }
                DefKind::Fn | DefKind::AssocFn => {
                    if tcx.hir_maybe_body_owned_by(did).is_none() {
                        fns_nobody.push(J::s(&def_path(tcx, did.to_def_id())));
                    }
                }
                _ => {}
            }
        }

        // trait impls (local)
        let mut impls = Vec::new();
        for did in tcx.hir_crate_items(()).definitions() {
            if let DefKind::Impl { of_trait } = tcx.def_kind(did) {
                let self_ty = tcx.type_of(did).instantiate_identity().skip_norm_wip();
                let mut kv = vec![
                    ("self_ty", J::s(&ty_str(self_ty))),
                    ("span", span_json(tcx, tcx.def_span(did))),
                ];
                if of_trait {
                    if let Some(tr) = tcx.impl_opt_trait_ref(did.to_def_id()) {
                        let tr = tr.instantiate_identity().skip_norm_wip();
                        kv.push(("trait", J::s(&def_path(tcx, tr.def_id))));
                    }
                }
                let items: Vec<J> = tcx
                    .associated_item_def_ids(did.to_def_id())
                    .iter()
                    .map(|d| J::s(&def_path(tcx, *d)))
                    .collect();
                kv.push(("items", J::Arr(items)));
                impls.push(J::obj(kv));
            }
        }

        // unsafe inventory from HIR
        let mut uv = UnsafeVisitor { tcx, out: Vec::new() };
        tcx.hir_walk_toplevel_module(&mut uv);

        let root = J::obj(vec![
            ("nonce", J::s(&self.nonce)),
            ("crate", J::s(&crate_name)),
            ("is_test", J::Bool(is_test)),
            ("crate_types", J::Arr(crate_types.iter().map(|c| J::s(c)).collect())),
            ("cfgs", J::Arr(cfgs.iter().map(|c| J::s(c)).collect())),
            ("n_bodies", J::Int(n_bodies as i128)),
            ("bodies", J::Arr(bodies)),
            ("adts", J::Arr(adts)),
            ("consts", J::Arr(consts)),
            ("statics", J::Arr(statics)),
            ("impls", J::Arr(impls)),
            ("unsafe", J::Arr(uv.out)),
            ("fns_nobody", J::Arr(fns_nobody)),
        ]);
        let mut s = String::new();
        root.write(&mut s);
        let kind = if is_test { "test" } else { "plain" };
        let ct = crate_types.join("_");
        let mut fname = String::new();
        let _ = write!(fname, "{}/{}-{}-{}-{}.json", self.out_dir, crate_name, ct, kind, std::process::id());
        std::fs::write(&fname, s).expect("write facts");
        rustc_driver::Compilation::Continue
    }
}

fn main() {
    let mut args: Vec<String> = std::env::args().collect();
    // RUSTC_WORKSPACE_WRAPPER: argv = [driver, rustc, args...]
    if args.len() > 1 && (args[1].ends_with("rustc") || args[1].contains("/rustc")) {
        args.remove(1);
    }
    let out_dir = std::env::var("FEOXLINT_OUT").unwrap_or_default();
    let targets = std::env::var("FEOXLINT_CRATES").unwrap_or_else(|_| "feoxdb,feox_migrate".into());
    let mut crate_name = String::new();
    let mut i = 0;
    while i < args.len() {
        if args[i] == "--crate-name" && i + 1 < args.len() {
            crate_name = args[i + 1].clone();
        }
        i += 1;
    }
    let named = targets.split(',').any(|t| t == crate_name);
    // compile-fail witnesses: add a cfg to the target crate only (dependencies stay cached)
    if named {
        if let Ok(extra) = std::env::var("FEOXLINT_EXTRA_CFG") {
            for c in extra.split(',').filter(|c| !c.is_empty()) {
                args.push("--cfg".to_string());
                args.push(c.to_string());
                // lets the witness harness tell a real compile of the witness cfg from a run cargo answered from its cache
                eprintln!("feoxlint-witness-cfg: {} crate={}", c, crate_name);
            }
        }
    }
    let is_target = !out_dir.is_empty() && named;
    if !is_target {
        struct Nop;
        impl rustc_driver::Callbacks for Nop {}
        rustc_driver::run_compiler(&args, &mut Nop);
        return;
    }
    let nonce = std::env::var("FEOXLINT_NONCE").unwrap_or_default();
    let mut cfgs = Vec::new();
    let mut i = 0;
    while i < args.len() {
        if args[i] == "--cfg" && i + 1 < args.len() {
            cfgs.push(args[i + 1].clone());
        }
        if args[i] == "--test" {
            cfgs.push("test".into());
        }
        i += 1;
    }
    let mut cb = Cb { out_dir, nonce, cfgs };
    rustc_driver::run_compiler(&args, &mut cb);
}
