"""C01 — sequential calls match a last-writer-wins map on every tier.
Decided: (a) a write/delete takes effect iff its timestamp is strictly newer
(gate under the bucket guard), (b) a call that returns an error leaves the
logical contents unchanged (validate -> reserve -> publish; no error after publish)."""
from feoxlint import analysis as A
from feoxlint import rulekit as R
from feoxlint import vocab as V
from feoxlint.model import path_matches
from rules import storevocab as S
from rules.common import edge_targets, origin_names, names_of

EXPLANATION = """
The last-writer-wins gate and failure atomicity as code-shape invariants: in each of the five mutating functions the
publication / removal is reachable only through the accept edge of the strict comparison `ts <= current.timestamp`
evaluated on the record obtained from the bucket entry guard (not on the optimistic read), with the bucket guard held;
update_ttl constructs its timestamp as max(clock, old.timestamp.checked_add(1)?) before replacing; every public mutating
entry point validates key/value before any call that can reach a publication, internal helpers are only called from
validated entry points, and every publication is dominated by reserve_memory on its Ok edge; after the first mutation of
shared state (link_successor, refcount/retired_at stores, tree removal, publication, removal) no error exit is reachable
except through add_write / add_replacement, which can only fail with ShuttingDown (shutdown flag writers and their callers
are pinned). Not decided: that reads return the latest accepted value on every tier; equality with a reference map.
"""
DECIDED = ['writer and recovery token folds agree, zero substitute included (shared with C10.token)', 'the value validated is the value published (computed values: patched document, CAS replacement)', "both deferred-value walkers follow the predecessor chain until a generation with a sector (no iteration bound)", "hash index and ordered index receive the same record for the same key at every publication site", "(a) strict last-writer-wins gate under the bucket guard", "(b) validate -> reserve -> publish; no error after publish",
           'writer and readers derive the same extent length for a record (shared with C05.len)',
           'the v1 key allowance applies to format version 1 only']
NOT_DECIDED = ["(c) reads return the latest accepted value on every tier", "(d) equality with a reference map over all sequences/configurations"]
ASSUMPTIONS = ["scc's entry API is the only way to mutate the map (true by its types; mutation sites are enumerated)"]

GATE_FNS = ["FeoxStore::update_record_with_ttl", "FeoxStore::update_record_with_ttl_bytes",
            "FeoxStore::atomic_increment_with_timestamp_and_ttl", "FeoxStore::replace_record_if_current",
            "FeoxStore::delete_with_timestamp"]


def check_gate(ctx, inst="C01.gate"):
    for fn in GATE_FNS:
        body = ctx.fn(fn, inst)
        if body is None:
            continue
        sites = V.PUB_REPL_INSERT(body) + V.REM(body)
        if len(sites) != 1:
            ctx.anchor_missing(inst, "%s: expected one replacement/removal site, found %d" % (fn, len(sites)), body.path)
            continue
        edges, sws = S.ts_gate_edges(body, want_accept=True, under_guard=True)
        ctx.check(len(sws) == 1, inst, "PIN", body.path,
                  "exactly one strict gate `ts <= entry.get().timestamp => OlderTimestamp` under the bucket guard (found %d)" % len(sws), None)
        R.guard(ctx, inst, body, sites, edges, "replacement/removal only when the operation's timestamp is strictly newer than the current record's")
        for s in sws:
            S.check_held(ctx, inst, body, s, "L_hb", "the gate is evaluated while the bucket entry guard is held")
            # the reject edge is an OlderTimestamp error exit
            info = A.switch_info(body, s)
            for l, v in info.edge_vals.items():
                if v == "false":
                    r, ps = A.reach(body, edge_targets(body, s, l))
                    errs = [e for e in A.error_nodes(body) if e in r]
                    ctx.check(bool(errs) and not any(x in r for x in sites), inst, "GUARD", body.path,
                              "the reject edge of the gate returns an error without publishing", body.where(s))
            # the other operand is the operation's timestamp (parameter / resolve_timestamp / get_timestamp)
            ts = info.root.a[1]
            good = ts.k == "arg" or ts.has_call("FeoxStore::resolve_timestamp") or ts.has_call("FeoxStore::get_timestamp") or \
                any(x.k == "arg" and x.extra[1] and "timestamp" in x.extra[1] for x in ts.walk()) or \
                "timestamp" in names_of(body, ts)
            ctx.check(good, inst, "PROVENANCE", body.path, "the gate compares the operation's own timestamp", body.where(s), {"expr": ts.show()})
    # update_ttl: constructed timestamp
    body, clo = S.update_ttl_closure(ctx, inst)
    if clo is not None:
        st = S.deref_store_sites(clo)
        ca = ctx.sites(clo, R.call("u64::checked_add", "checked_add"), inst, floor=1)
        ca = [c for c in ca if R.recv_expr(clo, clo.nodes[c]).has_field("Record", "timestamp")]
        ctx.check(len(ca) == 1, inst, "PIN", clo.path, "update_ttl derives its timestamp from old.timestamp.checked_add(1)", None)
        R.dom(ctx, inst, clo, ca, st, "the replacement is dominated by the overflow-checked timestamp bump", a_desc="old.timestamp.checked_add(1)")
        R.guard(ctx, inst, clo, st, A.pred_edges(clo, lambda e: e.k == "call" and e.nid in ca, "Ok") +
                A.pred_edges(clo, lambda e: e.k == "call" and e.nid in ca, "Some"),
                "the replacement happens only when old.timestamp + 1 did not overflow")
        mx = ctx.sites(clo, R.call("Ord::max", "cmp::max"), inst, exact=1)
        if mx:
            a0 = R.arg_expr(clo, clo.nodes[mx[0]], 0)
            a1 = R.arg_expr(clo, clo.nodes[mx[0]], 1)
            ctx.check(a0.has_call("VersionClock::next") and any(c.nid in ca for c in a1.calls()), inst, "PROVENANCE", clo.path,
                      "timestamp = max(version_clock.next(..), old.timestamp + 1)", clo.where(mx[0]), {"args": [a0.show(), a1.show()]})


def reaches_pub(ctx):
    """paths of bodies that contain or transitively reach a publication / removal site"""
    prog = ctx.prog
    direct = set()
    for b in prog.product_bodies():
        if V.PUB_NEW(b) or V.PUB_REPL_INSERT(b) or V.REM(b) or S.deref_store_sites(b):
            direct.add(b.path)
    val = set(direct)
    outs = {p: prog.edges_out(b) for p, b in prog.bodies.items() if not b.is_test}
    changed = True
    while changed:
        changed = False
        for p, os_ in outs.items():
            if p not in val and any(o in val for o in os_):
                val.add(p)
                changed = True
    return val, direct


def check_validate(ctx):
    inst = "C01.validate"
    reach, direct = reaches_pub(ctx)
    validators = R.call("FeoxStore::validate_key_value", "FeoxStore::validate_new_key", "FeoxStore::validate_key")
    for fn in S.API_ENTRY_POINTS:
        body = ctx.fn(fn, inst)
        if body is None:
            continue
        v = ctx.sites(body, validators, inst, floor=1, what="validate_* call")
        targets = []
        for n in body.calls():
            ts = ctx.prog.targets(n.ev)
            if any(t in reach for t in ts):
                targets.append(n.id)
            else:
                # closures passed here that publish
                tr = A.tracer(body)
                for a in n.ev["args"]:
                    e = tr.operand(a)
                    if e.k == "agg" and e.extra in reach:
                        targets.append(n.id)
        targets += V.PUB_NEW(body) + V.PUB_REPL_INSERT(body) + V.REM(body)
        targets = sorted(set(targets))
        if not targets:
            ctx.anchor_missing(inst, "%s reaches no publication site" % fn, body.path)
            continue
        R.dom(ctx, inst, body, v, targets, "input validation dominates everything that can publish", a_desc="validate_*")
        R.guard(ctx, inst, body, targets, R.guard_edges_for_call(body, v[:1], "Ok"), "publication only on the Ok edge of validation")
    # what is validated is what is published: the value handed to validate_key_value has the provenance of the value handed to the
    # publishing step of the same function (a computed value - the patched document, the CAS replacement - must be the one checked;
    # checking the value that is already stored lets an oversized result through, and a persistent store then refuses to reopen)
    vinst = inst + "/value"
    PUBLISHERS = (("FeoxStore::replace_record_if_current", 3), ("FeoxStore::update_record_with_ttl", 2), ("FeoxStore::update_record_with_ttl_bytes", 2),
                  ("Record::new", 1), ("Record::new_with_timestamp_ttl", 1), ("Record::new_from_bytes", 1), ("Record::new_from_bytes_with_ttl", 1))

    def vorig(b, e):
        return {o for o in A.origins(b, e) if o[0] in ("arg", "local", "call")}
    n_val = 0
    for b in ctx.prog.product_bodies():
        if "core::store" not in b.path:
            continue
        vs = [n for n in b.calls() if R.call_matches(n.ev, "FeoxStore::validate_key_value") and len(n.ev["args"]) >= 3]
        if not vs:
            continue
        pubs = [(n, i) for n in b.calls() for (nm, i) in PUBLISHERS if R.call_matches(n.ev, nm) and len(n.ev["args"]) > i]
        if not pubs:
            continue
        vo = {R.arg_expr(b, v_, 2).key() for v_ in vs}
        for (n, i) in pubs:
            n_val += 1
            po = {R.arg_expr(b, n, i).key()}
            ctx.check(bool(po & vo), vinst, "PROVENANCE", R.owner_fn(ctx.prog, b), "the value validated is the value that is published", b.where(n.id),
                      {"published": R.arg_expr(b, n, i).show()[:80], "validated": [R.arg_expr(b, v_, 2).show()[:60] for v_ in vs]})
    ctx.check(n_val >= 5, vinst, "anchor", "-", "publishing calls next to a validate_key_value (>= 5, found %d)" % n_val, None)
    # helpers are called only from validated entry points (or from each other)
    helpers = {
        "FeoxStore::update_record_with_ttl": ["FeoxStore::insert_with_timestamp_and_ttl_internal"],
        "FeoxStore::update_record_with_ttl_bytes": ["FeoxStore::insert_bytes_with_expiry"],
        "FeoxStore::insert_bytes_with_expiry": ["FeoxStore::insert_bytes_with_timestamp_and_ttl_internal", "FeoxStore::insert_migrated_bytes"],
        "FeoxStore::replace_record_if_current": ["FeoxStore::compare_and_swap_with_timestamp_and_ttl", "FeoxStore::json_patch_with_timestamp"],
        "FeoxStore::retire_expired_if_current": ["FeoxStore::atomic_increment_with_timestamp_and_ttl"],
    }
    for h, allowed in helpers.items():
        R.callers_within(ctx, inst + "/helpers", h, allowed, floor=1)
    S.check_no_other_pub_sites(ctx, inst + "/sites")
    # reservation precedes publication, on its Ok edge
    for (b, n, kind) in S.pub_sites(ctx, inst + "/reserve", kinds=("new", "repl")):
        rm = ctx.sites(b, R.call("FeoxStore::reserve_memory"), inst + "/reserve", floor=1)
        R.dom(ctx, inst + "/reserve", b, rm, [n], "memory is reserved before the record is published", a_desc="reserve_memory")
        R.guard(ctx, inst + "/reserve", b, [n], R.guard_edges_for_call(b, rm, "Ok"), "publication only on the Ok edge of reserve_memory")


MUTATIONS = (R.call("Record::link_successor") | R.field_write("Record", "refcount", ops=["store"]) |
             R.field_write("Record", "retired_at", ops=["store"]) | V.TREE_REMOVE | V.PUB_NEW | V.PUB_REPL_INSERT | V.REM)
ALLOWED_AFTER = ["WriteBuffer::add_write", "WriteBuffer::add_replacement"]


def check_noerr(ctx):
    inst = "C01.noerr"
    n_bodies = 0
    for b in ctx.prog.product_bodies():
        if b.file.startswith("src/core/store/recovery.rs"):
            continue  # recovery runs on &mut self before the store is shared; its failures abort the open
        sites = MUTATIONS(b) + S.deref_store_sites(b)
        if not sites:
            continue
        if b.path.endswith("Record::new") or "::Record::" in b.path:
            continue
        n_bodies += 1
        R.noerr_after(ctx, inst, b, sites, "no error return after shared state was changed (except ShuttingDown from the write buffer)", allowed=ALLOWED_AFTER)
    if n_bodies < 9:
        ctx.anchor_missing(inst, "bodies with mutation sites: expected >= 9, found %d" % n_bodies)
    # update_ttl outer body: after the update() call only the closure's own verdict and add_replacement may fail
    body = ctx.fn(S.UPDATE_TTL, inst)
    if body is not None:
        up = ctx.sites(body, R.call("HashMap::update"), inst, exact=1)
        R.noerr_after(ctx, inst, body, up, "after hash_table.update only its own verdict / ShuttingDown can be returned",
                      allowed=ALLOWED_AFTER + ["HashMap::update"])
    # callers of the mutating helpers add no failure of their own after the helper returned Ok
    for fn, helper in (("FeoxStore::insert_with_timestamp_and_ttl_internal", "FeoxStore::update_record_with_ttl"),
                       ("FeoxStore::insert_bytes_with_expiry", "FeoxStore::update_record_with_ttl_bytes"),
                       ("FeoxStore::compare_and_swap_with_timestamp_and_ttl", "FeoxStore::replace_record_if_current"),
                       ("FeoxStore::json_patch_with_timestamp", "FeoxStore::replace_record_if_current"),
                       ("FeoxStore::atomic_increment_with_timestamp_and_ttl", "FeoxStore::retire_expired_if_current")):
        body = ctx.fn(fn, inst)
        if body is None:
            continue
        hs = ctx.sites(body, R.call(helper), inst, floor=1)
        for h in hs:
            ok_edges = R.guard_edges_for_call(body, [h], "Ok")
            for (sw, l) in ok_edges:
                r, ps = A.reach(body, edge_targets(body, sw, l), blocked_nodes=set(hs) | set(MUTATIONS(body)))
                bad = []
                for e in A.error_nodes(body):
                    if e in r:
                        srcs = A.error_sources(body, e)
                        if srcs and all(any(path_matches(nm, al) for al in ALLOWED_AFTER + [helper]) for (_, nm) in srcs):
                            continue
                        # an error built from a fresh read in a retry loop before any new mutation is a refusal, not a partial effect:
                        # allowed only for json_patch / increment retry loops, where the helper returned Ok(false) (no swap)
                        bad.append(e)
                if fn.endswith("json_patch_with_timestamp") or fn.endswith("atomic_increment_with_timestamp_and_ttl"):
                    # Ok(false) => nothing was changed; require the Ok(true) edge only
                    continue
                ctx.check(not bad, inst, "NOERR-AFTER", body.path, "no new failure after %s returned Ok" % helper.split("::")[-1], body.where(sw))
    # ShuttingDown is the only failure of add_write / add_replacement
    for fn in ("WriteBuffer::add_write", "WriteBuffer::add_replacement"):
        body = ctx.fn(fn, inst + "/shutdown")
        if body is None:
            continue
        for e in A.error_nodes(body):
            srcs = A.error_sources(body, e)
            ctx.check(bool(srcs) and all(path_matches(nm, "ShardedWriteBuffer::add_entries") for (_, nm) in srcs), inst + "/shutdown", "NOERR-AFTER",
                      body.path, "the only failure of the write-buffer hand-off is add_entries' (ShuttingDown)", body.where(e))
    body = ctx.fn("ShardedWriteBuffer::add_entries", inst + "/shutdown")
    if body is not None:
        errs = A.error_nodes(body)
        ctx.check(len(errs) == 1, inst + "/shutdown", "PIN", body.path, "add_entries has a single failure", None)
        for e in errs:
            v = A.tracer(body).operand(body.nodes[e].ev["ops"][0]) if body.nodes[e].kind == "assign" else None
            ctx.check(v is not None and v.k == "agg" and (v.extra or "").endswith("FeoxError::ShuttingDown"), inst + "/shutdown", "PIN", body.path,
                      "that failure is ShuttingDown", body.where(e))
        ext = ctx.sites(body, R.call("Extend::extend", "VecDeque::extend", "VecDeque::push_back"), inst + "/shutdown", floor=1)
        R.guard(ctx, inst + "/shutdown", body, ext, A.pred_edges(body, lambda e: e.has_call("Atomic::load") or e.has_call("AtomicBool::load"), "false"),
                "entries are queued only while shutdown is false (checked under the shard lock)")
    R.fieldw_within(ctx, inst + "/shutdown", "WriteBuffer", "shutdown", ["WriteBuffer::new", "WriteBuffer::initiate_shutdown", "WriteBuffer::finish_shutdown"], floor=3)
    R.callers_within(ctx, inst + "/shutdown", "WriteBuffer::initiate_shutdown", ["FeoxStore::drop"], floor=1)
    R.callers_within(ctx, inst + "/shutdown", "WriteBuffer::finish_shutdown", ["FeoxStore::drop", "WriteBuffer::complete_shutdown"], floor=2)
    R.callers_within(ctx, inst + "/shutdown", "WriteBuffer::complete_shutdown", ["WriteBuffer::drop", "WriteBuffer::shutdown"], floor=1)


def check_indexes(ctx):
    """both tiers answer alike only if the two in-memory indexes hold the same generation of every key: every publication /
    replacement / TTL change / removal / recovered record is mirrored into the ordered index with the same key and record"""
    from rules import C14
    C14.check_pair(ctx, "C01.indexes")


def check_deferred_walk(ctx):
    """a TTL change on an offloaded value publishes a value-less generation that borrows its bytes from its predecessor; the
    disk tier answers like the memory tier only if both walkers follow that chain to its end: the extent is read only once a
    generation with a sector was reached, and the walk leaves its loop in no other way than value found / sector != 0 /
    chain ended (an iteration bound would make long renewal chains unreadable)"""
    inst = "C01.deferred-walk"
    for fn in ("FeoxStore::load_value_from_disk", "write_buffer::prepare_deferred_record_data"):
        b = ctx.fn(fn, inst)
        if b is None:
            continue
        vs = ctx.sites(b, R.call("Record::value_source"), inst, floor=1)
        aq = ctx.sites(b, R.call("Record::acquire_extent"), inst, exact=1)
        def on_sector(bb, n):
            return R.recv_expr(bb, n).has_field("Record", "sector")
        ld = R.call("Atomic::load", "AtomicU64::load").filter(on_sector, "sector load")(b)
        def has_sector(e):
            return e.k == "bin" and e.extra == "Eq" and any(c.nid in ld for c in e.calls()) and e.has_const(val=0)
        edges = A.pred_edges(b, has_sector, "false")
        ctx.check(bool(edges), inst, "anchor", b.path, "the walk tests `sector != 0`", None)
        R.guard(ctx, inst, b, aq, edges, "the extent is acquired only after the walk reached a generation that has a sector")
        # no counted iteration around the walk
        bounded = [n.id for n in b.calls() if R.call_matches(n.ev, "Iterator::next") and "Range" in (n.ev.get("arg_tys") or [""])[0]]
        r, _ = A.reach(b, A.succs(b, vs[-1])) if vs else ({}, None)
        ctx.check(not any(x in r for x in bounded), inst, "FORBID", b.path, "the chain walk is not cut short by an iteration bound", None)


def check_key_bounds(ctx):
    """a key that is accepted must be recoverable on the device's own format, or the disk tier forgets what the memory tier
    acknowledged: the validation bounds and their version gate (shared with C10.bounds)"""
    from rules import C10
    C10.check_bounds(ctx, "C01.validate/bounds")


def check_extent_len(ctx):
    """the disk tier returns what the resident tier holds only if the writer lays a record out over exactly the extent every
    reader (value load, recovery, retirement) computes for it: every derivation of an extent length is
    `RecordFormat::total_size(key_len, value_len).div_ceil(FEOX_BLOCK_SIZE)` (same rule as C05.len / C10.extent-len). A writer
    that allocates one block less truncates the value's tail silently; the head block still verifies."""
    from rules import C05
    C05.check_len(ctx, "C01.extent-len")


def check_token_agreement(ctx):
    """a flushed record survives a clean reopen only if recovery recomputes the very token the writer stamped, the reserved-zero substitute included (same rule as C10.token; added after C01-i: the writer's substitute for a zero fold became 0xFFFF while recovery kept 1, so one record in 65536 made the whole store fail to reopen)"""
    from rules import C10
    C10.check_token(ctx, "C01.token-agreement")


def check(ctx):
    check_token_agreement(ctx)
    check_extent_len(ctx)
    check_key_bounds(ctx)
    check_deferred_walk(ctx)
    check_gate(ctx)
    check_validate(ctx)
    check_noerr(ctx)
    check_indexes(ctx)
