"""C17 clause (b), restricted to the functions that parse bytes read from the device: every panic site in them
(bounds check, slice range, arithmetic overflow / shift / division assertion, try_into().unwrap() on a slice,
copy_from_slice, allocation sized from parsed data) is discharged by the bounds engine (feoxlint/bounds.py), or is listed in
RESIDUAL below with the reason it is not decided. An undischarged site that is not listed is a finding."""
import json
import os

from feoxlint import bounds as B
from feoxlint import rulekit as R
from feoxlint.model import path_matches

# functions whose input is device bytes (or values decoded from them); closures of these are included
SCOPE = [
    "allocation_journal::decode", "allocation_journal::decode_slot", "allocation_journal::journal_checksum",
    "allocation_journal::journal_image_size",
    "Metadata::from_bytes", "Metadata::validate", "Metadata::checksum", "Metadata::generation",
    "Metadata::advance_generation", "Metadata::refresh_checksum", "Metadata::encode",      # run on whatever metadata was read from the device
    "FormatV1 as storage::format::RecordFormat>::parse_record", "FormatV2 as storage::format::RecordFormat>::parse_record",
    "FormatV1 as storage::format::RecordFormat>::record_header_size", "FormatV2 as storage::format::RecordFormat>::record_header_size",
    "FormatV1 as storage::format::RecordFormat>::total_size", "FormatV2 as storage::format::RecordFormat>::total_size",
    "FormatV1 as storage::format::RecordFormat>::value_offset", "FormatV2 as storage::format::RecordFormat>::value_offset",
    "format::sector_holds_record", "format::retirement_marker_token",
    "seq_token::crc32c_sw", "seq_token::header_range", "seq_token::record_seq_token", "seq_token::seq_token", "seq_token::nonzero_token",
    "recovery::RecoveryScanner::<'a>::new", "recovery::RecoveryScanner::<'a>::block", "recovery::RecoveryScanner::<'a>::visit_blocks",
    "recovery::RecoveryScanner::<'a>::fill_at",
    "FeoxStore::load_indexes", "FeoxStore::scan_and_rebuild_indexes", "FeoxStore::remove_expired_recovery_winners",
    "recovery::journal_overlaps", "recovery::record_crc_head", "recovery::record_token", "recovery::is_complete_retirement_block",
    "persistence::file_is_all_zero", "FeoxStore::load_value_from_disk", "persistence::validate_device_size",
    "DiskIO::read_metadata", "DiskIO::read_allocation_journal", "DiskIO::read_sectors_sync",
]

# entry contracts: assumed inside the function, proved at every call site that lies in SCOPE (call sites outside SCOPE are
# listed in the evidence as assumed)
CONTRACTS = {
    "allocation_journal::decode_slot": [("len", 1, "eq", 12288)],
    "allocation_journal::journal_checksum": [("len", 1, "ge", 36)],
    "allocation_journal::journal_image_size": [("val", 1, "le", 1024)],
    # a key length is the length of an in-memory slice (<= isize::MAX): enough for the header arithmetic not to wrap
    "RecordFormat>::record_header_size": [("val", 2, "le", (1 << 63) - 1)],
    "RecordFormat::record_header_size": [("val", 2, "le", (1 << 63) - 1)],
    "RecordFormat>::total_size": [("val", 2, "le", (1 << 63) - 1), ("val", 3, "le", 1 << 62)],
    "RecordFormat::total_size": [("val", 2, "le", (1 << 63) - 1), ("val", 3, "le", 1 << 62)],
    "RecordFormat>::value_offset": [("val", 2, "le", (1 << 63) - 1)],
    "RecordFormat::value_offset": [("val", 2, "le", (1 << 63) - 1)],
    "format::retirement_marker_token": [("len", 2, "ge", 19)],
    "recovery::record_crc_head": [("len", 2, "ge", 4)],
    "DiskIO::read_sectors_sync": [("val", 3, "le", 1 << 19), ("val", 2, "le", (1 << 52) - 1)],
    "RecoveryScanner::new": [("val", 2, "le", 1 << 52)],
    "recovery::RecoveryScanner::<'a>::new": [("val", 2, "le", 1 << 52)],
}
# postconditions taken on trust (listed in the evidence): Ok(v) of read_sectors_sync has v.len() == count * FEOX_BLOCK_SIZE
ENSURES = {"DiskIO::read_sectors_sync": [("ok_len_mul", 3, 4096)]}
# postconditions: proved at every Ok return of the callee (fields as they are at exit), assumed by callers on the Ok edge.
# RecoveryScanner window: after fill_at(s) = Ok the block of sector s lies inside the buffer.
B4K = 4096
POSTS = {
    "RecoveryScanner::fill_at": [
        [(1, ("arg", 2)), (-1, ("field", 1, "buffer_start")), 0],                                                  # buffer_start <= sector
        [(B4K, ("field", 1, "buffer_start")), (1, ("lenfield", 1, "buffer")), (-B4K, ("arg", 2)), -B4K],          # (sector + 1 - buffer_start) * 4096 <= buffer.len()
    ],
}
# type invariant of the private RecoveryScanner (assumed on entry of its methods, proved at every constructor expression and
# at every exit of a method that may have changed the fields; only its own methods write the fields: checked)
INVARIANTS = {
    "RecoveryScanner": [
        [(B4K, ("field", 1, "total_sectors")), (-B4K, ("field", 1, "buffer_start")), (-1, ("lenfield", 1, "buffer")), 0],   # window ends inside the device
        [(-1, ("field", 1, "total_sectors")), 1 << 52],                                                                      # total_sectors <= 2^52
    ],
}
INLINE = ["allocation_journal::journal_image_size", "RecordFormat::record_header_size", "RecordFormat::total_size", "RecordFormat::value_offset"]

RESIDUAL_FILE = os.path.join(os.path.dirname(os.path.dirname(os.path.abspath(__file__))), "spec", "c17_residual.json")


def in_scope(body):
    root = body.root if body.is_closure else body.path
    return any(path_matches(root, s) or root.endswith(s) for s in SCOPE)


def device_range_obligations(prog, eng, b):
    """recovery queues extents for retirement (marker writes + release): every queued (sector, blocks) pair must lie inside
    the device, sector + blocks <= total_sectors, or recovery writes past the end of the file it was asked to open"""
    from rules import roles
    if not path_matches(b.path, "FeoxStore::scan_and_rebuild_indexes"):
        return []
    c = eng.ctx(b)
    f = c.f
    tot = None
    for n in b.calls():
        if R.call_matches(n.ev, "DiskIO::read_allocation_journal") and len(n.ev["args"]) >= 2:
            tot = f.operand(n.ev["args"][1], n.id)
    rl = [l for l, r in roles.role_map(b).items() if r == "retired_extents"]
    out = []
    if tot is None or not rl:
        return None
    for n in b.calls():
        if not R.call_matches(n.ev, "Vec::push"):
            continue
        if roles.recv_local(b, n, 0) not in rl:
            continue
        v = f.operand(n.ev["args"][1], n.id)
        ob = B.Ob(n.id, "DeviceRange", b.where(n.id))
        ob.desc = "queued extent inside the device: " + v.show()[:90]
        if v.k == "agg" and len(v.a) == 2:
            ob.goals = [c.L(tot) - c.L(v.a[0]) - c.L(v.a[1])]
        out.append(ob)
    return out


# loops over device-derived positions: the loop variable must strictly advance on every way back to the loop head
PROGRESS = [
    # (function, how the loop variable is found, direction)
    ("FeoxStore::scan_and_rebuild_indexes", ("arg_of", "RecoveryScanner::block", 1), +1),
    ("persistence::file_is_all_zero", ("role", "remaining"), -1),
    ("RecoveryScanner::visit_blocks", ("arg_of", "RecoveryScanner::fill_at", 1), +1),
]


def progress_obligations(prog, eng, b):
    """termination of the position loops: on every back edge the new value of the loop variable is >= old + 1 (or <= old - 1)"""
    from rules import roles
    out = []
    for (fn, how, direction) in PROGRESS:
        if not path_matches(b.path, fn):
            continue
        c = eng.ctx(b)
        f = c.f
        local = None
        if how[0] == "arg_of":
            for n in b.calls():
                if R.call_matches(n.ev, how[1]):
                    local = roles.recv_local(b, n, how[2])
        else:
            ls = roles.locals_with_role(b, how[1])
            local = ls[0] if ls else None
        if local is None or local in f.mem:
            ob = B.Ob(b.entry, "Progress", b.where(b.entry))
            ob.desc = "loop variable not identified (%s)" % (how,)
            out.append(ob)
            continue
        items = B.loop_progress(eng, b, local, direction)
        found = len(items)
        out += items
        if not found:
            ob = B.Ob(b.entry, "Progress", b.where(b.entry))
            ob.desc = "no loop over `%s` found" % (b.local_name(local),)
            out.append(ob)
    return out


def run(prog):
    eng = B.Engine(prog, contracts=CONTRACTS, inline=INLINE, ensures=ENSURES, posts=POSTS)
    eng.invariants = INVARIANTS
    out = []
    for p, b in sorted(prog.bodies.items()):
        if b.is_test or not in_scope(b):
            continue
        c = eng.ctx(b)
        extra = device_range_obligations(prog, eng, b)
        if extra is None:
            ob = B.Ob(b.entry, "DeviceRange", b.where(b.entry))
            ob.desc = "retired_extents / total_sectors not identified"
            extra = [ob]
        for item in progress_obligations(prog, eng, b):
            if isinstance(item, tuple):
                ob, (pp, lab) = item
                facts = eng.facts_at_edge(c, pp, lab)
                ok = all(eng.entails(c, facts, g, 0) for g in ob.goals)
                out.append((b, ob, ok, "" if ok else "cannot show  %s >= 0" % ob.goals[0].show(c.names)))
            else:
                out.append((b, item, False, "loop not identified"))
        for ob in list(eng.obligations(c)) + extra:
            try:
                ok, why = eng.prove(c, ob)
            except RecursionError:
                ok, why = False, "engine recursion limit"
            out.append((b, ob, ok, why))
    return eng, out


def key_of(b, ob):
    fn = (b.root if b.is_closure else b.path).rsplit("::", 2)
    fn = "::".join(fn[-2:]) + ("{closure}" if b.is_closure else "")
    return "%s | %s | %s" % (fn, ob.kind, ob.desc)


def check(ctx, inst="C17.bounds"):
    prog = ctx.prog
    with open(RESIDUAL_FILE) as f:
        residual = json.load(f)
    allowed = {}
    for r in residual["sites"]:
        allowed[r["key"]] = allowed.get(r["key"], 0) + r.get("count", 1)
    missing = [s for s in SCOPE if not any((path_matches(b.path, s) or b.path.endswith(s)) for b in prog.bodies.values() if not b.is_test)]
    for s in missing:
        ctx.anchor_missing(inst, "scope function not found: %s" % s, "-")
    eng, res = run(prog)
    n_ok = 0
    used = {}
    by_kind = {}
    for (b, ob, ok, why) in res:
        by_kind.setdefault(ob.kind, [0, 0])
        by_kind[ob.kind][0] += 1
        if ok:
            n_ok += 1
            by_kind[ob.kind][1] += 1
            ctx.ok(inst, "BOUNDS", b.path, "%s: %s" % (ob.kind, ob.desc), ob.where)
            continue
        k = key_of(b, ob)
        used[k] = used.get(k, 0) + 1
        if used[k] <= allowed.get(k, 0):
            continue
        ctx.fail(inst, "BOUNDS", b.path, "%s not discharged: %s: %s" % ("obligation" if ob.kind in ("Progress", "DeviceRange", "Contract", "AllocSize", "Post", "Invariant") else "panic site", ob.kind, ob.desc), ob.where,
                 {"reason": why, "rule": "every bounds / overflow / unwrap / length obligation in a device-bytes parser must follow from the checks that dominate it"})
    # the invariant argument needs the fields to be written only by the type's own methods / constructor expressions
    for ty, rows in INVARIANTS.items():
        fields = {spec[2] for row in rows for (c_, spec) in row[:-1]}
        n_w = 0
        for bb in prog.bodies.values():
            if bb.is_test:
                continue
            for n in bb.nodes:
                pls = []
                if n.kind == "assign":
                    pls.append(n.ev["dst"])
                    if n.ev.get("rv") in ("ref", "rawptr") and (n.ev.get("mut") or n.ev.get("rv") == "rawptr"):
                        pls.append(n.ev["pl"])
                elif n.kind == "call" and n.ev.get("dest"):
                    pls.append(n.ev["dest"])
                for pl in pls:
                    for pr in pl["p"]:
                        if isinstance(pr, dict) and "f" in pr and (pr.get("adt") or "").split("<")[0].endswith("::" + ty) and pr.get("n") in fields:
                            n_w += 1
                            owner = bb.root if bb.is_closure else bb.path
                            ctx.check(("::" + ty + "::") in owner.replace("<'a>", "").replace("::::", "::") or (ty + "::<'a>::") in owner, inst, "FIELDW", owner,
                                      "fields of %s are written (or mutably borrowed) only by its own methods" % ty, bb.where(n.id))
        ctx.check(n_w >= 2, inst, "anchor", "-", "writes to %s fields found (>= 2, found %d)" % (ty, n_w), None)
    floor = residual.get("discharged_floor", 0)
    ctx.check(n_ok >= floor, inst, "anchor", "-", "discharged panic sites in the parser scope (>= %d, found %d)" % (floor, n_ok), None)
    stale = [k for k in allowed if used.get(k, 0) < allowed[k]]
    # assumed contract call sites outside the scope
    outside = []
    for pat in CONTRACTS:
        for (bb, n) in prog.call_sites(pat):
            if not bb.is_test and not in_scope(bb):
                outside.append("%s <- %s" % (pat, bb.path.rsplit("::", 1)[-1]))
    ctx.note("bounds engine: %d obligations in %d scope patterns, %d discharged, %d residual (listed, not decided); by kind %s; "
             "contracts assumed at out-of-scope call sites: %s; residual entries no longer needed: %s"
             % (len(res), len(SCOPE), n_ok, len(res) - n_ok, json.dumps(by_kind), sorted(set(outside))[:20], stale[:10]))
    return res
