"""C17 — opening arbitrary or damaged files fails cleanly.
Decided: clause (a) — nothing is written before the file is recognised and its size
validated, and a rejected open contains no write at all; clause (b) for the functions
that parse device bytes (C17.bounds, rules/c17_bounds.py + feoxlint/bounds.py) up to
the residual sites listed in spec/c17_residual.json; clause (c) for the recovery scan loop and the
zero-scan loop (the position strictly advances on every way back to the loop head)."""
from feoxlint import analysis as A
from feoxlint import rulekit as R
from feoxlint import vocab as V
from feoxlint.model import path_matches, call_matches
from rules.common import edge_targets, origin_names, names_of, err_edge_unreachable, drop_impl

EXPLANATION = """
Clause (a) as path facts over the open path (with_config_and_open_mode, open_device, open_fresh_device,
initialize_fresh_device, load_indexes, scan_and_rebuild_indexes): every call that can reach a device write is guarded —
the file is resized only after validate_device_size(target) succeeded and only for a file whose length is 0; the metadata
signature is (re)written only when fresh_device is true, and fresh_device becomes true only from `device_size == 0` or
from file_is_all_zero(..) = true; the recovery scan (the only other writer) runs only after the signature compared equal
and Metadata::from_bytes returned Some; inside the scan the two writers are dominated by a successful
read_allocation_journal; workers start only after load_indexes returned Ok; no OpenOptions chain on the device truncates;
the rejecting exits (size, signature, metadata) are never reachable after a write-reaching call. file_is_all_zero answers
true only from the exhausted read loop or from the ENXIO arm of the SEEK_DATA probe, and false as soon as a non-zero byte
is seen. Metadata::from_bytes returns Some only when validate() holds; a journal slot is accepted only when its checksum
and complement match. NOT decided: panic freedom (129 index/slice and 182 unchecked arithmetic sites on attacker-controlled
lengths need relational reasoning) and termination of the scan.
"""
DECIDED = ['the size gate accepts exactly (reserved, MAX_DEVICE_SIZE] in whole FEOX_BLOCK_SIZE blocks, on all three open paths', "(a) no device write before the file is recognised / size-validated; rejected opens write nothing",
           "metadata / journal slots accepted only after checksum validation",
           "(b, partial) panic sites (bounds, slice ranges, overflow, unwrap of slice conversions, copy lengths, allocation sizes) in the device-byte parsers discharged",
           "every extent recovery queues for retirement lies inside the device",
           "(c, partial) the recovery scan's sector and the zero-scan's remaining byte count strictly advance on every back edge",
           'a store whose open failed never writes from drop / flush_all (every device write behind `initialized`)',
           '(b) panic-freedom of the device-byte parsers: bounds / overflow / slice / unwrap / allocation-size obligations discharged by a Fourier-Motzkin prover, 10 residual sites listed with reasons',
           '(c) scan loops advance']
NOT_DECIDED = ["(b) at the 10 residual sites of spec/c17_residual.json (visitor-callback arithmetic, sizes / location of indexed records) and outside the parser scope",
               "(c) termination of callees outside the parser scope"]
TECHNIQUE = ("static analysis: MIR dominance / guard / who-may-call rules via a custom rustc_private driver, plus a flow-sensitive value "
             "reconstruction with linear-integer discharge (interval propagation + Fourier-Motzkin) of every bounds / overflow / "
             "length obligation in the device-byte parsers")
ASSUMPTIONS = ["FreeSpaceManager::initialize / set_device_size are in-memory only (no device primitive reachable: checked)",
               "DiskIO::read_sectors_sync returns exactly count * FEOX_BLOCK_SIZE bytes on Ok (C17.bounds postcondition, taken on trust)",
               "entry contracts of parser helpers hold at call sites outside the C17.bounds scope (write path passes API-validated sizes, C10.bounds)"]

OPEN_BODIES = ["FeoxStore::with_config_and_open_mode", "FeoxStore::open_device", "FeoxStore::open_device_read_only",
               "FeoxStore::open_fresh_device", "FeoxStore::initialize_fresh_device", "FeoxStore::attach_device_file",
               "FeoxStore::load_indexes", "FeoxStore::scan_and_rebuild_indexes", "FeoxStore::remove_expired_recovery_winners"]


def check_drop_nowrite(ctx):
    """a rejected file stays byte-identical also when the half-built store is dropped: `initialized` is set only at the end of a
    successful open, and it is the one thing that keeps FeoxStore::drop (and flush_all) of a store whose open failed after the
    device was attached from writing a fresh metadata block into the file it has just refused. Every device-write-reaching call
    of the destructor other than the worker shutdown (workers exist only after a successful load_indexes: C17.nowrite) is reached
    only through `initialized == true` - directly, or inside the FeoxStore helper it calls."""
    inst = "C17.nowrite/drop"
    def init_true(b):
        return A.pred_edges(b, lambda e: e.k == "field" and e.extra[1] == "initialized" and (e.extra[0] or "").endswith("FeoxStore"), "true")
    def unguarded(b, depth=0):
        """write-reaching sites of b not behind initialized == true (looking one helper level down)"""
        out = []
        edges = init_true(b)
        for n in V.W_REACHING(b):
            ev = b.nodes[n].ev
            if any(call_matches(ev, w) for w in ("WriteBuffer::initiate_shutdown", "WriteBuffer::finish_shutdown", "WriteBuffer::complete_shutdown", "TtlSweeper::stop")):
                continue
            if edges:
                r, ps = A.reach(b, [b.entry], blocked_edges=frozenset(edges))
                if n not in r:
                    continue        # reachable only through an initialized == true edge
            ts = [t for t in ctx.prog.targets(ev) if t and t in ctx.prog.bodies and "FeoxStore" in t]
            if ts and depth < 2 and all(not unguarded(ctx.prog.bodies[t], depth + 1) for t in ts):
                continue            # the helper guards its own writes
            out.append(n)
        return out
    for nm, b in (("drop", drop_impl(ctx, inst, "FeoxStore")), ("flush_all", ctx.fn("FeoxStore::flush_all", inst))):
        if b is None:
            continue
        ws = V.W_REACHING(b)
        ctx.check(len(ws) >= 1, inst, "anchor", b.path, "device-write-reaching calls in %s (>= 1, found %d)" % (nm, len(ws)), None)
        bad = unguarded(b)
        for n in bad:
            ctx.fail(inst, "GUARD", b.path, "a store that never finished opening (initialized == false) writes to the device it rejected", b.where(n))
        if not bad:
            ctx.ok(inst, "GUARD", b.path, "every device write of %s is behind `initialized`" % nm, b.where(ws[0]) if ws else None)
    # who sets the flag: the constructor literal (memory-only stores) and the end of a successful open
    R.fieldw_within(ctx, inst + "/flag", "FeoxStore", "initialized", ["FeoxStore::with_config_and_open_mode", "FeoxStore::new_store", "init::"], floor=1)


def check_nowrite(ctx):
    inst = "C17.nowrite"
    bodies = {}
    for nm in OPEN_BODIES:
        b = ctx.fn(nm, inst)
        if b is not None:
            bodies[nm] = b
    paths = {b.path for b in bodies.values()}
    # the table of write-reaching call sites: each has its own guard below; anything else is reported
    handled = set()

    def w_sites(b):
        return [(fam, n) for fam in ctx.prog.family(b) for n in V.W_REACHING(fam)]

    b = bodies.get("FeoxStore::with_config_and_open_mode")
    if b is not None:
        li = ctx.sites(b, R.call("FeoxStore::load_indexes"), inst, exact=1)
        for fam, n in w_sites(b):
            ev = fam.nodes[n].ev
            if any(t in paths for t in ctx.prog.targets(ev) if t):
                handled.add((fam.path, n))
                continue
            if call_matches(ev, "WriteBuffer::start_workers") or call_matches(ev, "WriteBuffer::new"):
                handled.add((fam.path, n))
                R.dom(ctx, inst, b, li, [n], "flush workers start only after recovery (load_indexes) ran", a_desc="load_indexes")
                R.guard(ctx, inst, b, [n], R.guard_edges_for_call(b, li, "Ok"), "and only on its Ok edge")
    b = bodies.get("FeoxStore::open_device")
    if b is not None:
        ifd = ctx.sites(b, R.call("FeoxStore::initialize_fresh_device"), inst, exact=1)
        vd = ctx.sites(b, R.call("persistence::validate_device_size"), inst, exact=1)
        az = ctx.sites(b, R.call("persistence::file_is_all_zero"), inst, exact=1)
        at = ctx.sites(b, R.call("FeoxStore::attach_device_file"), inst, exact=1)
        fresh_true = A.pred_edges(b, lambda e: e.k == "field" and e.extra[1] == "fresh_device", "true")
        fresh_false = A.pred_edges(b, lambda e: e.k == "field" and e.extra[1] == "fresh_device", "false")
        R.guard(ctx, inst, b, ifd, fresh_true, "the file is initialised (resized) only when it was empty")
        for fam, n in w_sites(b):
            if n in ifd and fam is b:
                handled.add((fam.path, n))
        # fresh_device assignments: `device_size == 0` and `true` under file_is_all_zero = true
        ws = [n for n in b.nodes if n.kind == "assign" and n.ev["dst"]["p"] and isinstance(n.ev["dst"]["p"][-1], dict) and n.ev["dst"]["p"][-1].get("n") == "fresh_device"]
        ctx.check(len(ws) == 2, inst, "anchor", b.path, "fresh_device is assigned twice in open_device (found %d)" % len(ws), None)
        for w in ws:
            v = A.tracer(b).node_value(w.id)
            if v.k == "const":
                ctx.check((v.extra or {}).get("val") == 1, inst, "PIN", b.path, "the constant assignment is `true`", b.where(w.id))
                R.guard(ctx, inst, b, [w.id], R.guard_edges_for_call(b, az, "true"), "fresh_device = true only when the whole file is zero")
                R.guard(ctx, inst, b, [w.id], R.guard_edges_for_call(b, az, "Ok"), "and the zero scan itself succeeded")
            else:
                good = v.k == "bin" and v.extra == "Eq" and v.has_field("FeoxStore", "device_size") and v.has_const(val=0)
                ctx.check(good, inst, "PIN", b.path, "fresh_device = (device_size == 0)", b.where(w.id), {"expr": v.show()})
        # [device_size != 0] validate -> zero scan -> attach
        R.dom(ctx, inst, b, vd, az, "size is validated before the file content is inspected", a_desc="validate_device_size")
        R.guard(ctx, inst, b, az, R.guard_edges_for_call(b, vd, "Ok"), "zero scan only for a valid size")
        R.dom(ctx, inst, b, vd + ifd, at, "the device is attached only after size validation (or fresh initialisation)", a_desc="validate_device_size | initialize_fresh_device")
        err_edge_unreachable(ctx, inst, b, vd, at + ifd, "an invalid size never reaches attach / initialise", repass=False)
        # device_size comes from the file's metadata
        md = ctx.sites(b, R.call("File::metadata"), inst, exact=1)
        # no truncate(true), no set_len here
        for n in b.calls():
            if call_matches(n.ev, "OpenOptions::truncate"):
                a = n.ev["args"][1]
                ctx.check(a.get("k") == "const" and a.get("val") == 0, inst, "PIN", b.path, "the device is never opened with truncate(true)", b.where(n.id))
        ctx.check(not R.call("File::set_len", "File::create")(b), inst, "FORBID", b.path, "open_device itself never resizes / recreates the file", None)
    for b in ctx.prog.product_bodies():
        if b.file.startswith("src/core/store/") or b.file.startswith("src/storage/"):
            for n in b.calls():
                if call_matches(n.ev, "OpenOptions::truncate"):
                    a = n.ev["args"][1]
                    ctx.check(a.get("k") == "const" and a.get("val") == 0, inst, "PIN", b.path, "no OpenOptions chain truncates", b.where(n.id))
    b = bodies.get("FeoxStore::open_fresh_device")
    if b is not None:
        ifd = ctx.sites(b, R.call("FeoxStore::initialize_fresh_device"), inst, exact=1)
        def len_cmp(e):
            return e.k == "bin" and e.extra == "Eq" and e.has_call("Metadata::len") and e.has_const(val=0)
        R.guard(ctx, inst, b, ifd, A.pred_edges(b, len_cmp, "true"), "a migration destination is initialised only if the file is empty")
        for fam, n in w_sites(b):
            if n in ifd:
                handled.add((fam.path, n))
    b = bodies.get("FeoxStore::initialize_fresh_device")
    if b is not None:
        sl = ctx.sites(b, R.call("File::set_len"), inst, exact=1)
        vd = ctx.sites(b, R.call("persistence::validate_device_size"), inst, exact=1)
        R.guard(ctx, inst, b, sl, R.guard_edges_for_call(b, vd, "Ok"), "the file is resized only to a validated size")
        for s in sl:
            a = R.arg_expr(b, b.nodes[s], 1)
            v = R.arg_expr(b, b.nodes[vd[0]], 0) if vd else None
            ctx.check(v is not None and a.key() == v.key(), inst, "PROVENANCE", b.path, "the size set is the size that was validated", b.where(s))
        for fam, n in w_sites(b):
            if n in sl:
                handled.add((fam.path, n))
        R.callers_within(ctx, inst, "FeoxStore::initialize_fresh_device", ["FeoxStore::open_device", "FeoxStore::open_fresh_device"], floor=2)
    b = bodies.get("FeoxStore::load_indexes")
    if b is not None:
        ism = ctx.sites(b, R.call("DiskIO::initialize_store_metadata"), inst, exact=1)
        sc = ctx.sites(b, R.call("FeoxStore::scan_and_rebuild_indexes"), inst, exact=1)
        fresh_true = A.pred_edges(b, lambda e: e.k == "field" and e.extra[1] == "fresh_device", "true")
        R.guard(ctx, inst, b, ism, fresh_true, "the signature is written only on a fresh (empty / all-zero) device")
        rm = ctx.sites(b, R.call("DiskIO::read_metadata"), inst, exact=1)
        fb = ctx.sites(b, R.call("Metadata::from_bytes"), inst, exact=1)
        R.dom(ctx, inst, b, rm, sc, "metadata is read before the scan", a_desc="read_metadata")
        R.guard(ctx, inst, b, sc, R.guard_edges_for_call(b, fb, "Some"), "the scan (the only writer besides the signature) runs only for decodable, validated metadata")
        # signature comparison
        def sig(e):
            return e.k == "call" and (path_matches(e.extra, "PartialEq::ne") or path_matches(e.extra, "PartialEq::eq")) and e.has_const(name="FEOX_SIGNATURE")
        sw = A.pred_switches(b, sig)
        ctx.check(len(sw) == 1, inst, "PIN", b.path, "the on-disk signature is compared with FEOX_SIGNATURE", None)
        edges = []
        for s in sw:
            info = A.switch_info(b, s)
            want = "false" if path_matches(info.root.extra, "PartialEq::ne") else "true"
            edges += [(s, l) for l, v in info.edge_vals.items() if v == want]
            a0 = info.root.a[0] if info.root.a else None
            ctx.check(a0 is not None and any(c.nid in rm for c in a0.calls()), inst, "PROVENANCE", b.path, "what is compared is the metadata block that was read", b.where(s))
        R.guard(ctx, inst, b, sc + fb, edges, "nothing is decoded or scanned for a foreign signature")
        # rejecting exits are not reachable after a write-reaching call
        errs = A.error_nodes(b)
        for fam, n in w_sites(b):
            handled.add((fam.path, n))
            if fam is not b:
                continue
            r, ps = A.reach(b, A.succs(b, n))
            bad = [e for e in errs if e in r and not _from_call(b, e, [n])]
            ctx.check(not bad, inst, "NEVER-AFTER", b.path, "no rejection (InvalidMetadata ...) is returned after a write-reaching call", b.where(n))
        # the version used for the scan is the decoded one
        fv = [n for n in b.nodes if n.kind == "assign" and n.ev["dst"]["p"] and isinstance(n.ev["dst"]["p"][-1], dict) and n.ev["dst"]["p"][-1].get("n") == "format_version"]
        for w in fv:
            v = A.tracer(b).node_value(w.id)
            ctx.check(v.has_field("Metadata", "version") and any(c.nid in fb for c in v.calls()), inst, "PROVENANCE", b.path, "format_version is the validated metadata's version", b.where(w.id))
    b = bodies.get("FeoxStore::scan_and_rebuild_indexes")
    if b is not None:
        rd = ctx.sites(b, R.call("DiskIO::read_allocation_journal"), inst, exact=1)
        for fam, n in w_sites(b):
            handled.add((fam.path, n))
            if fam is b:
                R.dom(ctx, inst, b, rd, [n], "recovery writes only after the journal region decoded", a_desc="read_allocation_journal")
                R.guard(ctx, inst, b, [n], R.guard_edges_for_call(b, rd, "Ok"), "and only on its Ok edge")
    # every write-reaching call site on the open path was covered by a row above
    for nm, b in bodies.items():
        for fam, n in w_sites(b):
            ok = (fam.path, n) in handled or any(t in paths for t in ctx.prog.targets(fam.nodes[n].ev) if t)
            ctx.check(ok, inst, "CALLERS", b.path, "write-reaching call on the open path is covered by a reviewed guard (%s)" % R.callee_name(fam.nodes[n].ev).rsplit("::", 1)[-1], fam.where(n))
    # helpers that must stay in-memory
    for nm in ("FreeSpaceManager::initialize", "FreeSpaceManager::set_device_size", "FeoxStore::attach_device_file", "DiskIO::new",
               "DiskIO::read_metadata", "DiskIO::read_allocation_journal", "persistence::file_is_all_zero", "persistence::validate_device_size",
               "Metadata::from_bytes"):
        b = ctx.fn(nm, inst)
        if b is not None:
            ctx.check(not ctx.prog.reaches(b.path, V.is_p_write), inst, "FORBID", b.path, "%s reaches no device write" % nm.split("::")[-1], None)


def _from_call(body, err_nid, nodes):
    return any(nid in nodes for (nid, _) in A.error_sources(body, err_nid))


def check_zero(ctx):
    inst = "C17.zero"
    b = ctx.fn("persistence::file_is_all_zero", inst)
    if b is not None:
        rets = [n.id for n in b.nodes if n.kind == "assign" and not n.ev["dst"]["p"] and n.ev["dst"]["l"] == 0 and n.ev["rv"] == "agg" and n.ev.get("var") == "Ok"]
        trues = [r for r in rets if b.nodes[r].ev["ops"][0].get("val") == 1]
        falses = [r for r in rets if b.nodes[r].ev["ops"][0].get("val") == 0]
        ctx.check(len(trues) == 2 and len(falses) == 1, inst, "anchor", b.path, "Ok(true) x2 (sparse probe, exhausted loop) and Ok(false) x1 (found %d / %d)" % (len(trues), len(falses)), None)
        anyc = ctx.sites(b, R.call("Iterator::any"), inst, exact=1)
        R.guard(ctx, inst, b, falses, R.guard_edges_for_call(b, anyc, "true"), "Ok(false) exactly when a non-zero byte was seen")
        for (sw, l) in R.guard_edges_for_call(b, anyc, "true"):
            r, ps = A.reach(b, edge_targets(b, sw, l))
            ctx.check(not any(t in r for t in trues), inst, "GUARD", b.path, "a non-zero byte can never lead to Ok(true)", b.where(sw))
        cl = [c for c in ctx.prog.closures_of(b)]
        nz = False
        for c in cl:
            from rules.common import closure_ret_cmp
            cmp = closure_ret_cmp(c)
            if cmp and cmp["op"] in ("Ne",) and (cmp["rhs_e"].has_const(val=0) or cmp["lhs_e"].has_const(val=0)):
                nz = True
        ctx.check(nz, inst, "PIN", b.path, "the byte predicate is `byte != 0`", None)
        sp = ctx.sites(b, R.call("persistence::sparse_file_has_no_data"), inst, exact=1)
        rd = ctx.sites(b, R.call("Read::read_exact"), inst, exact=1)
        # loop-exhausted Ok(true): only reachable with remaining == 0
        def rem(e):
            return e.k == "bin" and e.extra == "Lt" and e.a[0].k == "const" and (e.a[0].extra or {}).get("val") == 0 and "remaining" in names_of(b, e.a[1])
        done = A.pred_edges(b, rem, "false")
        spt = R.guard_edges_for_call(b, sp, "true")
        R.guard(ctx, inst, b, trues, list(done) + list(spt), "Ok(true) only from the exhausted loop (remaining == 0) or the sparse probe")
        # the read error propagates
        ctx.check(len(A.pred_switches(b, rem)) == 1, inst, "PIN", b.path, "the loop runs while remaining > 0", None)
        # the whole file is covered: remaining starts at `size` and decreases by what was read
        for n in b.calls():
            if call_matches(n.ev, "Iterator::any"):
                e = R.recv_expr(b, n)
                ctx.check("buffer" in names_of(b, e) | origin_names(b, e), inst, "PROVENANCE", b.path, "the bytes tested are the bytes just read", b.where(n.id))
    b = ctx.fn("persistence::sparse_file_has_no_data", inst)
    if b is not None:
        ls = ctx.sites(b, R.call("libc::lseek"), inst, exact=1)
        rets = [n.id for n in b.nodes if n.kind == "assign" and not n.ev["dst"]["p"] and n.ev["dst"]["l"] == 0 and n.ev["rv"] == "agg" and n.ev.get("var") == "Ok"]
        trues = [r for r in rets if b.nodes[r].ev["ops"][0].get("val") == 1]
        ctx.check(len(trues) == 1, inst, "anchor", b.path, "one Ok(true)", None)
        def ge0(e):
            return e.k == "bin" and e.extra == "Lt" and any(c.nid in ls for c in e.a[0].calls()) and e.a[1].k == "const" and (e.a[1].extra or {}).get("val") == 0
        neg = A.pred_edges(b, ge0, "true")
        ctx.check(len(A.pred_switches(b, ge0)) == 1, inst, "PIN", b.path, "`offset >= 0` (data found) is tested", None)
        R.guard(ctx, inst, b, trues, neg, "no-data is reported only when SEEK_DATA failed")
        enx = A.pred_edges(b, lambda e: e.has_call("io::Error::raw_os_error") or e.has_call("Error::raw_os_error"), 6)
        # Option<i32> match on Some(ENXIO): look for the constant 6 (libc::ENXIO) in a switch on the errno payload
        found = False
        for s in A.switches(b):
            info = A.switch_info(b, s)
            if info.root.has_call("Error::raw_os_error") or info.root.has_call("io::Error::raw_os_error"):
                for (succ, label) in b.nodes[s].succ:
                    if label == 6:
                        found = True
                        r, ps = A.reach(b, [succ])
                        ctx.check(any(t in r for t in trues), inst, "PIN", b.path, "ENXIO (6) is the arm that reports no data", b.where(s))
                        # and no other arm of that switch reaches Ok(true)
                        for (s2, l2) in b.nodes[s].succ:
                            if l2 != 6:
                                r2, _ = A.reach(b, [s2])
                                ctx.check(not any(t in r2 for t in trues), inst, "GUARD", b.path, "other errno values never report no-data", b.where(s))
        ctx.check(found, inst, "PIN", b.path, "the errno is matched against ENXIO", None)
        for l in ls:
            a = b.nodes[l].ev["args"]
            w = A.tracer(b).operand(a[2]) if len(a) > 2 else None
            ctx.check(w is not None and (w.has_const(name="SEEK_DATA") or (w.extra or {}).get("val") == 3), inst, "PIN", b.path, "the probe is lseek(fd, 0, SEEK_DATA)", b.where(l))


def check_validate(ctx):
    inst = "C17.validate"
    b = ctx.fn("Metadata::from_bytes", inst)
    if b is not None:
        somes = [n.id for n in b.nodes if n.kind == "assign" and not n.ev["dst"]["p"] and n.ev["dst"]["l"] == 0 and n.ev["rv"] == "agg" and n.ev.get("var") == "Some"]
        va = ctx.sites(b, R.call("Metadata::validate"), inst, exact=1)
        # `validate().then_some(metadata)` is the same guard without a branch: the metadata becomes the answer through a
        # bool::then_some / then whose receiver is the verdict itself
        ts = [n for n in b.calls() if (call_matches(n.ev, "bool::then_some") or call_matches(n.ev, "bool::then")) and
              R.arg_expr(b, n, 0).k == "call" and R.arg_expr(b, n, 0).nid in va and
              (not n.ev["dest"]["p"] and (n.ev["dest"]["l"] == 0 or any(c.nid == n.id for d in b.defs.get(0, []) for c in A.tracer(b).node_value(d).calls())))]
        if ts and not somes:
            ctx.ok(inst, "GUARD", b.path, "Some(metadata) only when validate() holds", b.where(ts[0].id))
        else:
            R.guard(ctx, inst, b, somes, R.guard_edges_for_call(b, va, "true"), "Some(metadata) only when validate() holds")
        ln = A.pred_switches(b, lambda e: e.k == "bin" and e.extra == "Lt" and e.has_const(name="METADATA_ENCODED_SIZE"))
        ctx.check(len(ln) == 1, inst, "PIN", b.path, "short input is rejected before slicing", None)
    b = ctx.fn("Metadata::validate", inst)
    if b is not None:
        trues = [n.id for n in b.nodes if n.kind == "assign" and not n.ev["dst"]["p"] and n.ev["dst"]["l"] == 0 and n.ev["rv"] == "use" and n.ev["a"].get("val") == 1]
        ck = ctx.sites(b, R.call("Metadata::checksum"), inst, exact=1)
        # version >= 3 without checksum magic is rejected
        def v3(e):
            return e.k == "bin" and e.extra == "Lt" and e.a[0].has_field("Metadata", "version") and e.a[1].k == "const" and (e.a[1].extra or {}).get("val") == 3
        # ... as a branch (`if version >= 3 && !has_checksum { return false }`) or as the verdict itself (`return self.version < 3`
        # on the no-checksum path)
        tr0 = A.tracer(b, False)
        as_value = [d for d in b.defs.get(0, []) if v3(tr0.node_value(d))]
        ctx.check(len(A.pred_switches(b, v3)) + len(as_value) == 1, inst, "PIN", b.path, "version >= 3 requires the checksum trailer", None)
        # the final verdict compares complement and checksum
        fin = [n for n in b.nodes if n.kind == "assign" and not n.ev["dst"]["p"] and n.ev["dst"]["l"] == 0 and n.id not in trues]
        sig = A.pred_switches(b, lambda e: e.has_const(name="FEOX_SIGNATURE"))
        ctx.check(len(sig) >= 1, inst, "PIN", b.path, "the signature is checked", None)
        eqs = [n for n in b.nodes if n.kind == "assign" and n.ev.get("rv") == "bin" and n.ev["op"] == "Eq" and any(c.nid in ck for c in A.tracer(b).node_value(n.id).calls())]
        ctx.check(len(eqs) == 1, inst, "PIN", b.path, "the stored checksum is compared with the computed one", None)
        nots = [n for n in b.nodes if n.kind == "assign" and n.ev.get("rv") == "bin" and n.ev["op"] == "Eq" and any(x.k == "un" and x.extra == "Not" for x in A.tracer(b).node_value(n.id).walk())]
        ctx.check(len(nots) == 1, inst, "PIN", b.path, "and the complement with !checksum", None)
        for t in trues:
            # `true` without a checksum only for versions < 3 (legacy files)
            R.guard(ctx, inst, b, [t], A.pred_edges(b, v3, "true"), "an un-checksummed image is accepted only for legacy versions")
    b = ctx.fn("allocation_journal::decode_slot", inst)
    if b is not None:
        oks = A.ok_nodes(b)
        jc = ctx.sites(b, R.call("allocation_journal::journal_checksum"), inst, exact=1)
        def ck(e):
            return e.k == "bin" and e.extra == "Eq" and any(c.nid in jc for c in e.calls())
        def comp(e):
            return e.k == "bin" and e.extra == "Eq" and any(x.k == "un" and x.extra == "Not" for x in e.walk())
        R.guard(ctx, inst, b, oks, A.pred_edges(b, ck, "true"), "a slot is accepted only if its checksum matches")
        R.guard(ctx, inst, b, oks, A.pred_edges(b, comp, "true"), "and its complement matches")
        mg = A.pred_switches(b, lambda e: e.has_const(name="JOURNAL_MAGIC"))
        ctx.check(len(mg) == 1, inst, "PIN", b.path, "the magic is checked", None)
        # extents are bounds-checked against total_sectors before being accepted
        flt = ctx.sites(b, R.call("Option::filter"), inst, exact=1)
        R.dom(ctx, inst, b, flt, R.call("Vec::push")(b), "every extent is bounds-checked before it is collected", a_desc="checked_add(..).filter(end <= total_sectors)")
    b = ctx.fn("allocation_journal::decode", inst)
    if b is not None:
        ds = ctx.sites(b, R.call("allocation_journal::decode_slot"), inst, exact=1)
        push = R.call("Vec::push").filter(lambda bb, n: "valid" in names_of(bb, R.recv_expr(bb, n)), "onto valid")(b)
        R.guard(ctx, inst, b, push, R.guard_edges_for_call(b, ds, "Ok"), "an undecodable slot is ignored (never selected)")
        mk = ctx.sites(b, R.call("Iterator::max_by_key"), inst, exact=1)
        ln = A.pred_switches(b, lambda e: e.k == "bin" and e.extra == "Eq" and e.has_call("slice::len") or (e.k == "bin" and e.extra == "Eq" and e.has_const(name="ALLOCATION_JOURNAL_BLOCKS")))
        ctx.check(len(ln) >= 1, inst, "PIN", b.path, "the journal region length is checked before slicing", None)


def check_panics(ctx):
    """evidence only: explicit panic sources reachable from load_indexes (not a verdict)"""
    inst = "C17.panic-inventory"
    b = ctx.fn("FeoxStore::load_indexes", inst)
    if b is None:
        return
    seen = set()
    stack = [b.path]
    found = []
    while stack:
        p = stack.pop()
        if p in seen or p not in ctx.prog.bodies:
            continue
        seen.add(p)
        bb = ctx.prog.bodies[p]
        for n in bb.calls():
            nm = R.callee_name(n.ev)
            if any(path_matches(nm, x) for x in ("Option::unwrap", "Option::expect", "Result::unwrap", "Result::expect", "panicking::panic", "panicking::panic_fmt", "panicking::assert_failed")):
                found.append("%s %s in %s" % (bb.where(n.id), nm.rsplit("::", 2)[-2] + "::" + nm.rsplit("::", 1)[-1], p.rsplit("::", 1)[-1]))
        for o in ctx.prog.edges_out(bb):
            stack.append(o)
    ctx.note("explicit panic sources reachable from load_indexes (evidence only, %d bodies): %s" % (len(seen), "; ".join(sorted(set(found))[:25])))


def check_bounds(ctx):
    from rules import c17_bounds
    c17_bounds.check(ctx, "C17.bounds")


def check_size(ctx):
    """the one size gate of all open paths accepts exactly the lengths the layout can describe: larger than the reserved
    metadata / journal area (FEOX_DATA_START_BLOCK blocks), at most MAX_DEVICE_SIZE, a whole number of FEOX_BLOCK_SIZE blocks.
    Every later stage floors `size / FEOX_BLOCK_SIZE`; a length accepted in another unit (512-byte sectors) makes a foreign or torn
    file look like a device: an all-zero one gets a signature written into it, a torn image has its metadata rewritten."""
    inst = "C17.size"
    b = ctx.fn("persistence::validate_device_size", inst)
    if b is None:
        return
    from rules.common import pin_comparisons

    def size(e):
        return e.k == "arg" and e.extra[0] == 1

    def reserved(e):
        return e.has_const(name="FEOX_DATA_START_BLOCK") and e.has_const(name="FEOX_BLOCK_SIZE") and \
            sum(1 for x in e.walk() if x.k == "bin") == 1 and any(x.k == "bin" and x.extra.startswith("Mul") for x in e.walk())

    def maxdev(e):
        return e.k == "const" and e.has_const(name="MAX_DEVICE_SIZE")
    pin_comparisons(ctx, inst, b, [
        ("Lt", reserved, size, "a device is larger than the reserved area: reject `size <= FEOX_DATA_START_BLOCK * FEOX_BLOCK_SIZE`"),
        ("Lt", maxdev, size, "a device is at most MAX_DEVICE_SIZE: reject `size > MAX_DEVICE_SIZE`"),
    ])
    oks = A.ok_nodes(b)
    ctx.check(len(oks) >= 1, inst, "anchor", b.path, "Ok return present", None)

    def unit(e):
        while e.k == "cast":
            e = e.a[0]
        return e.k == "const" and e.has_const(name="FEOX_BLOCK_SIZE")
    # alignment: `size.is_multiple_of(BLOCK)` or `size % BLOCK == 0`
    mo = [n.id for n in b.calls() if call_matches(n.ev, "is_multiple_of")]
    aligned = []
    for m in mo:
        a0, a1 = R.arg_expr(b, b.nodes[m], 0), R.arg_expr(b, b.nodes[m], 1)
        ctx.check(size(a0) and unit(a1), inst, "PIN", b.path,
                  "a device is a whole number of FEOX_BLOCK_SIZE blocks (the unit every later stage divides by)", b.where(m), {"unit": a1.show()[:60]})
        aligned += R.guard_edges_for_call(b, [m], "true")

    def rem_zero(e):
        if not (e.k == "bin" and e.extra == "Eq"):
            return False
        for x, y in ((e.a[0], e.a[1]), (e.a[1], e.a[0])):
            if x.k == "bin" and x.extra == "Rem" and y.k == "const" and (y.extra or {}).get("val") == 0:
                return True
        return False
    for s_ in A.pred_switches(b, rem_zero):
        r_ = A.switch_info(b, s_).root
        x = r_.a[0] if r_.a[0].k == "bin" else r_.a[1]
        ctx.check(size(x.a[0]) and unit(x.a[1]), inst, "PIN", b.path,
                  "a device is a whole number of FEOX_BLOCK_SIZE blocks (the unit every later stage divides by)", b.where(s_), {"unit": x.a[1].show()[:60]})
        aligned += [(s_, l) for l, v in A.switch_info(b, s_).edge_vals.items() if v == "true"]
    ctx.check(bool(aligned), inst, "anchor", b.path, "the size is tested for block alignment (is_multiple_of or % == 0)", None)
    if aligned:
        R.guard(ctx, inst, b, oks, aligned, "Ok only for a block-aligned size")
    e1 = A.pred_edges(b, lambda e: e.k == "bin" and e.extra == "Lt" and reserved(e.a[0]) and size(e.a[1]), "true")
    e2 = A.pred_edges(b, lambda e: e.k == "bin" and e.extra == "Lt" and maxdev(e.a[0]) and size(e.a[1]), "false")
    if e1:
        R.guard(ctx, inst, b, oks, e1, "Ok only for a size beyond the reserved area")
    if e2:
        R.guard(ctx, inst, b, oks, e2, "Ok only for a size within MAX_DEVICE_SIZE")
    # every open path goes through this gate
    sites = ctx.prog.call_sites("persistence::validate_device_size")
    owners = {R.owner_fn(ctx.prog, cb).rsplit("::", 1)[-1] for cb, cn in sites}
    ctx.check({"open_device", "open_device_read_only", "initialize_fresh_device"} <= owners, inst, "CALLERS", "-",
              "the three open paths validate the size (found %s)" % sorted(owners), None)


def check(ctx):
    check_size(ctx)
    check_nowrite(ctx)
    check_drop_nowrite(ctx)
    check_zero(ctx)
    check_validate(ctx)
    check_panics(ctx)
    check_bounds(ctx)
