"""C07 — concurrent operations on a key are atomic and timestamp-ordered.
Decided: the re-validation structure every optimistic operation needs."""
from feoxlint import analysis as A
from feoxlint import rulekit as R
from feoxlint import vocab as V
from feoxlint.model import path_matches
from rules import storevocab as S
from rules.common import edge_targets, origin_names, names_of

EXPLANATION = """
Re-validation structure of the optimistic operations: compare-and-swap / JSON-patch / increment replace, and the three
expiry paths remove, only on the true edge of a pointer-identity test between the record under the bucket entry guard and
the record the value was resolved from (the `source` returned by resolve_value, not the first optimistic read); plain
upserts that find a different generation under the guard must pass the retirement_timestamp() comparison before
replacing, and the vanished-key arms compare against retirement_timestamp() before answering KeyNotFound / retrying;
retired_at, refcount = 0 and link_successor are written only with the bucket guard held, and retired_at only by the three
removal paths. Not decided: linearizability of histories.
"""
DECIDED = ['an upsert whose target vanished under it (replace step answered KeyNotFound) re-reads the table before answering, in both upsert loops, for explicit and automatic timestamps alike', 'a creator that lost the race for the bucket is judged again against the winner before it answers', 'expiry inside increment / CAS is judged against the wall clock every reader uses (shared with C11.pred)', "pointer-identity re-validation before replace/remove", "retirement_timestamp comparison for raced writers",
           "retirement stamps / successor links only under the bucket guard",
           'a lost compare-exchange of the version clock is retried and its result examined',
           'retirement_timestamp walks the whole successor chain']
NOT_DECIDED = ["linearizability of concurrent histories", "no lost increment / exactly one CAS winner (schedule-level)"]
ASSUMPTIONS = ["the scc entry guard serialises all mutations of one key (by its types)"]


def check_identity(ctx, inst="C07.identity", kinds=("repl", "rem")):
    for fn, kind in (("FeoxStore::replace_record_if_current", "repl"), ("FeoxStore::atomic_increment_with_timestamp_and_ttl", "repl"),
                     ("FeoxStore::retire_expired_if_current", "rem"), ("ttl_sweep::sample_and_expire_batch", "rem"),
                     ("FeoxStore::remove_expired_recovery_winners", "rem")):
        if kind not in kinds:
            continue
        body = ctx.fn(fn, inst)
        if body is None:
            continue
        sites = V.PUB_REPL_INSERT(body) if kind == "repl" else V.REM(body)
        if len(sites) != 1:
            ctx.anchor_missing(inst, "%s: one %s site expected, found %d" % (fn, kind, len(sites)), body.path)
            continue
        edges, sws = S.ptr_eq_edges(body, "true")
        ctx.check(len(sws) >= 1, inst, "anchor", body.path, "pointer-identity test present", None)
        R.guard(ctx, inst, body, sites, edges, "replace/remove only if the record under the guard is the one that was observed")
        for s in sws:
            S.check_held(ctx, inst, body, s, "L_hb", "identity is compared under the bucket guard")
            root = A.switch_info(body, s).root
            a0, a1 = (root.a + (None, None))[:2]
            under = a0 is not None and (a0.has_call("HashMap::entry") or any(x.k == "local" and "scc::hash_map::OccupiedEntry" in body.local_ty(x.extra) for x in a0.walk()))
            ctx.check(under, inst, "PROVENANCE", body.path, "first operand of the identity test is the entry guard's current record", body.where(s), {"expr": a0.show() if a0 else None})
    if "repl" not in kinds:
        return
    # the observed operand is the record the value was resolved from
    body = ctx.fn("FeoxStore::atomic_increment_with_timestamp_and_ttl", inst)
    if body is not None:
        _, sws = S.ptr_eq_edges(body, "true")
        for s in sws:
            a1 = A.switch_info(body, s).root.a[1]
            o = A.origins(body, a1)
            rv = R.call("FeoxStore::resolve_value")(body)
            ctx.check(any(("call", r) in o for r in rv), inst, "PROVENANCE", body.path, "increment re-validates against the `source` resolve_value returned", body.where(s), {"expr": a1.show()})
    for caller in ("FeoxStore::compare_and_swap_with_timestamp_and_ttl", "FeoxStore::json_patch_with_timestamp"):
        body = ctx.fn(caller, inst)
        if body is None:
            continue
        rs = ctx.sites(body, R.call("FeoxStore::replace_record_if_current"), inst, exact=1)
        rv = ctx.sites(body, R.call("FeoxStore::resolve_value"), inst, exact=1)
        for r in rs:
            o = A.origins(body, R.arg_expr(body, body.nodes[r], 2))
            ctx.check(any(("call", x) in o for x in rv), inst, "PROVENANCE", body.path,
                      "the expected generation passed to replace_record_if_current is the one the value was read from", body.where(r))
    # plain upserts: different generation under the guard => retirement_timestamp comparison
    for fn in ("FeoxStore::update_record_with_ttl", "FeoxStore::update_record_with_ttl_bytes"):
        body = ctx.fn(fn, inst)
        if body is None:
            continue
        pub = ctx.sites(body, V.PUB_REPL_INSERT, inst, exact=1)
        same, sws = S.ptr_eq_edges(body, "true")
        ctx.check(len(sws) == 1, inst, "anchor", body.path, "ptr::eq(old_record, current) test present", None)
        rts = ctx.sites(body, R.call("Record::retirement_timestamp"), inst, exact=2)
        def ret_cmp(e):
            return e.k == "bin" and e.extra == "Lt" and any(c.nid in rts for c in e.calls())
        acc = []
        for s in A.pred_switches(body, ret_cmp):
            info = A.switch_info(body, s)
            # canonical Lt(retirement_timestamp, ts): accept when true
            a, b = info.root.a
            if a.has_call("Record::retirement_timestamp"):
                acc += [(s, l) for l, v in info.edge_vals.items() if v == "true"]
                S_ok = True
            else:
                ctx.fail(inst, "PIN", body.path, "retirement comparison is not the strict `ts <= retired_at => reject`", body.where(s))
        R.guard(ctx, inst, body, pub, list(same) + acc, "replace only if the generation is the observed one or the write is newer than its retirement")


def check_under_guard(ctx):
    inst = "C07.under-guard"
    n = 0
    for b in ctx.prog.product_bodies():
        if "::Record::" in b.path or b.path.endswith("::Record::new"):
            continue
        if b.file.endswith("recovery.rs"):
            continue  # &mut self, single-threaded open
        sites = (R.field_write("Record", "retired_at", ops=["store"]) | R.call("Record::link_successor"))(b)
        for nid in R.field_write("Record", "refcount", ops=["store"])(b):
            v = b.nodes[nid].ev["args"][1] if len(b.nodes[nid].ev["args"]) > 1 else {}
            if v.get("k") == "const" and v.get("val") == 0:
                sites.append(nid)
        for s in sites:
            n += 1
            S.check_held(ctx, inst, b, s, "L_hb", "generation retirement / successor link happens under the bucket guard")
    if n < 14:
        ctx.anchor_missing(inst, "retirement-stamp sites: expected >= 14, found %d" % n)
    R.fieldw_within(ctx, inst + "/retired_at", "Record", "retired_at",
                    ["FeoxStore::delete_with_timestamp", "FeoxStore::retire_expired_if_current", "ttl_sweep::sample_and_expire_batch",
                     "Record::new", "Record::new_from_bytes", "Record::new_deferred_with_ttl"], floor=4)   # three retirement paths + at least one constructor


STALE_ARG_FNS = [("FeoxStore::update_record_with_ttl", 2), ("FeoxStore::update_record_with_ttl_bytes", 2),
                 ("FeoxStore::replace_record_if_current", 3), ("FeoxStore::retire_expired_if_current", 3)]
STALE_OK_CALLS = ["ptr::eq", "Arc::ptr_eq", "Record::retirement_timestamp", "Clone::clone", "Deref::deref", "AsRef::as_ref", "Vec::len", "slice::len"]


def check_stale_read(ctx):
    """once the bucket guard is held, decisions and accounting use the record under the guard; the generation read
    optimistically before (function argument) may only be compared by identity, asked for its retirement stamp, or
    supply the (immutable) key"""
    inst = "C07.under-guard/stale-read"
    n_checked = 0
    for fn, argi in STALE_ARG_FNS:
        b = ctx.fn(fn, inst)
        if b is None:
            continue
        ent = ctx.sites(b, R.call("HashMap::entry"), inst, exact=1)
        if not ent:
            continue
        r, _ = A.reach(b, A.succs(b, ent[0]), sensitive=False)
        tr = A.tracer(b)
        for nid in sorted(r):
            n = b.nodes[nid]
            exprs = []
            if n.kind == "call":
                if any(R.call_matches(n.ev, c) for c in STALE_OK_CALLS):
                    continue
                exprs = [tr.operand(a) for a in n.ev["args"]]
                # a call *on* the stale record (method receiver)
                if n.ev["args"]:
                    recv = exprs[0]
                    if recv.k == "arg" and recv.extra[0] == argi:
                        n_checked += 1
                        ctx.fail(inst, "PROVENANCE", b.path, "under the bucket guard `%s` is called on the optimistic (possibly stale) record" % R.callee_name(n.ev).rsplit("::", 1)[-1], b.where(nid))
                        continue
            elif n.kind == "assign" and n.ev.get("rv") in ("use", "bin", "cast"):
                exprs = [tr.node_value(nid)]
            for e in exprs:
                for x in e.walk():
                    if x.k == "field" and x.a and x.a[0].k == "arg" and x.a[0].extra[0] == argi and (x.extra[0] or "").endswith("Record"):
                        n_checked += 1
                        ctx.check(x.extra[1] in ("key",), inst, "PROVENANCE", b.path,
                                  "under the bucket guard only the key of the optimistic record is read (found `.%s`)" % x.extra[1], b.where(nid))
    ctx.check(n_checked >= 2, inst, "anchor", "-", "reads of the optimistic record under the guard examined (%d)" % n_checked, None)


def check_vacant(ctx):
    inst = "C07.vacant"
    for fn in ("FeoxStore::update_record_with_ttl", "FeoxStore::update_record_with_ttl_bytes"):
        body = ctx.fn(fn, inst)
        if body is None:
            continue
        knf = [e for e in A.error_nodes(body) if _is_variant(body, e, "KeyNotFound")]
        ctx.check(len(knf) == 1, inst, "anchor", body.path, "one KeyNotFound exit", None)
        rts = R.call("Record::retirement_timestamp")(body)
        R.dom(ctx, inst, body, rts, knf, "a vanished key is answered KeyNotFound only after comparing with retirement_timestamp()", a_desc="retirement_timestamp")
    body = ctx.fn("FeoxStore::atomic_increment_with_timestamp_and_ttl", inst)
    if body is not None:
        rts = R.call("Record::retirement_timestamp")(body)
        clos = [c for c in ctx.prog.closures_of(body) if R.call("Record::retirement_timestamp")(c)]
        ctx.check(len(rts) + len(clos) >= 3, inst, "anchor", body.path, "increment consults retirement_timestamp on the vacant / raced / re-create arms (found %d)" % (len(rts) + len(clos)), None)
    body = ctx.fn("FeoxStore::json_patch_with_timestamp", inst)
    if body is not None:
        rts = ctx.sites(body, R.call("Record::retirement_timestamp"), inst, exact=2)
        rep = ctx.sites(body, R.call("FeoxStore::replace_record_if_current"), inst, exact=1)


def _is_variant(body, err_nid, name):
    n = body.nodes[err_nid]
    if n.kind != "assign":
        return False
    v = A.tracer(body).operand(n.ev["ops"][0])
    return v.k == "agg" and (v.extra or "").endswith("FeoxError::" + name)


def check_gate(ctx):
    # "an accepted write never lands on top of a state carrying an equal or newer timestamp": the last-writer-wins gate is
    # evaluated on the record under the bucket guard (shared with C01.gate)
    from rules import C01
    C01.check_gate(ctx, "C07.gate")


def check_retirement_walk(ctx):
    """an in-flight writer learns from Record::retirement_timestamp() whether the generation it read was later removed by a
    delete; the delete stamps the *tail* generation, any number of accepted generations later, so the helper has to follow the
    successor links to the end of the chain and take the maximum over every generation on the way"""
    inst = "C07.retirement-walk"
    b = ctx.fn("Record::retirement_timestamp", inst)
    if b is None:
        return
    def on_field(name):
        return lambda bb, n: R.recv_expr(bb, n).has_field("Record", name)
    gets = ctx.sites(b, R.call("OnceLock::get").filter(on_field("successor"), "successor.get"), inst, floor=1)
    loads = ctx.sites(b, R.call("Atomic::load", "AtomicU64::load").filter(on_field("retired_at"), "retired_at.load"), inst, floor=2)
    # the walk is a loop: some successor.get() lies on a cycle together with a retired_at load
    on_cycle = []
    for g in gets:
        r, _ = A.reach(b, A.succs(b, g), sensitive=False)
        if g in r and any(l in r for l in loads):
            on_cycle.append(g)
    ctx.check(bool(on_cycle), inst, "PIN", b.path, "the successor chain is walked in a loop (every generation's stamp is visited), not to a fixed depth", None)
    # the function returns only at the end of the chain (successor = None)
    rets = [n.id for n in b.nodes if n.kind == "assign" and not n.ev["dst"]["p"] and n.ev["dst"]["l"] == 0]
    ctx.check(bool(rets), inst, "anchor", b.path, "return value assignments found", None)
    none_edges = list(R.guard_edges_for_call(b, gets, "None"))
    # `while let Some(current) = next { ..; next = current.successor.get().cloned(); }`: the loop tests an Option cursor every
    # definition of which is the (cloned) result of a successor.get() - its None edge is a generation without successor as well
    tr = A.tracer(b, False)
    for s_ in A.switches(b):
        info = A.switch_info(b, s_)
        root = info.root
        if root.k == "local" and b.defs.get(root.extra) and all(any(c.nid in gets for c in tr.node_value(d).calls()) for d in b.defs[root.extra]):
            none_edges += [(s_, l) for l, v in info.edge_vals.items() if v == "None"]
    R.guard(ctx, inst, b, rets, none_edges, "the answer is produced only once a generation without successor was reached")
    # accumulation by maximum
    mx = R.call("Ord::max", "cmp::max", "u64::max")(b)
    ctx.check(bool(mx) and any(any(m in A.reach(b, A.succs(b, g), sensitive=False)[0] for m in mx) for g in on_cycle or gets), inst, "PIN", b.path,
              "stamps are combined by maximum inside the walk", None)
    # the callers compare it with their own timestamp (>=) — pinned in C07.gate / C01.gate; here: who calls it
    R.callers_within(ctx, inst, "Record::retirement_timestamp",
                     ["FeoxStore::update_record_with_ttl", "FeoxStore::update_record_with_ttl_bytes", "FeoxStore::json_patch_with_timestamp",
                      "FeoxStore::atomic_increment_with_timestamp_and_ttl", "FeoxStore::replace_record_if_current", "FeoxStore::compare_and_swap_with_timestamp",
                      "FeoxStore::insert_with_timestamp_and_ttl_internal", "FeoxStore::insert_bytes_with_expiry", "FeoxStore::delete_with_timestamp",
                      "FeoxStore::update_ttl", "FeoxStore::insert_if_absent"], floor=3)


def check_clock(ctx):
    """an accepted explicit timestamp is folded into the key's clock shard for sure (compare-exchange retried until the clock
    has reached it): otherwise later automatic operations on the key draw older timestamps and are refused without any
    concurrent modification (shared with C12.next)"""
    from rules import C12
    C12.check_next(ctx, "C07.clock")


def check_create_race(ctx, inst="C07.create-race"):
    """two writers that both read "absent" race for the bucket; the loser finds the entry occupied. It must go round again and be
    judged against the record that won (replace it if newer, OlderTimestamp otherwise, add to it for a counter): from the
    `Occupied` arm of the create path no return is reachable before the table is looked at again. Answering at once (Ok or Err)
    drops a write that may carry the newest timestamp. insert_if_absent is the documented exception (occupied => Ok(false))."""
    for fn in ("FeoxStore::insert_with_timestamp_and_ttl_internal", "FeoxStore::insert_bytes_with_expiry", "FeoxStore::atomic_increment_with_timestamp_and_ttl"):
        b = ctx.fn(fn, inst)
        if b is None:
            continue
        pubs = ctx.sites(b, V.PUB_NEW, inst, exact=1)
        if not pubs:
            continue
        ent = [n.id for n in b.calls() if R.call_matches(n.ev, "HashMap::entry") and R.recv_expr(b, n).has_field("FeoxStore", "hash_table")]
        # the entry call whose vacant arm feeds the publication
        o = A.origins(b, R.recv_expr(b, b.nodes[pubs[0]]))
        ent = [e for e in ent if ("call", e) in o]
        ctx.check(len(ent) == 1, inst, "anchor", b.path, "the publication of a new key goes through one hash_table.entry() (found %d)" % len(ent), None)
        if not ent:
            continue
        keys = A.call_roots(b, ent)
        cand = [s_ for s_ in A.switches(b) if A.switch_info(b, s_).root.key() in keys and "Occupied" in A.switch_info(b, s_).edge_vals.values()]
        # the match itself is the first of them; later switches on the same discriminant are drop elaboration
        first = [s_ for s_ in cand if pubs[0] in A.reach(b, A.succs(b, s_), blocked_nodes={o_ for o_ in cand if o_ != s_}, sensitive=False)[0]]
        ctx.check(len(first) == 1, inst, "anchor", b.path, "the Occupied arm of the create path is distinguished (found %d)" % len(first), None)
        reads = {n.id for n in b.calls() if any(R.call_matches(n.ev, h) for h in ("HashMap::read", "HashMap::get", "HashMap::entry", "HashMap::read_async")) and
                 R.recv_expr(b, n).has_field("FeoxStore", "hash_table")}
        for s_ in first:
            info = A.switch_info(b, s_)
            others = {(s_, l) for l, v in info.edge_vals.items() if v != "Occupied"}
            r, ps = A.reach(b, [s_], blocked_nodes=reads, blocked_edges=others)
            bad = [x for x in b.return_nodes() if x in r]
            ctx.check(not bad, inst, "FOLLOW", b.path, "a creator that lost the race for the bucket looks at the table again before it answers", b.where(s_),
                      None if not bad else {"witness": R.witness(b, ps, r.get(bad[0]))})


def check_vanished_retry(ctx, inst="C07.vanished-retry"):
    """(added after C07-i) the replace step answers KeyNotFound from its vacant arm only after it has found the incoming timestamp
    newer than everything the vanished generation was retired with: this writer is the last writer and must go round again and
    create the key. Both upsert loops: from the `Err(KeyNotFound)` edge of the replace step's result no return is reachable
    before the table is looked at again - whatever the kind of timestamp (a guard such as `if !explicit_timestamp` on that arm
    refuses a newest explicit-timestamp write because of an older delete, which is not a permitted deviation)."""
    n_edges = 0
    for fn, step in (("FeoxStore::insert_with_timestamp_and_ttl_internal", "FeoxStore::update_record_with_ttl"),
                     ("FeoxStore::insert_bytes_with_expiry", "FeoxStore::update_record_with_ttl_bytes")):
        b = ctx.fn(fn, inst)
        if b is None:
            continue
        steps = ctx.sites(b, R.call_or_thin_helper(step), inst, floor=1, what="replace step " + step.rsplit("::", 1)[-1])
        if not steps:
            continue
        reads = {n.id for n in b.calls() if any(R.call_matches(n.ev, h) for h in ("HashMap::read", "HashMap::get", "HashMap::entry", "HashMap::read_async")) and
                 R.recv_expr(b, n).has_field("FeoxStore", "hash_table")}
        found = 0
        for s_ in A.switches(b):
            info = A.switch_info(b, s_)
            if not any(c.nid in steps for c in info.root.calls()):
                continue
            for lab, v in info.edge_vals.items():
                if v != "KeyNotFound":
                    continue
                found += 1
                others = {(s_, l) for l in info.edge_vals if l != lab}
                r, ps = A.reach(b, [s_], blocked_nodes=reads, blocked_edges=others)
                bad = [x for x in b.return_nodes() if x in r]
                ctx.check(not bad, inst, "FOLLOW", b.path,
                          "an upsert whose target vanished under it (replace step = KeyNotFound) looks at the table again before it answers, for every kind of timestamp",
                          b.where(s_), None if not bad else {"witness": R.witness(b, ps, r.get(bad[0]))})
        n_edges += found
        ctx.check(found >= 1, inst, "anchor", b.path, "the KeyNotFound outcome of the replace step is told apart (found %d)" % found, None)
    ctx.check(n_edges >= 2, inst, "anchor", "-", "both upsert loops retry on a vanished target (found %d)" % n_edges, None)


def check_expiry_clock(ctx):
    """increment / CAS / upsert judge `expired` against the wall clock every reader uses; a test against the version clock (which
    an explicit future timestamp pushes ahead) restarts a counter other operations still see as live (same rule as C11.pred)"""
    from rules import C11
    C11.check_pred(ctx, "C07.expiry-clock")


def check(ctx):
    check_create_race(ctx)
    check_vanished_retry(ctx)
    check_expiry_clock(ctx)
    check_clock(ctx)
    check_retirement_walk(ctx)
    check_gate(ctx)
    check_identity(ctx)
    check_stale_read(ctx)
    check_under_guard(ctx)
    check_vacant(ctx)
