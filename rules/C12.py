"""C12 — automatic versions strictly increase per key across writes and restarts.
Decided: where the clock is fed and read."""
from feoxlint import analysis as A
from feoxlint import rulekit as R
from feoxlint import vocab as V
from feoxlint.model import path_matches
from rules import storevocab as S
from rules.common import edge_targets, origin_names, names_of

EXPLANATION = """
Where the version clock is fed and read, as call-graph and path facts: VersionClock::observe is called only from
observe_published_timestamp, the recovery scan and the lazy-expiry path; every observe_published_timestamp call sits
after the publication / removal decision (dominated by the last-writer-wins gate's accept edge where there is one), under
the bucket guard, with no error exit reachable afterwards except ShuttingDown, and its `explicit` flag is the one
resolve_timestamp returned (or explicit_timestamp.is_some()); VersionClock::next installs max(wall, last + 1) through a
compare-exchange loop and returns exactly the installed value; observe only ever raises the clock (CAS guarded by
timestamp > last); every timestamp handed to a Record constructor in the store comes from resolve_timestamp /
get_timestamp / VersionClock::next or is an API parameter; recovery folds in every scanned timestamp before the
winner/loser decision. Not decided: numeric monotonicity over histories; clock-shard collisions.
"""
DECIDED = ['the key -> clock-shard map is a pure function of the key bytes and the clock hasher (no thread / time / other state)', "every clock draw / observation uses the operation's own key (shard key provenance)", 'u64::MAX is never installed into a clock shard', "clock fed only on published writes, under the guard, after the gate", "next() = max(wall, last+1) via CAS, returns the installed value",
           "observe() only raises", "all automatic timestamps come from the clock", "recovery folds every scanned timestamp",
           'every Record constructor stores its timestamp parameter',
           'observe retries a lost compare-exchange']
NOT_DECIDED = ["numeric monotonicity per key over histories", "clock-shard collisions"]
ASSUMPTIONS = []


def check_observe(ctx):
    inst = "C12.observe"
    R.callers_within(ctx, inst, "VersionClock::observe", ["FeoxStore::observe_published_timestamp", "FeoxStore::scan_and_rebuild_indexes",
                                                          "FeoxStore::retire_expired_if_current"], floor=3)
    sites = ctx.prog.call_sites("FeoxStore::observe_published_timestamp")
    ctx.check(len(sites) == 8, inst, "anchor", "-", "observe_published_timestamp call sites (expected 8, found %d)" % len(sites), None)
    for b, n in sites:
        S.check_held(ctx, inst, b, n.id, "L_hb", "an explicit timestamp is absorbed only under the bucket guard")
        R.noerr_after(ctx, inst, b, [n.id], "no error exit after the clock absorbed the timestamp (except ShuttingDown)",
                      allowed=["WriteBuffer::add_write", "WriteBuffer::add_replacement"])
        # after the publication decision: dominated by the publication / removal-side mutation
        pubs = V.PUB_NEW(b) + V.PUB_REPL_INSERT(b)
        rems = V.REM(b)
        if pubs:
            R.dom(ctx, inst, b, pubs, [n.id], "the clock is fed only after the record was published", a_desc="publication")
        elif rems:
            edges, sws = S.ts_gate_edges(b, want_accept=True, under_guard=True)
            R.guard(ctx, inst, b, [n.id], edges, "the clock is fed only after the delete passed the last-writer-wins gate")
        else:
            ctx.fail(inst, "anchor", b.path, "observe_published_timestamp in a body without a publication / removal site", b.where(n.id))
        # explicit flag provenance
        e = R.arg_expr(b, n, 3)
        ok = e.has_call("FeoxStore::resolve_timestamp") or (e.k == "call" and path_matches(e.extra, "Option::is_some")) or \
            (e.k == "arg" and "explicit" in (e.extra[1] or "")) or any(x.k == "arg" and "timestamp" in (x.extra[1] or "") for x in e.walk())
        ctx.check(ok, inst, "PROVENANCE", b.path, "`explicit` is the flag resolve_timestamp produced / explicit_timestamp.is_some()", b.where(n.id), {"expr": e.show()})
        t = R.arg_expr(b, n, 2)
        ctx.check(t.k != "const", inst, "PROVENANCE", b.path, "the timestamp absorbed is the operation's timestamp", b.where(n.id), nontrivial=False)
    b = ctx.fn("FeoxStore::observe_published_timestamp", inst)
    if b is not None:
        ob = ctx.sites(b, R.call("VersionClock::observe"), inst, exact=1)
        edges = A.pred_edges(b, lambda e: e.k == "arg" and e.extra[0] == 4, "true")
        R.guard(ctx, inst, b, ob, edges, "only explicit timestamps are folded in")
    # helpers' explicit flag comes from the caller unchanged
    for caller, helper, idx in (("FeoxStore::insert_with_timestamp_and_ttl_internal", "FeoxStore::update_record_with_ttl", 4),
                                ("FeoxStore::insert_bytes_with_expiry", "FeoxStore::update_record_with_ttl_bytes", 4)):
        b = ctx.fn(caller, inst)
        if b is None:
            continue
        for h in R.call(helper)(b):
            e = R.arg_expr(b, b.nodes[h], idx)
            ctx.check(e.has_call("FeoxStore::resolve_timestamp") or (e.k == "arg" and "explicit" in (e.extra[1] or "")), inst, "PROVENANCE", b.path,
                      "the explicit flag is forwarded unchanged to %s" % helper.split("::")[-1], b.where(h), {"expr": e.show()})
    b = ctx.fn("FeoxStore::insert_migrated_bytes", inst)
    if b is not None:
        for h in R.call("FeoxStore::insert_bytes_with_expiry")(b):
            a = b.nodes[h].ev["args"][4]
            ctx.check(a.get("k") == "const" and a.get("val") == 1, inst, "PIN", b.path, "migrated timestamps are explicit (observed by the clock)", b.where(h))


def check_next(ctx, inst="C12.next"):
    b = ctx.fn("VersionClock::next", inst)
    if b is not None:
        cas = ctx.sites(b, R.call("Atomic::compare_exchange_weak", "Atomic::compare_exchange"), inst, exact=1)
        sa = ctx.sites(b, R.call("u64::saturating_add"), inst, exact=1)
        # next = if wall > last { wall } else { last.saturating_add(1) }: canonical Lt(last, wall)
        def wall_cmp(e):
            return e.k == "bin" and e.extra == "Lt" and e.a[1].k == "arg" and e.a[1].extra[0] == 3
        sws = A.pred_switches(b, wall_cmp)
        # the same candidate written without a branch: `wall.max(last.saturating_add(1))` (equal for every u64: wall > last gives
        # wall >= last + 1, otherwise last + 1 > wall, and at u64::MAX both forms yield u64::MAX)
        mx = [n.id for n in b.calls() if R.call_matches(n.ev, "Ord::max") or R.call_matches(n.ev, "cmp::max") or R.call_matches(n.ev, "u64::max")]
        as_max = False
        if not sws and len(mx) == 1 and sa:
            a0, a1 = R.arg_expr(b, b.nodes[mx[0]], 0), R.arg_expr(b, b.nodes[mx[0]], 1)
            def is_wall(e):
                return e.k == "arg" and e.extra[0] == 3
            def is_bump(e):
                return e.k == "call" and e.nid in sa
            as_max = (is_wall(a0) and is_bump(a1)) or (is_wall(a1) and is_bump(a0))
            if as_max and cas:
                newv = R.arg_expr(b, b.nodes[cas[0]], 2)
                as_max = newv.k == "call" and newv.nid == mx[0]
        if as_max:
            ctx.ok(inst, "PIN", b.path, "the candidate is max(wall, last + 1), the value handed to the compare-exchange", b.where(mx[0]))
        else:
            ctx.check(len(sws) == 1, inst, "PIN", b.path, "the candidate is chosen by the strict test `wall > last`", None)
            R.guard(ctx, inst, b, sa, A.pred_edges(b, wall_cmp, "false"), "last + 1 is used exactly when the wall clock is not ahead")
        if sa:
            ev = b.nodes[sa[0]].ev
            one = ev["args"][1]
            ctx.check(one.get("k") == "const" and one.get("val") == 1, inst, "PIN", b.path, "the bump is +1", b.where(sa[0]))
        rets = [n.id for n in b.nodes if n.kind == "assign" and not n.ev["dst"]["p"] and n.ev["dst"]["l"] == 0]
        ctx.check(len(rets) == 1, inst, "anchor", b.path, "single return value", None)
        R.guard(ctx, inst, b, rets, R.guard_edges_for_call(b, cas, "Ok"), "the value is returned only after its compare-exchange succeeded")
        if rets and cas:
            rv = A.tracer(b).node_value(rets[0])
            new = R.arg_expr(b, b.nodes[cas[0]], 2)
            ctx.check(rv.key() == new.key(), inst, "PROVENANCE", b.path, "the returned timestamp is the value installed by the CAS", b.where(rets[0]), {"ret": rv.show(), "installed": new.show()})
            cur = R.arg_expr(b, b.nodes[cas[0]], 1)
            ctx.check("last" in names_of(b, cur), inst, "PROVENANCE", b.path, "the CAS expects the value the candidate was computed from", b.where(cas[0]))
        # failure retries with the observed value
        for (sw, l) in R.guard_edges_for_call(b, cas, "Err"):
            r, ps = A.reach(b, edge_targets(b, sw, l), blocked_nodes=set(cas))
            ctx.check(not any(x in r for x in b.return_nodes()), inst, "FOLLOW", b.path, "a failed CAS retries (never returns an uninstalled value)", b.where(sw))
    b = ctx.fn("VersionClock::observe", inst)
    if b is not None:
        cas = ctx.sites(b, R.call("Atomic::compare_exchange_weak", "Atomic::compare_exchange"), inst, exact=1)
        def gt(e):
            return e.k == "bin" and e.extra == "Lt" and e.a[1].k == "arg" and e.a[1].extra[0] == 3
        R.guard(ctx, inst, b, cas, A.pred_edges(b, gt, "true"), "observe installs a timestamp only if it is greater than the clock")
        if cas:
            new = R.arg_expr(b, b.nodes[cas[0]], 2)
            ctx.check(new.k == "arg" and new.extra[0] == 3, inst, "PROVENANCE", b.path, "observe installs exactly the observed timestamp", b.where(cas[0]))
        # observe does not give up: it returns only once the clock is at least the observed timestamp (the test fails) —
        # a failed exchange goes round again, its result is not discarded
        rets = b.return_nodes()
        r_, ps_ = A.reach(b, [b.entry], blocked_edges=frozenset(A.pred_edges(b, gt, "false")))
        for (sw, l) in R.guard_edges_for_call(b, cas, "Err"):
            rr, _ = A.reach(b, [t for (t, lab) in b.nodes[sw].succ if lab == l], blocked_nodes=set(cas), blocked_edges=frozenset(A.pred_edges(b, gt, "false")))
            ctx.check(not any(x in rr for x in rets), inst, "FOLLOW", b.path, "a lost compare-exchange is retried (observe returns only when the clock has reached the timestamp)", b.where(sw))
        ctx.check(bool(R.guard_edges_for_call(b, cas, "Err")), inst, "NODISCARD", b.path, "the outcome of the compare-exchange is examined", b.where(cas[0]) if cas else None)
        # the terminal timestamp never enters a clock shard: a shard at u64::MAX makes next() return MAX for every key that
        # hashes to it, so their second automatic write would be rejected as older. The exemption has to sit where *all*
        # feeders pass (recovery and lazy expiry call observe directly), i.e. inside observe or at every call site.
        def is_max(e):
            return e.k == "bin" and e.extra == "Eq" and e.has_arg(idx=3) and any(x.k == "const" and (x.extra or {}).get("val") == 0xFFFFFFFFFFFFFFFF for x in e.walk())
        inner = A.pred_edges(b, is_max, "false")
        if inner:
            R.guard(ctx, inst, b, cas, inner, "u64::MAX is never installed into a clock shard (terminal pins do not exhaust colliding keys)")
        else:
            for cb, cn in ctx.prog.call_sites("VersionClock::observe"):
                def is_max_at(e, cb=cb, cn=cn):
                    t = R.arg_expr(cb, cn, 2)
                    return e.k == "bin" and e.extra == "Eq" and any(x.k == "const" and (x.extra or {}).get("val") == 0xFFFFFFFFFFFFFFFF for x in e.walk()) and \
                        (e.a[0].key() == t.key() or e.a[1].key() == t.key())
                R.guard(ctx, inst, cb, [cn.id], A.pred_edges(cb, is_max_at, "false"),
                        "u64::MAX is never installed into a clock shard: observe() has no terminal-timestamp exemption, so every caller needs one")
    b = ctx.fn("VersionClock::shard", inst)
    # both use the same shard for a key
    for fn in ("VersionClock::next", "VersionClock::observe"):
        b = ctx.fn(fn, inst)
        if b is not None:
            sh = ctx.sites(b, R.call("VersionClock::shard"), inst, exact=1)
            for s in sh:
                k = R.arg_expr(b, b.nodes[s], 1)
                ctx.check(k.k == "arg" and k.extra[0] == 2, inst, "PROVENANCE", b.path, "the clock shard is chosen by the key", b.where(s))
    b = ctx.fn("FeoxStore::get_timestamp", inst)
    if b is not None:
        nx = ctx.sites(b, R.call("VersionClock::next"), inst, exact=1)
        for x in nx:
            w = R.arg_expr(b, b.nodes[x], 2)
            ctx.check(w.has_call("FeoxStore::get_timestamp_pub"), inst, "PROVENANCE", b.path, "automatic timestamps are max(wall clock, last + 1)", b.where(x))


CTORS = ["Record::new", "Record::new_with_timestamp", "Record::new_with_timestamp_ttl", "Record::new_from_bytes",
         "Record::new_from_bytes_with_ttl", "Record::new_deferred_with_ttl", "atomic::counter_record"]


def check_source(ctx):
    inst = "C12.source"
    b = ctx.fn("FeoxStore::resolve_timestamp", inst)
    if b is not None:
        gt = ctx.sites(b, R.call("FeoxStore::get_timestamp"), inst, exact=1)
        # Some(t) with t != 0 => explicit; everything else goes to the clock
        aggs = [n.id for n in b.nodes if n.kind == "assign" and not n.ev["dst"]["p"] and n.ev["dst"]["l"] == 0 and n.ev["rv"] == "agg"]
        ctx.check(len(aggs) == 2, inst, "anchor", b.path, "two result tuples (explicit / automatic)", None)
        for a in aggs:
            ev = b.nodes[a].ev
            flag = ev["ops"][1]
            tsv = A.tracer(b).operand(ev["ops"][0])
            if flag.get("val") == 1:
                ctx.check(tsv.has_arg(idx=3) and not tsv.has_call("FeoxStore::get_timestamp"), inst, "PIN", b.path, "explicit => the caller's timestamp", b.where(a))
                nz = A.pred_edges(b, lambda e: e.k == "bin" and e.extra == "Eq" and e.has_const(val=0) and e.has_arg(idx=3), "false")
                R.guard(ctx, inst, b, [a], nz, "a zero timestamp is never treated as explicit")
            else:
                ctx.check(any(c.nid in gt for c in tsv.calls()), inst, "PIN", b.path, "automatic => the version clock", b.where(a))
    n = 0
    for b in ctx.prog.product_bodies():
        if not (b.file.startswith("src/core/store/") and not b.file.endswith("recovery.rs") and not b.file.endswith("migration.rs")):
            continue
        for c in b.calls():
            if not any(R.call_matches(c.ev, k) for k in CTORS):
                continue
            idx = 2 if not R.call_matches(c.ev, "Record::new_deferred_with_ttl") else 1
            e = R.arg_expr(b, c, idx)
            n += 1
            ok = e.has_call("FeoxStore::resolve_timestamp") or e.has_call("FeoxStore::get_timestamp") or e.has_call("VersionClock::next") or \
                any(x.k == "arg" and x.extra[1] and "timestamp" in x.extra[1] for x in e.walk()) or "timestamp" in names_of(b, e)
            ctx.check(ok, inst, "PROVENANCE", b.path, "a record's timestamp comes from the clock or from the API parameter", b.where(c.id), {"expr": e.show()})
            ctx.check(not e.has_call("SystemTime::now") and not e.has_call("FeoxStore::get_timestamp_pub") or e.has_call("VersionClock::next") or e.has_call("FeoxStore::get_timestamp"),
                      inst, "FORBID", b.path, "no record is stamped with the raw wall clock", b.where(c.id))
    ctx.check(n >= 14, inst, "anchor", "-", "record constructor sites in the store (>= 14, found %d)" % n, None)
    # ... and the constructors put exactly that parameter into the record (a deferred TTL generation must not inherit its
    # predecessor's version: it would tie with it in memory, on disk and after recovery)
    n_lit = 0
    for b in ctx.prog.product_bodies():
        if not b.file.endswith("core/record.rs"):
            continue
        for nd in b.nodes:
            if nd.kind == "assign" and nd.ev.get("rv") == "agg" and (nd.ev.get("adt") or "").endswith("core::record::Record"):
                n_lit += 1
                f = dict(zip(nd.ev["fields"], [A.tracer(b).operand(o) for o in nd.ev["ops"]]))
                ts = f.get("timestamp")
                ctx.check(ts is not None and ts.k == "arg", inst, "PIN", b.path, "the record's timestamp is the constructor's timestamp parameter", b.where(nd.id),
                          {"timestamp": ts.show()[:60] if ts is not None else None})
    ctx.check(n_lit >= 2, inst, "anchor", "-", "Record literals in record.rs (>= 2: a resident and a deferred constructor; found %d)" % n_lit, None)
    # atomic ops / insert_if_absent take their automatic timestamps from get_timestamp
    for fn in ("FeoxStore::insert_if_absent", "FeoxStore::atomic_increment_with_timestamp_and_ttl"):
        b = ctx.fn(fn, inst)
        if b is not None:
            fam = ctx.prog.family(b)
            k = sum(len(R.call("FeoxStore::get_timestamp")(x)) for x in fam)
            ctx.check(k >= 1, inst, "PROVENANCE", b.path, "automatic timestamp taken from the version clock", None)


def check_recovery(ctx):
    inst = "C12.recovery"
    b = ctx.fn("FeoxStore::scan_and_rebuild_indexes", inst)
    if b is None:
        return
    ob = ctx.sites(b, R.call("VersionClock::observe"), inst, exact=1)
    pub = V.PUB_REC(b)
    loser = ctx.sites(b, R.call("Option::is_some_and").filter(lambda bb, n: R.recv_expr(bb, n).has_call("HashMap::read"), "loser test"), inst, exact=1)
    R.dom(ctx, inst, b, ob, pub + loser, "every scanned timestamp (winner or loser) is folded into the clock before the decision", a_desc="version_clock.observe")
    for o in ob:
        e = R.arg_expr(b, b.nodes[o], 2)
        ctx.check(e.has_call("RecordFormat::parse_record"), inst, "PROVENANCE", b.path, "the timestamp folded in is the parsed one", b.where(o), {"expr": e.show()})


CLOCK_CALLS = ("FeoxStore::get_timestamp", "FeoxStore::resolve_timestamp", "FeoxStore::observe_published_timestamp",
               "VersionClock::next", "VersionClock::observe")
HASH_OPS = ("HashMap::entry", "HashMap::get", "HashMap::read", "HashMap::update", "HashMap::remove", "HashMap::upsert", "HashMap::contains",
            "HashMap::insert", "HashMap::remove_if")


def check_shard_key(ctx, inst="C12.shard-key"):
    """the version clock is sharded by key: "strictly greater than anything the key has seen" holds only if every draw and every
    observation for an operation on key K goes to K's shard. At each clock call the key argument must be the key the operation
    looks up / publishes under (the hash-table key, the key handed to the keyed store helpers, the stored key of an update
    closure, the key of the record being indexed) - not another byte slice that happens to be in scope."""
    prog = ctx.prog
    n_sites = 0

    def key_origins(b, e):
        out = set()
        for o in A.origins(b, e):
            if o[0] in ("arg", "local"):
                out.add(o)
        for x in e.walk():
            if x.k == "field" and x.extra[1] == "key" and (x.extra[0] or "").endswith("Record"):
                out.add(("record-key",))
        return out

    def family(b):
        fam = [b]
        p = b
        while p.parent and p.parent in prog.bodies:
            p = prog.bodies[p.parent]
            fam.append(p)
        return fam

    def reference(b):
        ref = set()
        for n in b.calls():
            if len(n.ev["args"]) < 2:
                continue
            keyed = False
            if any(R.call_matches(n.ev, h) for h in HASH_OPS) and R.recv_expr(b, n).has_field("FeoxStore", "hash_table"):
                keyed = True
            else:
                for t in prog.targets(n.ev):
                    tb = prog.bodies.get(t) if t else None
                    if tb is not None and not any(path_matches(t, c) for c in CLOCK_CALLS) and tb.argc >= 2 and tb.local_name(2) == "key" and \
                            (path_matches(t, "FeoxStore::*") or "FeoxStore" in (tb.impl_self or "") or "core::store" in t):
                        keyed = True
            if keyed:
                ref |= key_origins(b, R.arg_expr(b, n, 1))
        # a closure run by a hash-table operation receives the stored key as its first parameter
        if b.is_closure and b.parent in prog.bodies:
            par = prog.bodies[b.parent]
            from rules.common import closure_carriers
            for c in closure_carriers(par, b):
                cn = par.nodes[c]
                if any(R.call_matches(cn.ev, h) for h in HASH_OPS) and R.recv_expr(par, cn).has_field("FeoxStore", "hash_table"):
                    ref.add(("arg", 2))
        return ref

    for b in prog.product_bodies():
        if not ("core::store" in b.path or "core::ttl_sweep" in b.path):
            continue
        sites = [n for n in b.calls() if any(R.call_matches(n.ev, c) for c in CLOCK_CALLS) and len(n.ev["args"]) >= 2]
        if not sites:
            continue
        owner = R.owner_fn(prog, b)
        forwarder = any(path_matches(owner, c) for c in CLOCK_CALLS[:3])
        ref = set()
        for fb in family(b):
            r = reference(fb)
            if fb is not b:
                # a parent's key reaches the closure as a captured variable: compare through the capture
                r = {o for o in r if o[0] != "arg"} | {("parent",) + o for o in r}
            ref |= r
        for n in sites:
            n_sites += 1
            e = R.arg_expr(b, n, 1)
            k = key_origins(b, e)
            if forwarder:
                good = ("arg", 2) in k
                what = "the clock helper forwards its own `key` parameter"
            else:
                good = bool(k & ref)
                if not good and b.is_closure:
                    from rules.common import closure_expr_parents
                    par, pes = closure_expr_parents(prog, b, e)
                    pk = set()
                    for pe in pes:
                        pk |= key_origins(par, pe)
                    good = bool({("parent",) + o for o in pk} & ref) or bool(pk & reference(par))
                what = "the clock is drawn from / fed for the key the operation works on (same provenance as the hash-table / keyed-helper key)"
            ctx.check(good, inst, "PROVENANCE", owner, what, b.where(n.id), {"key_arg": e.show()[:100], "origins": sorted(map(str, k))[:6]})
    ctx.check(n_sites >= 20, inst, "anchor", "-", "clock call sites examined (>= 20, found %d)" % n_sites, None)
    # (added after C12-i) the key -> shard map itself is a pure function of the key bytes (and the clock's own hasher): a shard
    # choice that also depends on the calling thread, the time or any other state sends `observe` on one thread and `next` on
    # another to different counters for the same key
    ALLOWED = ("RandomState::hash_one", "BuildHasher::hash_one", "VersionClock::shard_index", "Deref::deref", "Index::index", "Vec::len", "slice::len",
               "Ord::min", "Ord::max", "cmp::min", "cmp::max", "slice::get", "slice::first", "slice::last", "slice::split_at", "SliceIndex::index", "slice::index")    # pure
    n_pure = 0
    for fn in ("VersionClock::shard_index", "VersionClock::shard"):
        b = ctx.fn(fn, inst)
        if b is None:
            continue
        for n in b.calls():
            nm = R.callee_name(n.ev) if hasattr(R, "callee_name") else None
            ok = any(R.call_matches(n.ev, a) for a in ALLOWED)
            ctx.check(ok, inst, "FORBID", b.path, "the shard of a key is computed from the key and the clock's hasher only (no thread, time or other state)", b.where(n.id))
            if R.call_matches(n.ev, "hash_one") or R.call_matches(n.ev, "VersionClock::shard_index"):
                k = R.arg_expr(b, n, 1)
                leaves = [x for x in k.walk() if not x.a]
                ctx.check(any(x.k == "arg" and x.extra[0] == 2 for x in leaves) and all((x.k == "arg" and x.extra[0] == 2) or x.k == "const" for x in leaves),
                          inst, "PROVENANCE", b.path, "what is hashed / looked up is computed from the key parameter (and constants) only", b.where(n.id), {"hashed": k.show()[:100]})
                r0 = R.arg_expr(b, n, 0)
                ctx.check(all(x.k != "arg" or x.extra[0] == 1 for x in r0.walk()) and not r0.calls(), inst, "PROVENANCE", b.path, "with the clock's own hasher", b.where(n.id))
                n_pure += 1
        loads = [n.id for n in b.calls() if R.call_matches(n.ev, "Atomic::load") or R.call_matches(n.ev, "thread::current") or R.call_matches(n.ev, "SystemTime::now")]
        ctx.check(not loads, inst, "FORBID", b.path, "no ambient state is read while choosing the shard", b.where(loads[0]) if loads else None)
    ctx.check(n_pure >= 2, inst, "anchor", "-", "shard_index hashes the key, shard forwards it (found %d)" % n_pure, None)


def check(ctx):
    check_shard_key(ctx)
    check_observe(ctx)
    check_next(ctx)
    check_source(ctx)
    check_recovery(ctx)
