"""Helpers shared by several property tables."""
from feoxlint import analysis as A
from feoxlint import rulekit as R
from feoxlint.model import path_matches


def _is_version_expr(body, e):
    """expression denotes the on-disk format version: a load of a `format_version`
    field, or an argument / local named *version"""
    for x in e.walk():
        if x.k == "field" and x.extra[1] in ("format_version", "version"):
            return True
        if x.k == "arg" and x.extra[1] and "version" in x.extra[1]:
            return True
        if x.k == "local" and (body.local_name(x.extra) or "").endswith("version"):
            return True
    return False


def version_edges(ctx, inst, body, want_v3, floor=1):
    """edges of comparisons `version (<|>=) SEQ_TOKEN_MIN_VERSION` on which
    `version >= MIN` equals want_v3. Canonical roots are Lt(a, b)."""
    out = []
    n_sw = 0
    for s in A.switches(body):
        info = A.switch_info(body, s)
        r = info.root
        if r.k != "bin" or r.extra != "Lt":
            continue
        a, b = r.a
        if _is_version_expr(body, a) and b.has_const(name="SEQ_TOKEN_MIN_VERSION"):
            # Lt(version, MIN): true <=> version < MIN
            lt_true_means_old = True
        elif _is_version_expr(body, b) and a.has_const(name="SEQ_TOKEN_MIN_VERSION"):
            # Lt(MIN, version): version > MIN — not the documented predicate
            ctx.fail(inst, "PIN", body.path, "format version compared with `>` instead of `>=` SEQ_TOKEN_MIN_VERSION", body.where(s))
            continue
        else:
            continue
        n_sw += 1
        for l, v in info.edge_vals.items():
            if v is None:
                continue
            is_old = (v == "true")
            if want_v3 == (not is_old):
                out.append((s, l))
    if n_sw < floor:
        ctx.anchor_missing(inst, "%s: expected >= %d tests of `format_version >= SEQ_TOKEN_MIN_VERSION`, found %d" % (body.path, floor, n_sw), body.path)
    return out


def edge_targets(body, sw, label):
    return [s for (s, l) in body.nodes[sw].succ if l == label]


def no_continue_from(ctx, inst, body, sw, label, forbidden, what):
    """from a switch edge no `forbidden` node and no Ok return is reachable"""
    r, ps = A.reach(body, edge_targets(body, sw, label))
    bad = [x for x in list(forbidden) + A.ok_nodes(body) if x in r]
    ctx.check(not bad, inst, "GUARD", body.path, what, body.where(sw),
              None if not bad else {"witness": R.witness(body, ps, r.get(bad[0]))})


def err_edge_unreachable(ctx, inst, body, call_nodes, targets, what, repass=True):
    """from the Err edge of the calls' result none of `targets` is reachable
    (without re-passing the call when repass)"""
    edges = R.guard_edges_for_call(body, call_nodes, "Err")
    if not edges:
        ok_edges = R.guard_edges_for_call(body, call_nodes, "Ok")
        if not ok_edges:
            ctx.fail(inst, "GUARD", body.path, what + " (result is not branched on)", body.where(call_nodes[0]) if call_nodes else None)
            return
    for (sw, label) in edges:
        r, ps = A.reach(body, edge_targets(body, sw, label), blocked_nodes=set(call_nodes) if repass else set())
        bad = [t for t in targets if t in r]
        ctx.check(not bad, inst, "GUARD", body.path, what, body.where(sw),
                  None if not bad else {"witness": R.witness(body, ps, r.get(bad[0]))})


def names_of(body, e):
    """role names (rules/roles.py) of the locals / arguments an expression mentions; debug names only as a fallback"""
    from rules import roles
    out = set()
    for x in e.walk():
        if x.k == "local":
            nm = roles.name_of(body, x.extra)
            if nm:
                out.add(nm)
        if x.k == "arg":
            nm = roles.name_of(body, x.extra[0])
            if nm:
                out.add(nm)
    return out


def origin_names(body, e):
    from rules import roles
    out = set()
    for (k, l) in A.origins(body, e):
        if k in ("local", "arg"):
            nm = roles.name_of(body, l)
            if nm:
                out.add(nm)
    return out


def drop_impl(ctx, inst, type_suffix):
    bodies = [b for b in ctx.prog.product_bodies()
              if b.impl_trait and b.impl_trait.endswith("ops::Drop") and (b.impl_self or "").split("<")[0].endswith(type_suffix)]
    if len(bodies) != 1:
        ctx.anchor_missing(inst, "impl Drop for %s: %d bodies" % (type_suffix, len(bodies)))
        return None
    return bodies[0]


def closure_carriers(body, closure_body):
    """call nodes of `body` that receive the closure as an argument"""
    out = []
    tr = A.tracer(body)
    for n in body.calls():
        for a in n.ev["args"]:
            e = tr.operand(a)
            # passed directly (by value / by reference), not merely upstream in the data flow
            if e.k == "agg" and e.extra == closure_body.path:
                out.append(n.id)
    return out


def upvar_names(cbody, e):
    """names of captured variables an expression in a closure body reads"""
    out = set()
    ups = cbody.raw.get("upvars", [])
    for x in e.walk():
        if x.k == "field" and x.a and x.a[0].k == "arg" and x.a[0].extra[0] == 1:
            idx = x.extra[1]
            for u in ups:
                for p in u["pl"]["p"]:
                    if isinstance(p, dict) and "f" in p and str(p["f"]) == str(idx):
                        out.add(u["name"])
    return out


def expr_fields(e):
    return {(x.extra[0].rsplit("::", 1)[-1] if x.extra[0] else None, x.extra[1]) for x in e.walk() if x.k == "field" and x.extra[0] != None and "closure" not in str(x.extra[0])}


def closure_ret_cmp(cbody):
    """canonical comparison returned by a one-expression closure: {op: Lt|Eq,
    lhs_*/rhs_* descriptors}. None when the closure does not return a single comparison."""
    defs = cbody.defs.get(0, [])
    if len(defs) != 1:
        return None
    tr = A.tracer(cbody)
    e = tr.node_value(defs[0])
    neg = False
    while e.k == "un" and e.extra == "Not":
        neg = not neg
        e = e.a[0]
    if e.k != "bin" or e.extra not in ("Eq", "Ne", "Lt", "Le", "Gt", "Ge"):
        return None
    a, b = e.a
    op = e.extra
    if neg:
        op = {"Eq": "Ne", "Ne": "Eq", "Lt": "Ge", "Ge": "Lt", "Gt": "Le", "Le": "Gt"}[op]
    if op == "Gt":
        a, b, op = b, a, "Lt"
    elif op == "Ge":
        a, b, op = b, a, "Le"
    return {"op": op, "lhs_fields": expr_fields(a), "rhs_fields": expr_fields(b),
            "lhs_upvars": upvar_names(cbody, a), "rhs_upvars": upvar_names(cbody, b),
            "lhs": a.show(), "rhs": b.show(), "lhs_e": a, "rhs_e": b}



def range_indexed_iteration(body, e):
    """if `e` derives from iterating `base[lo..hi]`, return (base origin locals, lo expr, hi expr)"""
    tr = A.tracer(body)
    seen = set()
    work = [e]
    while work:
        x = work.pop()
        for y in x.walk():
            if y.k == "call" and ("Index" in y.extra and y.extra.endswith("::index")) and len(y.a) > 1:
                rg = y.a[1]
                if rg.k == "agg" and rg.extra and rg.extra.split("::")[-1] == "Range" and len(rg.a) == 2:
                    return (A.origins(body, y.a[0]), rg.a[0], rg.a[1])
            if y.k == "local" and y.extra not in seen:
                seen.add(y.extra)
                for d in body.defs.get(y.extra, []):
                    work.append(tr.node_value(d))
    return None


def check_scrub_release_clears_group(ctx, inst):
    """release_scrubbed_allocations: every allocation whose sectors were returned in one run gets its reservation
    marked clean and cleared (a requeued entry must not keep a reservation for sectors that are free again)"""
    b = ctx.fn("write_buffer::release_scrubbed_allocations", inst)
    if b is None:
        return
    rs = ctx.sites(b, R.call("FreeSpaceManager::release_sectors"), inst, exact=1)
    for nm in ("write_buffer::mark_reservation_clean", "write_buffer::clear_reserved_sector"):
        cs = ctx.sites(b, flag_op_sel("clean") if nm.endswith("mark_reservation_clean") else R.call(nm), inst, exact=1)
        for c in cs:
            e = R.arg_expr(b, b.nodes[c], 0)
            it = range_indexed_iteration(b, e)
            in_loop = False
            r, _ = A.reach(b, A.succs(b, c), sensitive=False)
            in_loop = c in r
            ctx.check(e.has_call("Iterator::next") and it is not None and in_loop, inst, "FOLLOW", b.path,
                      "%s is applied to every allocation of the released run (loop over ordered[group_start..group_end])" % nm.split("::")[-1], b.where(c),
                      {"expr": e.show()})
            if it is not None and rs:
                base, lo, hi = it
                start = R.arg_expr(b, b.nodes[rs[0]], 1)
                # the released run starts at ordered[lo].0 and ends where `hi` stopped accumulating
                lo_l = {x.extra for x in lo.walk() if x.k == "local"}
                hi_l = {x.extra for x in hi.walk() if x.k == "local"}
                start_idx = set()
                for y in start.walk():
                    if (y.k == "index" or (y.k == "call" and y.extra.endswith("::index"))) and len(y.a) > 1:
                        start_idx |= {z.extra for z in y.a[1].walk() if z.k == "local"}
                for (k, l) in A.origins(b, start):
                    pass
                # origins of the start argument's defining expression
                so = set()
                for y in start.walk():
                    if y.k == "local":
                        for d in b.defs.get(y.extra, []):
                            v = A.tracer(b).node_value(d)
                            for z in v.walk():
                                if (z.k == "index" or (z.k == "call" and z.extra.endswith("::index"))) and len(z.a) > 1:
                                    so |= {w.extra for w in z.a[1].walk() if w.k == "local"}
                ctx.check(bool(lo_l) and (lo_l <= (start_idx | so)), inst, "PROVENANCE", b.path,
                          "the cleared group starts at the allocation whose sector starts the released run", b.where(c),
                          {"range_lo": lo.show(), "release_start": start.show()})
                cnt = R.arg_expr(b, b.nodes[rs[0]], 2)
                # the released length accumulates while the upper bound advances: both are updated in the same inner loop
                hi_defs = [d for l in hi_l for d in b.defs.get(l, [])]
                ctx.check(len(hi_defs) >= 2, inst, "PROVENANCE", b.path, "the upper bound of the cleared group is the bound the run was extended to", b.where(c), {"range_hi": hi.show()})
        R.guard(ctx, inst, b, cs, R.guard_edges_for_call(b, rs, "Ok"), "%s only after the release succeeded" % nm.split("::")[-1])



RESTRICTING = ("Iterator::filter", "Iterator::filter_map", "Iterator::take", "Iterator::skip", "Iterator::step_by", "Iterator::take_while",
               "Iterator::skip_while", "Iterator::rev", "slice::chunks", "slice::split_at", "slice::first", "slice::last", "slice::get")


def whole_collection_loop(body, nid, arg_idx=0):
    """does the call at nid sit in a loop and receive an element obtained by iterating a *whole* collection
    (no index range, take/skip/filter, first/last)? returns (ok, names of the collection, detail)"""
    n = body.nodes[nid]
    e = R.arg_expr(body, n, arg_idx)
    r, _ = A.reach(body, A.succs(body, nid), sensitive=False)
    in_loop = nid in r
    if not e.has_call("Iterator::next"):
        return False, set(), "argument does not come from an iterator (%s)" % e.show()[:80]
    tr = A.tracer(body)
    seen = set()
    work = [e]
    calls = []
    names = set()
    while work:
        x = work.pop()
        for y in x.walk():
            if y.k == "call":
                calls.append(y.extra)
            if y.k == "index":
                calls.append("<index>")
            if y.k in ("local",):
                from rules import roles
                nm = roles.name_of(body, y.extra)
                if nm:
                    names.add(nm)
                if y.extra not in seen:
                    seen.add(y.extra)
                    for d in body.defs.get(y.extra, []):
                        work.append(tr.node_value(d))
            if y.k == "arg":
                from rules import roles
                nm = roles.name_of(body, y.extra[0])
                if nm:
                    names.add(nm)
    bad = [c for c in calls if any(path_matches(c, f) for f in RESTRICTING) or c == "<index>" or (c.endswith("::index") and "Index" in c)]
    return (in_loop and not bad), names, {"in_loop": in_loop, "restricted_by": bad}



def upvar_parent_exprs(prog, cbody):
    """for a closure body: the parent's expressions captured as upvars (index -> E in the parent's tracer)"""
    parent = prog.bodies.get(cbody.parent) if cbody.parent else None
    if parent is None:
        return None, {}
    for n in parent.nodes:
        if n.kind == "assign" and n.ev.get("rv") == "agg" and n.ev.get("agg") == "closure" and n.ev.get("def") == cbody.path:
            tr = A.tracer(parent)
            return parent, {i: tr.operand(o) for i, o in enumerate(n.ev["ops"])}
    return parent, {}


def closure_expr_parents(prog, cbody, e):
    """parent-side expressions of the captured variables an expression inside a closure reads"""
    parent, ups = upvar_parent_exprs(prog, cbody)
    out = []
    for x in e.walk():
        if x.k == "field" and x.a and x.a[0].k == "arg" and x.a[0].extra[0] == 1 and "closure" in str(x.extra[0]):
            try:
                i = int(x.extra[1])
            except ValueError:
                continue
            if i in ups:
                out.append(ups[i])
    return parent, out



def comparison_roots(body):
    """canonical comparison expressions of a body: switch roots (Lt / Eq after canonicalisation) plus comparisons that
    are only assigned (last operand of an && / || chain, closure return values). Returns list of (node id, E root, strict_sense)
    where for assigned comparisons the raw op is canonicalised the same way (Lt(a,b) / Eq)."""
    out = []
    root_nodes = set()
    for s_ in A.switches(body):
        info = A.switch_info(body, s_)
        r = info.root
        if r.k == "bin" and r.extra in ("Lt", "Eq"):
            out.append((s_, r, info))
            if r.nid is not None:
                root_nodes.add(r.nid)
            if info.raw.nid is not None:
                root_nodes.add(info.raw.nid)
    tr = A.tracer(body, transparent=False)
    for n in body.nodes:
        if n.kind == "assign" and n.ev.get("rv") == "bin" and n.ev["op"] in ("Lt", "Le", "Gt", "Ge", "Eq", "Ne") and n.id not in root_nodes:
            v = tr.node_value(n.id)
            a, b = v.a
            op = n.ev["op"]
            neg = False
            if op == "Ne":
                op, neg = "Eq", True
            elif op == "Ge":
                op, neg = "Lt", True
            elif op == "Gt":
                a, b, op = b, a, "Lt"
            elif op == "Le":
                a, b, op, neg = b, a, "Lt", True
            out.append((n.id, A.E("bin", [a, b], nid=n.id, extra=op), None))
    return out


def pin_comparisons(ctx, inst, body, table):
    """table: list of (op, lhs predicate, rhs predicate, description). Each row must match exactly one canonical
    comparison of the body (so `<=` vs `<` and swapped operands are distinguished)."""
    roots = [(nid, r, i, body) for (nid, r, i) in comparison_roots(body)]
    # a predicate moved into a thin private helper of the same file (an `ensure_*` / `check_*` extraction) is still this function's
    prog = body.prog
    for n in body.calls():
        for t in prog.targets(n.ev):
            tb = prog.bodies.get(t) if t else None
            if tb is not None and tb is not body and not tb.is_test and tb.file == body.file and (tb.raw.get("vis") or "Public") != "Public" and len(tb.nodes) <= 200:
                roots += [(nid, r, i, tb) for (nid, r, i) in comparison_roots(tb)]
    for (op, lp, rp, desc) in table:
        hits = [(nid, hb) for (nid, r, _, hb) in roots if r.extra == op and lp(r.a[0]) and rp(r.a[1])]
        own = [h for h in hits if h[1] is body]
        if own:
            hits = own      # helpers are consulted only for a predicate the function itself no longer contains
        elif any(hb is body and ((lp(r.a[0]) and rp(r.a[1])) or (lp(r.a[1]) and rp(r.a[0]))) for (_, r, _, hb) in roots):
            # the function still compares these two operands, but not in the pinned sense (`<=` for `<`, operands swapped): that
            # is the mutation this rule exists for, a helper that happens to hold the right form does not excuse it
            hits = []
        ctx.check(len(hits) == 1, inst, "PIN", body.path, desc + " (found %d)" % len(hits), hits[0][1].where(hits[0][0]) if hits else None,
                  None if len(hits) == 1 else {"comparisons": [r.extra + "(" + r.a[0].show()[:40] + ", " + r.a[1].show()[:40] + ")" for (_, r, _, _) in roots][:12]})



def check_scrub_release_extent_sum(ctx, inst):
    """release_scrubbed_allocations hands a run of adjacent failed allocations back as one range: the length released must
    be the sum of the *members'* own extent lengths (start = first member, every later member adds its own sectors_needed)"""
    from feoxlint import bounds as B
    b = ctx.fn("write_buffer::release_scrubbed_allocations", inst)
    if b is None:
        return
    rs = ctx.sites(b, R.call("FreeSpaceManager::release_sectors"), inst, exact=1)
    f = B.flow(b)
    for r in rs:
        n = b.nodes[r]
        start = f.operand(n.ev["args"][1], r)
        cnt = f.operand(n.ev["args"][2], r)
        while cnt.k == "cast":
            cnt = cnt.a[0]
        ok = cnt.k == "bin" and cnt.extra == "Sub" and cnt.a[0].k == "phi" and cnt.a[1].key() == start.key()
        ctx.check(ok, inst, "PROVENANCE", b.path, "the released length is (end of the run) - (start sector of the run)", b.where(r), {"count": cnt.show()[:120]})
        if not ok:
            continue
        phi = cnt.a[0]
        ent = f.phi(phi.key())
        ops = ent[1] if ent else []
        ctx.check(len(ops) == 2, inst, "anchor", b.path, "the run end has an initial value and one accumulation step", b.where(r))

        def elem_index(x):
            """(index expression, trailing field) of `ordered[i].1.sectors_needed`"""
            while x.k == "cast":
                x = x.a[0]
            if not (x.k == "field" and x.extra[1] == "sectors_needed"):
                return None
            for y in x.walk():
                if y.k == "call" and (y.extra.endswith("::index") or y.extra.endswith("::index_mut")) and len(y.a) == 2:
                    return y.a[1]
                if y.k == "index" and len(y.a) == 2:
                    return y.a[1]
            return None
        for o in ops:
            if not (o.k == "bin" and o.extra == "Add"):
                ctx.fail(inst, "PROVENANCE", b.path, "the run end is built by additions only", b.where(r), {"value": o.show()[:100]})
                continue
            if o.a[0].key() == phi.key() or o.a[1].key() == phi.key():
                x = o.a[1] if o.a[0].key() == phi.key() else o.a[0]
                ix = elem_index(x)
                cursor_ok = False
                if ix is not None and ix.k == "phi":
                    lc = ix.extra[0]
                    for d in b.defs.get(lc, []):
                        v = f.nodeval(d)
                        if v.k == "bin" and v.extra == "Add" and any(z.k == "phi" and z.extra[0] == lc for z in v.a) and any(B._const_val(z) == 1 for z in v.a):
                            cursor_ok = True
                ctx.check(cursor_ok, inst, "PROVENANCE", b.path, "each further member of a run adds its own extent length (indexed by the advancing cursor)", b.where(r),
                          {"addend": x.show()[:120]})
            else:
                base, x = (o.a[0], o.a[1])
                ix = elem_index(x)
                six = None
                for y in start.walk():
                    if y.k == "call" and y.extra.endswith("::index") and len(y.a) == 2:
                        six = y.a[1]
                ctx.check(base.key() == start.key() and ix is not None and six is not None and ix.key() == six.key(), inst, "PROVENANCE", b.path,
                          "the run starts as (first member's sector) + (first member's extent length)", b.where(r), {"init": o.show()[:120]})


def check_recovery_release_len(ctx, inst):
    """recovery gives an *owned* extent (one whose start is a Record.sector load) back to the free-space manager with the
    length of that very generation: count = ceil(RecordFormat::total_size(len(G.key), G.value_len) / BLOCK) where G is the record
    whose sector is released. A length taken from another generation (the winner that displaced it, the record being scanned)
    frees blocks behind the extent that belong to a neighbour: nothing is damaged at once, the next allocation overwrites an
    acknowledged record."""
    n_sites = 0
    for fn in ("FeoxStore::scan_and_rebuild_indexes", "FeoxStore::remove_expired_recovery_winners"):
        b = ctx.fn(fn, inst)
        if b is None:
            continue
        for n in b.calls():
            if not R.call_matches(n.ev, "FreeSpaceManager::release_sectors"):
                continue
            start = R.arg_expr(b, n, 1)
            count = R.arg_expr(b, n, 2)
            def bases(e, field):
                return {x.a[0].key() for x in e.walk() if x.k == "field" and x.a and x.extra[1] == field and (x.extra[0] or "").endswith("Record")}
            sb = bases(start, "sector")
            if not sb:
                continue        # a gap release (start is the scan cursor): C05.recovery-gaps
            n_sites += 1
            ts = [c for c in count.walk() if c.k == "call" and path_matches(c.extra, "RecordFormat::total_size")]
            shape = len(ts) == 1 and count.has_call("div_ceil") and not any(x.k == "bin" for x in count.walk())
            ctx.check(shape, inst, "PROVENANCE", b.path, "an owned extent is released with ceil(RecordFormat::total_size / BLOCK) blocks, nothing added or subtracted",
                      b.where(n.id), {"count": count.show()[:160]})
            if shape:
                kb, vb = bases(ts[0].a[1], "key"), bases(ts[0].a[2], "value_len")
                same = len(sb) == 1 and kb == sb and vb == sb
                ctx.check(same, inst, "PROVENANCE", b.path, "start and length of a released extent describe the same generation (sector, key and value_len of one record)",
                          b.where(n.id), {"start": start.show()[:120], "count": count.show()[:160]})
    ctx.check(n_sites >= 2, inst, "anchor", "-", "owned-extent releases in recovery (>= 2, found %d)" % n_sites, None)


def locate_call(prog, body, name, depth=0):
    """(body', sites): the body that *directly* calls `name` when starting from `body` - `body` itself, or the one product
    helper (followed up to two levels) through which it reaches `name`. Lets a rule about "the place where X is called" survive
    the extraction of that place into a helper."""
    sites = [n.id for n in body.calls() if R.call_matches(n.ev, name)]
    if sites or depth > 2:
        return body, sites
    via = []
    for n in body.calls():
        for t in prog.targets(n.ev):
            if t and t in prog.bodies and t != body.path and (path_matches(t, name) or prog.reaches_name(t, name)):
                via.append(t)
    via = sorted(set(via))
    if len(via) == 1:
        return locate_call(prog, prog.bodies[via[0]], name, depth + 1)
    return body, []


def check_requeue_whole(ctx, inst):
    """a write entry taken out of the buffer leaves the flusher in one of two ways: published (C02.order: the publication loop
    covers all of prepared_writes) or requeued. On every failure path of a record batch the *whole* of prepared_writes is
    handed back: `prepared_writes.drain(..)` into the retry list, and the allocation clean-up sees the whole vector. An entry
    that is dropped instead is written never; when it replaces a durable generation, that generation's retirement has already
    been queued and now waits for a successor that will never become durable: every later flush() spins."""
    n_dr = 0
    for fn in ("write_buffer::process_write_batch", "write_buffer::failed_batch_outcome"):
        b = ctx.fn(fn, inst)
        if b is None:
            continue
        def on_pw(e):
            nm = names_of(b, e) | origin_names(b, e)
            return "prepared_writes" in nm or any(x.k == "arg" and x.extra[1] == "prepared_writes" for x in e.walk())
        for n in b.calls():
            if R.call_matches(n.ev, "Vec::drain") and on_pw(R.arg_expr(b, n, 0)):
                n_dr += 1
                a = R.arg_expr(b, n, 1)
                ctx.check(a.k == "agg" and str(a.extra).endswith("RangeFull"), inst, "PIN", b.path,
                          "prepared_writes is drained as a whole (`drain(..)`): no prepared write is left behind or dropped", b.where(n.id), {"range": a.show()[:60]})
                # the drained entries go to the retry list
                users = [m for m in b.calls() if R.call_matches(m.ev, "Extend::extend") and any(c.nid == n.id for c in R.arg_expr(b, m, 1).calls())]
                ok = any("retry_entries" in (names_of(b, R.arg_expr(b, m, 0)) | origin_names(b, R.arg_expr(b, m, 0))) or
                         any(x.k == "arg" and x.extra[1] == "retry_entries" for x in R.arg_expr(b, m, 0).walk()) for m in users)
                ctx.check(ok, inst, "PROVENANCE", b.path, "the drained prepared writes are appended to the retry list", b.where(n.id))
            if any(R.call_matches(n.ev, c) for c in ("write_buffer::release_allocations", "write_buffer::cleanup_failed_allocations", "write_buffer::quarantine_allocations",
                                                      "write_buffer::failed_batch_outcome")):
                for i, _a in enumerate(n.ev["args"]):
                    e = R.arg_expr(b, n, i)
                    if on_pw(e) and i <= 3 and not e.has_call("Iterator::map"):
                        sliced = any(x.k == "call" and (path_matches(x.extra, "Index::index") or path_matches(x.extra, "IndexMut::index_mut") or
                                                        path_matches(x.extra, "slice::get") or path_matches(x.extra, "split_at")) for x in e.walk())
                        ctx.check(not sliced, inst, "PIN", b.path, "the failure clean-up is handed all of prepared_writes, not a sub-slice", b.where(n.id), {"arg": e.show()[:80]})
    ctx.check(n_dr >= 2, inst, "anchor", "-", "drains of prepared_writes on failure paths (>= 2, found %d)" % n_dr, None)
    b = ctx.fn("write_buffer::process_write_batch", inst)
    if b is not None:
        al = [n.id for n in b.calls() if R.call_matches(n.ev, "FreeSpaceManager::allocate_sectors")]
        dr = [n.id for n in b.calls() if R.call_matches(n.ev, "Vec::drain") and "prepared_writes" in (names_of(b, R.arg_expr(b, n, 0)) | origin_names(b, R.arg_expr(b, n, 0)))]
        for (sw, l) in R.guard_edges_for_call(b, al, "Err"):
            r, ps = A.reach(b, edge_targets(b, sw, l), blocked_nodes=set(dr))
            bad = [x for x in b.return_nodes() if x in r]
            ctx.check(not bad, inst, "FOLLOW", b.path, "an allocation failure requeues the batch (drain of prepared_writes) before it returns", b.where(sw))


def pending_queue_ops(body, names=("Extend::extend",)):
    """call sites of `names` whose receiver is RetirementQueue.pending itself: through the field, or through a (possibly named)
    guard obtained from `pending.lock()`"""
    locks = [m.id for m in body.calls() if R.call_matches(m.ev, "Mutex::lock") and R.recv_expr(body, m).has_field("RetirementQueue", "pending")]
    out = []
    for n in body.calls():
        if not any(R.call_matches(n.ev, x) for x in names) or not n.ev["args"]:
            continue
        e = R.arg_expr(body, n, 0)
        if e.has_field("RetirementQueue", "pending") or any(("call", l) in A.origins(body, e) for l in locks):
            out.append(n.id)
    return out


def check_forwarder(ctx, inst, fn, callee, mapping, what):
    """a thin helper hands its own parameters on: in `fn`, the single call of `callee` receives parameter `p` of fn at argument
    position `a` for every (p, a) in mapping (no other value, no arithmetic). A helper that forwards the wrong one of two
    like-typed parameters type-checks and is invisible at every call site rule."""
    b = ctx.fn(fn, inst)
    if b is None:
        return
    sites = ctx.sites(b, R.call(callee), inst, exact=1)
    for s_ in sites:
        for (p, a) in mapping:
            e = R.arg_expr(b, b.nodes[s_], a)
            while e.k == "call" and e.a and any(path_matches(e.extra, t) for t in ("TreeSlot::new", "Arc::new", "Some")):
                e = e.a[0]
            ok = e.k == "arg" and e.extra[0] == p
            ctx.check(ok, inst, "PROVENANCE", b.path, "%s: parameter %d (%s) is what reaches %s" % (what, p - 1, b.local_name(p), callee.rsplit("::", 1)[-1]),
                      b.where(s_), {"arg": e.show()[:80]})


def check_handoff(ctx, inst):
    """(added after C05-i / C19-e) every accepted mutation of a persistent store is handed to the write buffer, and a replacement
    is handed over *together with the generation it replaced* (add_replacement), whatever the state of the records involved.
    Whether the old generation owns an extent is decided by the flusher at retirement time, under its own ordering; a test of
    `record.sector` (or any other field of the record) at enqueue time races with a write of that record that is already in
    flight: the generation then reaches the device with no Delete entry anywhere, is never retired (leaked extent, a stale
    generation on the device) or - for a delete - never becomes durable.
    Shape: from each publication / removal site, take the switches that *decide* whether a normal exit is reached without the
    hand-off call (some edge can skip it, some edge cannot). Each of them tests store configuration only (memory_only, the
    write_buffer option, values derived from them); a path that skips the hand-off with no such decider at all is reported too."""
    from rules import storevocab as S
    sites = []
    for (b, n, kind) in S.pub_sites(ctx, inst, kinds=("new", "repl", "rem")):
        if path_matches_any(b.path, ("FeoxStore::remove_expired_recovery_winners",)):
            continue        # recovery retires expired winners itself (journalled), there is no write buffer yet
        sites.append((b, n, kind))
    ub = ctx.fn(S.UPDATE_TTL, inst)
    if ub is not None:
        for n in ctx.sites(ub, R.call("HashMap::update").filter(lambda bb, nn: R.recv_expr(bb, nn).has_field("FeoxStore", "hash_table"), "hash_table.update"), inst, exact=1):
            sites.append((ub, n, "ttl"))
    ctx.check(len(sites) >= 12, inst, "anchor", "-", "publication / removal sites with a hand-off (>= 12, found %d)" % len(sites), None)
    for (b, m, kind) in sites:
        want = ("WriteBuffer::add_replacement",) if kind in ("repl", "ttl") else ("WriteBuffer::add_write", "WriteBuffer::add_replacement")
        # the hand-off call itself, or a thin private helper that makes it (`finish_replacement(key, new, old)`)
        H = set(R.call_or_thin_helper(*want)(b))
        ctx.check(bool(H), inst, "anchor", b.path, "the %s site is followed by a hand-off call (%s)" % (kind, " / ".join(w.rsplit("::", 1)[-1] for w in want)), b.where(m))
        if not H:
            continue
        errs = set(A.error_nodes(b))
        blocked = H | errs
        rets = set(b.return_nodes())

        def is_cfg(root):
            cfg = root.has_field("FeoxStore", "memory_only") or root.has_field("FeoxStore", "write_buffer") or root.has_call("FeoxStore::get_write_buffer")
            rec = any(x.k == "field" and isinstance(x.extra, tuple) and str(x.extra[0] or "").endswith("Record") for x in root.walk())
            # a closure inside the test (`.filter(|_| !self.memory_only)`) may capture the store only
            for x in root.walk():
                if x.k == "agg" and "{closure" in str(x.extra):
                    for cap in x.a:
                        if not all(y.k in ("arg", "field", "ref", "deref", "proj") and (y.k != "arg" or y.extra[0] == 1) for y in cap.walk()):
                            rec = True
            return cfg and not rec

        def deciders_of(r, bedges):
            """switches that can take the hand-off away: one edge can still reach it, another can only reach a normal exit without it"""
            out = []
            for s_ in A.switches(b):
                if s_ not in r:
                    continue
                info = A.switch_info(b, s_)
                hand, pure_skip = [], []
                for lab in {l for (_, l) in b.nodes[s_].succ}:
                    if (s_, lab) in bedges:
                        continue
                    tg = edge_targets(b, s_, lab)
                    # the hand-off of *this* mutation: a way that passes the mutation site again (next loop iteration) is a new one
                    r2, _ = A.reach(b, tg, blocked_nodes=errs | {m}, blocked_edges=frozenset(bedges))
                    can_hand = any(h in r2 or h in tg for h in H)
                    r3, _ = A.reach(b, tg, blocked_nodes=blocked, blocked_edges=frozenset(bedges))
                    can_skip = any(x in r3 or x in tg for x in rets)
                    if can_hand:
                        hand.append(lab)
                    elif can_skip:
                        pure_skip.append(lab)
                if hand and pure_skip:
                    out.append((s_, info, pure_skip))
            return out

        bedges = set()
        r, ps = A.reach(b, A.succs(b, m), blocked_nodes=blocked)
        rounds = 0
        bad = []
        while any(x in r for x in rets) and rounds < 8:
            rounds += 1
            ds = deciders_of(r, bedges)
            cfgs = [(s_, info, sk) for (s_, info, sk) in ds if is_cfg(info.root)]
            if not cfgs:
                bad = ds
                break
            for (s_, info, sk) in cfgs:     # a configuration test may skip the hand-off (memory-only store, no write buffer)
                bedges |= {(s_, l) for l in sk}
            r, ps = A.reach(b, A.succs(b, m), blocked_nodes=blocked, blocked_edges=frozenset(bedges))
        still = [x for x in rets if x in r]
        if not still:
            ctx.ok(inst, "FOLLOW", b.path, "every way from the %s site to a normal exit passes the hand-off, except where store configuration says there is no device" % kind, b.where(m))
            continue
        what = ("whether an accepted %s is handed to the write buffer%s depends on store configuration only, never on the state of a record"
                % ({"new": "insert", "repl": "replacement", "ttl": "TTL change", "rem": "removal"}[kind], " with the generation it replaced" if kind in ("repl", "ttl") else ""))
        if not bad:
            ctx.fail(inst, "FOLLOW", b.path, what + " (a normal exit is reachable without the hand-off and no test decides it)", b.where(m),
                     {"witness": R.witness(b, ps, r.get(still[0]))})
        for (s_, info, sk) in bad:
            ctx.fail(inst, "GUARD", b.path, what, b.where(s_), {"tested": info.root.show()[:160], "witness": R.witness(b, ps, r.get(still[0]))})


def path_matches_any(path, names):
    from feoxlint.model import path_matches
    return any(path_matches(path, n) for n in names)


FLAG_OPS = {   # reservation flag operations on WriteEntry.work_status: helper, atomic op, flag constant, mask negated, reviewed inline sites
    "clean": ("write_buffer::mark_reservation_clean", "fetch_and", "RESERVATION_DIRTY", True, ("write_buffer::release_scrubbed_allocations",)),
    "dirty": ("write_buffer::mark_reservation_dirty", "fetch_or", "RESERVATION_DIRTY", False, ("write_buffer::process_write_batch",)),
    "quarantine": ("write_buffer::quarantine_reservation", "fetch_or", "RESERVATION_QUARANTINED", False, ("write_buffer::quarantine_allocations",)),
}


def flag_mask_ok(v, const, neg):
    if neg:
        return v.k == "un" and v.extra == "Not" and v.a[0].k == "const" and v.a[0].has_const(name=const)
    return v.k == "const" and v.has_const(name=const)


def flag_op_sel(kind):
    """the place where a reservation flag is changed: the one-line helper, or the same single-flag read-modify-write written out
    (a helper inlined into its only caller is the same operation)"""
    helper, op, const, neg, _ = FLAG_OPS[kind]
    inline = R.field_write("WriteEntry", "work_status", ops=[op]).filter(lambda bb, n: flag_mask_ok(R.arg_expr(bb, n, 1), const, neg), "%s(%s%s)" % (op, "!" if neg else "", const))
    return R.call(helper) | inline
