"""C08 — reads racing with flush, retirement and reuse return only genuine values.
Decided: pin-before-read, verify-after-read, retire-waits-for-readers, publish-then-clear."""
from feoxlint import analysis as A
from feoxlint import locks as L
from feoxlint import rulekit as R
from feoxlint import vocab as V
from feoxlint.model import path_matches, call_matches
from rules.common import edge_targets, origin_names, names_of, drop_impl

EXPLANATION = """
The reader/retirement protocol as path facts: in both disk readers (load_value_from_disk, prepare_deferred_record_data)
the extent pin (Record::acquire_extent, Some edge) dominates the load of Record.sector whose value is the sector passed
to read_sectors_sync, the pin is still held at the pread, and the bytes are used / an Ok is returned only on the true
edge of sector_holds_record(data, source) for the very record that was pinned; acquire_extent increments the reader
count only when the retired bit is clear and via compare-exchange; the guard's Drop decrements; retirement sets the
retired bit before counting readers and neither writes markers nor releases space while readers are present (two
checks); the flusher publishes record.sector before dropping the in-memory value of the same record; a stale extent makes
resolve_record_value answer `None` (re-resolve) and resolve_value retries a bounded number of times from a fresh index
read; only the reviewed functions call read_sectors_sync. Not decided: which value a racing read returns.
"""
DECIDED = ['cache entries are selected only by key equality AND pointer identity of the generation (shared with C16.match)', 'blocks handed back to the allocator do not stay reserved by the entry that held them (shared with C09.contain/release_allocations, scrub-release)', 'retirement marks and frees exactly the blocks the generation was allocated (shared with C05.len)', "pin -> load sector -> pread under the pin -> identity check before use", "reader count protocol (retired bit, CAS, Drop)",
           "retirement waits for readers", "publish sector before clearing the value", "stale reads re-resolve, bounded",
           "a range scan re-resolves a stale handle by the entry's own key and from the entry's own slot",
           'acquire_extent tests the retired bit on the value each compare-exchange attempt is based on; no refusal after an installed change of the reader count']
NOT_DECIDED = ["which generation's value a racing read returns (schedule-level)"]
ASSUMPTIONS = ["ExtentReadGuard borrows the record's extent_state (lifetime witness in the thorough tier / C20)"]


def check_reader_count(ctx, inst):
    """the reader count of an extent is balanced: it is incremented only by acquire_extent, only while the retired bit is
    clear, every installed increment hands out a guard, a refused acquire leaves the count untouched, and dropping the guard
    takes exactly one reader off. (C08: retirement waits for exactly the readers inside the extent; C18: a count that can only
    go up - a phantom reader - makes retirement, and with it flush(), wait forever.)"""
    b = ctx.fn("Record::acquire_extent", inst)
    if b is not None:
        cas = ctx.sites(b, R.call("Atomic::compare_exchange_weak", "Atomic::compare_exchange"), inst, exact=1)
        def retired(e):
            return e.k == "bin" and e.extra == "Eq" and any(x.k == "bin" and x.extra == "BitAnd" for x in e.walk()) and e.has_const(name="EXTENT_RETIRED")
        sws = A.pred_switches(b, retired)
        ctx.check(len(sws) == 1, inst, "PIN", b.path, "the retired bit is tested", None)
        # canonical Eq(state & RETIRED, 0): true => not retired
        R.guard(ctx, inst, b, cas, A.pred_edges(b, retired, "true"), "the reader count is incremented only while the retired bit is clear")
        somes = [n.id for n in b.nodes if n.kind == "assign" and not n.ev["dst"]["p"] and n.ev["dst"]["l"] == 0 and n.ev["rv"] == "agg" and n.ev.get("var") == "Some"]
        R.guard(ctx, inst, b, somes, R.guard_edges_for_call(b, cas, "Ok"), "a guard is handed out only after the increment was installed")
        for c in cas:
            new = R.arg_expr(b, b.nodes[c], 2)
            ctx.check(new.k == "bin" and new.extra == "Add" and new.has_const(val=1), inst, "PIN", b.path, "the increment is +1 on the observed state", b.where(c), {"expr": new.show()})
            ctx.check(R.recv_expr(b, b.nodes[c]).has_field("Record", "extent_state"), inst, "PIN", b.path, "on Record.extent_state", b.where(c))
        for (sw, l) in A.pred_edges(b, retired, "false"):
            r, ps = A.reach(b, edge_targets(b, sw, l))
            ctx.check(not any(x in r for x in cas + somes), inst, "GUARD", b.path, "a retired extent yields None without touching the count", b.where(sw))
        # whatever the primitive: an unconditional read-modify-write of the state is an installed increment, and no refusal
        # (None) may follow it - the caller gets no guard, so nobody would ever take that reader off again
        nones = [n.id for n in b.nodes if n.kind == "assign" and not n.ev["dst"]["p"] and n.ev["dst"]["l"] == 0 and n.ev["rv"] == "agg" and n.ev.get("var") == "None"]
        for n in b.calls():
            if any(call_matches(n.ev, "Atomic::" + op) for op in ("fetch_add", "fetch_or", "fetch_and", "fetch_sub", "fetch_xor", "swap", "store", "fetch_update")) and \
                    R.recv_expr(b, n).has_field("Record", "extent_state"):
                r, ps = A.reach(b, A.succs(b, n.id))
                bad = [x for x in nones if x in r]
                ctx.check(not bad, inst, "GUARD", b.path, "a change installed in the reader count is never followed by a refusal (the caller would get no guard to undo it)", b.where(n.id))
    b = drop_impl(ctx, inst, "ExtentReadGuard")
    if b is not None:
        fs = ctx.sites(b, R.call("Atomic::fetch_sub"), inst, exact=1)
        R.dom(ctx, inst, b, fs, b.return_nodes(), "dropping the guard always releases the pin", a_desc="fetch_sub(1)")
        for f in fs:
            a = b.nodes[f].ev["args"][1]
            ctx.check(a.get("k") == "const" and a.get("val") == 1, inst, "PIN", b.path, "by exactly one", b.where(f))


def check_pin(ctx, inst="C08.pin"):
    g = L.lock_graph(ctx.prog)
    for fn in ("FeoxStore::load_value_from_disk", "write_buffer::prepare_deferred_record_data"):
        b = ctx.fn(fn, inst)
        if b is None:
            continue
        aq = ctx.sites(b, R.call("Record::acquire_extent"), inst, exact=1)
        rs = ctx.sites(b, R.call("DiskIO::read_sectors_sync"), inst, exact=1)
        sh = ctx.sites(b, R.call("format::sector_holds_record"), inst, exact=1)
        if not (aq and rs and sh):
            continue
        # the sector passed to the pread is a load of Record.sector made after the pin
        sec = R.arg_expr(b, b.nodes[rs[0]], 1, transparent=False)
        loads = [c for c in sec.walk() if c.k == "call" and path_matches(c.extra, "Atomic::load")]
        ctx.check(len(loads) == 1 and sec.k == "call" and sec.has_field("Record", "sector"), inst, "PROVENANCE", b.path,
                  "the sector read is a load of Record.sector", b.where(rs[0]), {"expr": sec.show()})
        for ld in loads:
            R.dom(ctx, inst, b, aq, [ld.nid], "the extent is pinned before the sector number is loaded", a_desc="acquire_extent")
            R.guard(ctx, inst, b, [ld.nid], A.pred_edges(b, lambda e: e.k == "call" and e.nid in aq, "Some") + A.pred_edges(b, lambda e: e.k == "call" and e.nid in aq, "Ok"),
                    "and only when the pin was granted (extent not retired)")
        bl = g.bl[b.path]
        held = bl.must_classes(rs[0])
        ctx.check("PIN_extent" in held, inst, "HELD", b.path, "the pin is still held during the pread", b.where(rs[0]), {"held": sorted(held)})
        # same record: pin, sector load and identity check all talk about `source`
        rec_pin = R.recv_expr(b, b.nodes[aq[0]])
        rec_chk = R.arg_expr(b, b.nodes[sh[0]], 1)
        rec_sec = loads[0].a[0] if loads and loads[0].a else None
        k1 = origin_names(b, rec_pin) | names_of(b, rec_pin)
        k2 = origin_names(b, rec_chk) | names_of(b, rec_chk)
        k3 = (origin_names(b, rec_sec) | names_of(b, rec_sec)) if rec_sec is not None else set()
        ctx.check("source" in k1 and "source" in k2 and "source" in k3, inst, "PROVENANCE", b.path,
                  "pin, sector load and identity check refer to the same record", b.where(sh[0]), {"pin": sorted(k1), "sector": sorted(k3), "check": sorted(k2)})
        dat = R.arg_expr(b, b.nodes[sh[0]], 0)
        ctx.check(any(c.nid in rs for c in dat.calls()) or ("data" in names_of(b, dat) | origin_names(b, dat)), inst, "PROVENANCE", b.path, "the bytes checked are the bytes just read", b.where(sh[0]))
        # Ok(bytes) only on the true edge of the identity check
        oks = A.ok_nodes(b)
        post = [o for o in oks if _after(b, rs[0], o)]
        ctx.check(len(post) >= 1, inst, "anchor", b.path, "an Ok return after the pread", None)
        R.guard(ctx, inst, b, post, R.guard_edges_for_call(b, sh, "true"), "disk bytes are returned only if they still hold this record")
        for (sw, l) in R.guard_edges_for_call(b, sh, "false"):
            r, ps = A.reach(b, edge_targets(b, sw, l))
            ctx.check(not any(o in r for o in oks), inst, "GUARD", b.path, "a failed identity check never returns bytes", b.where(sw))
            errs = [e for e in A.error_nodes(b) if e in r]
            stale = any(_is_err(b, e, "StaleExtent") for e in errs)
            ctx.check(stale, inst, "PIN", b.path, "a failed identity check reports StaleExtent", b.where(sw))
        # the extent length read is the format's extent length of that record (C05.len sibling)
    check_reader_count(ctx, inst)
    b = ctx.fn("Record::retire_extent", inst)
    if b is not None:
        fo = ctx.sites(b, R.call("Atomic::fetch_or"), inst, exact=1)
        for f in fo:
            ctx.check(A.tracer(b).operand(b.nodes[f].ev["args"][1]).has_const(name="EXTENT_RETIRED") and R.recv_expr(b, b.nodes[f]).has_field("Record", "extent_state"), inst, "PIN", b.path, "retire_extent sets EXTENT_RETIRED on extent_state", b.where(f))
    b = ctx.fn("Record::extent_has_readers", inst)
    if b is not None:
        v = A.tracer(b).node_value(b.defs[0][0]) if len(b.defs.get(0, [])) == 1 else None
        ok = v is not None and v.has_const(name="EXTENT_READERS") and v.has_field("Record", "extent_state") and v.k == "bin" and v.extra == "Ne"
        ctx.check(ok, inst, "PIN", b.path, "readers present <=> extent_state & EXTENT_READERS != 0", None, {"expr": v.show() if v else None})
    ex = ctx.prog.const("record::EXTENT_RETIRED") if ctx.prog.consts else None
    er = ctx.prog.const("record::EXTENT_READERS")
    ctx.check(ex and er and ex.get("val") == 1 << 31 and er.get("val") == (1 << 31) - 1, inst, "PIN", "core::record", "retired bit and reader mask partition the word", None)
    R.fieldw_within(ctx, inst + "/state-writers", "Record", "extent_state",
                    ["Record::new", "Record::new_from_bytes", "Record::new_deferred_with_ttl", "Record::acquire_extent", "Record::retire_extent"], floor=3)   # acquire + retire + at least one constructor
    R.callers_within(ctx, inst + "/readers", "DiskIO::read_sectors_sync",
                     ["FeoxStore::load_value_from_disk", "write_buffer::prepare_deferred_record_data", "RecoveryScanner::fill_at",
                      "DiskIO::read_allocation_journal", "DiskIO::read_metadata"], floor=5)
    R.callers_within(ctx, inst + "/readers", "Record::acquire_extent", ["FeoxStore::load_value_from_disk", "write_buffer::prepare_deferred_record_data"], floor=2)


def _after(body, a, b):
    r, _ = A.reach(body, A.succs(body, a), sensitive=False)
    return b in r


def _is_err(body, err_nid, name):
    n = body.nodes[err_nid]
    if n.kind != "assign":
        return False
    v = A.tracer(body).operand(n.ev["ops"][0])
    return v.k == "agg" and (v.extra or "").endswith("FeoxError::" + name)


def check_retire(ctx):
    inst = "C08.retire"
    b = ctx.fn("write_buffer::process_deletions", inst)
    if b is None:
        return
    rt = ctx.sites(b, R.call("Record::retire_extent"), inst, exact=1)
    hr = ctx.sites(b, R.call("Record::extent_has_readers"), inst, exact=2)
    re_ = ctx.sites(b, R.call("DiskIO::retire_extents"), inst, exact=1)
    rel = ctx.sites(b, R.call("write_buffer::release_retirement_group"), inst, floor=2)
    if hr:
        R.dom(ctx, inst, b, rt, [min(hr)], "the retired bit is set before readers are counted (no new reader can slip in)", a_desc="retire_extent")
    # an extent with readers is neither overwritten with markers nor released: both go back to `retries`
    for h in hr:
        for (sw, l) in R.guard_edges_for_call(b, [h], "true"):
            r, ps = A.reach(b, edge_targets(b, sw, l), blocked_nodes=set(R.call("Iterator::next")(b)))
            pushes = [n for n in r if b.nodes[n].kind == "call" and call_matches(b.nodes[n].ev, "Vec::push")]
            names = set()
            for p in pushes:
                names |= names_of(b, R.recv_expr(b, b.nodes[p]))
            ctx.check(names == {"retries"}, inst, "GUARD", b.path, "an extent that still has readers is only requeued", b.where(sw), {"pushed_to": sorted(names)})
    # same record: retire_extent / extent_has_readers / the extent queued belong to the same entry
    if rt and hr:
        a = R.recv_expr(b, b.nodes[rt[0]])
        c = R.recv_expr(b, b.nodes[min(hr)])
        ctx.check(a.key() == c.key() and a.has_field("WriteEntry", "record"), inst, "PROVENANCE", b.path, "retired bit and reader count are taken on the same entry's record", b.where(rt[0]),
                  {"retire": a.show(), "readers": c.show()})


def check_publish(ctx):
    inst = "C08.publish"
    b = ctx.fn("write_buffer::process_write_batch", inst)
    if b is None:
        return
    st = ctx.sites(b, R.field_write("Record", "sector"), inst, exact=1)
    cv = ctx.sites(b, R.call("Record::clear_value"), inst, exact=1)
    R.dom(ctx, inst, b, st, cv, "a value leaves memory only after its disk location is visible", a_desc="record.sector.store")
    if st and cv:
        a = R.recv_expr(b, b.nodes[st[0]])
        c = R.recv_expr(b, b.nodes[cv[0]])
        base_a = [x for x in a.walk() if x.k == "field" and x.extra[1] == "record"]
        base_c = [x for x in c.walk() if x.k == "field" and x.extra[1] == "record"]
        ctx.check(bool(base_a) and bool(base_c) and base_a[0].key() == base_c[0].key(), inst, "PROVENANCE", b.path,
                  "the record whose sector is published is the record whose value is cleared", b.where(cv[0]), {"store": a.show(), "clear": c.show()})
        # no other clear_value in the flusher
    R.callers_within(ctx, inst, "Record::clear_value", ["write_buffer::process_write_batch", "FeoxStore::scan_and_rebuild_indexes"], floor=2)
    b = ctx.fn("Record::clear_value", inst)
    if b is not None:
        w = ctx.sites(b, R.call("RwLock::write"), inst, exact=1)


def check_stale(ctx):
    inst = "C08.stale"
    b = ctx.fn("FeoxStore::resolve_record_value", inst)
    if b is not None:
        ld = ctx.sites(b, R.call("FeoxStore::load_value_from_disk"), inst, exact=1)
        keys = A.call_roots(b, ld)

        def payload(e):
            x = e
            d = 0
            while x.k in ("field", "downcast") and x.a and d < 6:
                x = x.a[0]
                d += 1
            return d > 0 and x.key() in keys
        edges = A.pred_edges(b, payload, "StaleExtent")
        ctx.check(len(edges) >= 1, inst, "GUARD", b.path, "StaleExtent from the disk tier is distinguished", None)
        nones = [n.id for n in b.nodes if n.kind == "assign" and n.ev.get("rv") == "agg" and n.ev.get("var") == "None" and (n.ev.get("adt") or "").endswith("Option")]
        for (sw, l) in edges:
            r, ps = A.reach(b, edge_targets(b, sw, l))
            ctx.check(any(x in r for x in nones) and not any(e in r for e in A.error_nodes(b)), inst, "GUARD", b.path,
                      "a stale extent asks the caller to re-resolve (Ok(None)) instead of failing or returning bytes", b.where(sw))
    b = ctx.fn("FeoxStore::resolve_value", inst)
    if b is not None:
        rr = ctx.sites(b, R.call("FeoxStore::resolve_record_value"), inst, exact=1)
        rd = ctx.sites(b, R.call("HashMap::read"), inst, exact=1)
        # re-resolution re-reads the index
        none_e = A.pred_edges(b, lambda e: e.k == "field" and any(c.nid in rr for c in e.calls()) or (e.k == "call" and e.nid in rr), "None")
        lim = [n for n in b.nodes if n.kind == "assign" and n.ev.get("rv") == "agg" and "Range" in (n.ev.get("adt") or "")]
        tr = A.tracer(b)
        ctx.check(any(tr.node_value(n.id).has_const(name="STALE_READ_RETRY_LIMIT") for n in lim), inst, "PIN", b.path, "stale re-reads are bounded by STALE_READ_RETRY_LIMIT", None)
        R.follow(ctx, inst, b, rd, rr, "a re-read of the index is followed by a new resolution (or the bounded exit)", exits=[o for o in A.ok_nodes(b)], b_desc="resolve_record_value")
        # Ok((value, hit, record)): the record returned is the one the value was resolved from
        for o in A.ok_nodes(b):
            v = A.tracer(b).operand(b.nodes[o].ev["ops"][0])
            if v.k == "agg" and len(v.a) == 3:
                rec = v.a[2]
                arg = R.arg_expr(b, b.nodes[rr[0]], 2) if rr else None
                ctx.check(arg is not None and (origin_names(b, rec) | names_of(b, rec)) & (origin_names(b, arg) | names_of(b, arg)), inst, "PROVENANCE", b.path,
                          "resolve_value returns the generation the value was resolved from (`source`)", b.where(o))


def check_successor(ctx):
    """an extent may be retired (marked, released, reused) only when no generation still reads through it: deferred TTL
    generations borrow the bytes of the last durable one, so the retirement licence must walk through superseded-unwritten
    generations up to a durable / deleted one (shared with C02.successor)"""
    from rules import C02
    C02.check_successor(ctx, "C08.successor")


def check_acquire(ctx):
    """the reader side of the extent guard: the reader count is bumped by a compare-exchange whose expected value was tested
    for EXTENT_RETIRED *since that value was obtained* — also when the value comes from a failed previous attempt. Otherwise a
    retry can take a guard on an extent the flusher has already seen retired and reader-free."""
    inst = "C08.acquire"
    b = ctx.fn("Record::acquire_extent", inst)
    if b is None:
        return
    cas = ctx.sites(b, R.call("Atomic::compare_exchange_weak", "Atomic::compare_exchange", "AtomicU32::compare_exchange_weak", "AtomicU32::compare_exchange"), inst, exact=1)
    def retired(e):
        return e.k == "bin" and e.extra == "Eq" and any(x.k == "bin" and x.extra == "BitAnd" and x.has_const(name="EXTENT_RETIRED") for x in e.walk()) and e.has_const(val=0)
    ok_edges = A.pred_edges(b, retired, "true")     # (state & RETIRED) == 0
    ctx.check(bool(ok_edges), inst, "anchor", b.path, "the retired bit of the state is tested", None)
    R.guard(ctx, inst, b, cas, ok_edges, "the state handed to the compare-exchange was tested for EXTENT_RETIRED after it was last obtained (initial load or failed attempt)")
    somes = [n.id for n in b.nodes if n.kind == "assign" and not n.ev["dst"]["p"] and n.ev["dst"]["l"] == 0 and n.ev.get("rv") == "agg" and n.ev.get("var") == "Some"]
    R.guard(ctx, inst, b, somes, R.guard_edges_for_call(b, cas, "Ok"), "a guard is handed out only after its compare-exchange succeeded")
    for c in cas:
        cur = R.arg_expr(b, b.nodes[c], 1)
        new = R.arg_expr(b, b.nodes[c], 2)
        ok = new.k == "bin" and new.extra.startswith("Add") and any(x.k == "const" and (x.extra or {}).get("val") == 1 for x in new.a) and any(x.key() == cur.key() for x in new.a)
        ctx.check(ok, inst, "PIN", b.path, "the installed state is the tested state + 1 reader", b.where(c), {"expected": cur.show()[:60], "new": new.show()[:60]})


def check_range_resolve(ctx):
    """a range scan racing with rewrite + retirement re-resolves a stale handle by key: that key must be the entry's own
    (same rule as C14.resolve), or the scan hands out another key's bytes"""
    from rules import C14
    C14.check_range_resolution(ctx, "C08.range-resolve")


def check_extent_len(ctx):
    """retirement must mark and free exactly the blocks the generation was allocated: an extent length that differs between the
    allocator and the retirement side overwrites the head block of the neighbouring live key under its readers (C05.len)"""
    from rules import C05
    C05.check_len(ctx, "C08.extent-len")


def check_reservations(ctx):
    """blocks handed back to the allocator must not stay reserved by the entry that held them: a requeued entry that keeps the
    sector number writes its record into blocks the allocator has meanwhile given to another key - two live generations share an
    extent, no retirement ever happened, so no extent guard is consulted, and the overwritten key answers StaleExtent for ever
    (same rules as C09.contain/release_allocations and scrub-release)"""
    from rules import C09
    C09.check_scrub(ctx, "C08.reservation")


def check_cache_identity(ctx):
    """a TTL change builds the next generation from the bytes the read cache holds for the *current* generation: the cache's
    selection predicates (get / record_entry / remove) must select an entry only for the pointer-identical generation and the
    equal key, or a reader that cached a superseded generation's bytes late feeds them into the next generation and every later
    read returns a value older than the last completed update (same rule as C16.match; added after C08-i)"""
    from rules import C16
    C16.check_match(ctx, "C08.cache-identity")


def check(ctx):
    check_cache_identity(ctx)
    check_reservations(ctx)
    check_extent_len(ctx)
    check_range_resolve(ctx)
    check_acquire(ctx)
    check_successor(ctx)
    check_pin(ctx)
    check_retire(ctx)
    check_publish(ctx)
    check_stale(ctx)
