"""C04 — recovery is idempotent, restartable and never discards a live record.
Decided: journal cleared last in replay; post-scan repairs use the journalled
path only; winner/loser rule is strict and the extents pushed are the right ones."""
from feoxlint import analysis as A
from feoxlint import rulekit as R
from feoxlint import vocab as V
from feoxlint.model import path_matches
from rules.common import names_of, origin_names, closure_ret_cmp, closure_carriers, comparison_roots

EXPLANATION = """
Two structural clauses the restart argument rests on, plus the winner rule: in replay_allocation_journal the marker
writes dominate the journal clear and the clear sits on their Ok edge (a crash inside replay replays again); the only
device-writing calls recovery can make are replay_allocation_journal and the journalled DiskIO::retire_extents fed from
the retired_extents list; a scanned record loses iff the indexed one has a strictly greater timestamp, the loser branch
queues the scanned extent and the replace branch queues the existing extent. Not decided: equality of contents across
nested recoveries; that repairs touch no live block (value-level).
"""
DECIDED = ['both retirement-marker writers stamp each chunk with the blocks remaining from it (shared with C10.marker/writers)', 'a read-only recovery masks journaled extents in start order, so it reports what a read-write recovery reports (shared with C15.mask)', 'journal image and marker writes of a retirement transaction cover the same chunk (shared with C03.bracket)', 'journal position continuity: decoded (generation, slot) always restored; next = (generation + 1, other slot); advanced only after write + flush', "replay: markers before clear, clear on Ok edge", "post-scan retirement is journalled and fed from retired_extents",
           "winner rule: strict `existing.timestamp > scanned.timestamp` loses; right extent queued on each branch",
           'a marker length is refused only for zero or beyond-device (coalesced chains of any length are accepted)',
           'recovery frees / queues an extent with the on-disk length of that same generation',
           'journal position restored exactly as decoded',
           'expired winners are retired in a later journal transaction than stale duplicates']
NOT_DECIDED = ["contents equality across recoveries", "repairs touch only dead blocks (value-level)"]
ASSUMPTIONS = []



def check_release_len(ctx):
    """see rules.common.check_recovery_release_len: recovery frees an owned extent with the length of that very generation"""
    from rules import common as _c
    _c.check_recovery_release_len(ctx, "C04.release-len")


def check_bracket(ctx):
    """recovery's repairs are restartable only if every marker write of a retirement transaction is named by the journal image
    written before it: journal and marker step of DiskIO::retire_extents receive the same chunk (same rule as C03.bracket)"""
    from rules import C03
    C03.check_bracket(ctx, "C04.bracket")


def check_ro_mask(ctx):
    """a read-only recovery (migration source) cannot replay an active journal, it masks the journaled extents instead; it reports
    what a read-write recovery of the same image reports only if the masking cursor walks the extents in start order (C15.mask)"""
    from rules import C15
    C15.check_mask(ctx, "C04.ro-mask")


def check_marker_writers(ctx):
    """recovery trusts the block count of a retirement-marker head twice (it skips that many blocks unseen and re-retires that many): both marker writers, buffered and O_DIRECT, must stamp every chunk with the blocks remaining from that chunk on, never more, or a later recovery skips and then overwrites live records behind the retired extent (same rule as C10.marker/writers; added after C04-i, which passed the extent's total length in the O_DIRECT twin only)"""
    from rules import C10
    C10.check_marker_writers(ctx, "C04.marker-writers")


def check(ctx):
    check_marker_writers(ctx)
    check_ro_mask(ctx)
    check_bracket(ctx)
    check_marker_accept(ctx)
    check_release_len(ctx)
    inst = "C04.replay"
    body = ctx.fn("DiskIO::replay_allocation_journal", inst)
    if body is not None:
        un = ctx.sites(body, R.call("DiskIO::retire_extents_unjournaled"), inst, exact=1)
        cj = ctx.sites(body, R.call("DiskIO::clear_allocation_journal"), inst, exact=1)
        R.dom(ctx, inst, body, un, cj, "journal is cleared only after the markers were rewritten", a_desc="retire_extents_unjournaled")
        R.guard(ctx, inst, body, cj, R.guard_edges_for_call(body, un, "Ok"), "journal cleared only on the Ok edge of the marker writes")
        R.never_after(ctx, inst, body, cj, un, "no marker write after the journal clear")
        wj = R.call("DiskIO::write_allocation_journal")(body)
        ctx.check(not wj, inst, "FORBID", body.path, "replay does not write a new journal (it is the journal's own replay)", None)

    inst = "C04.journalled"
    scan = ctx.fn("FeoxStore::scan_and_rebuild_indexes", inst)
    if scan is not None:
        allowed = ["DiskIO::replay_allocation_journal", "DiskIO::retire_extents"]
        for b in ctx.prog.family(scan):
            for nid in V.W_REACHING(b):
                ev = b.nodes[nid].ev
                good = any(R.call_matches(ev, a) for a in allowed)
                ctx.check(good, inst, "CALLERS", scan.path, "recovery writes the device only through replay / journalled retirement",
                          b.where(nid), {"callee": ev.get("resolved") or ev.get("callee")})
        rt = sorted(ctx.sites(scan, R.call("DiskIO::retire_extents"), inst, exact=2))
        for x, want in zip(rt, ("retired_extents", "expired_extents")):
            nm = origin_names(scan, R.arg_expr(scan, scan.nodes[x], 1))
            ctx.check(want in nm, inst, "PROVENANCE", scan.path, "the journalled retirements are fed from retired_extents (stale duplicates) and expired_extents (expired winners), in that order", scan.where(x), {"names": sorted(nm)})
        un = R.call("DiskIO::retire_extents_unjournaled")(scan)
        ctx.check(not un, inst, "FORBID", scan.path, "recovery never calls the un-journalled marker writer directly", None)
    ew = ctx.fn("FeoxStore::remove_expired_recovery_winners", inst)
    if ew is not None:
        w = [n for b in ctx.prog.family(ew) for n in V.W_REACHING(b)]
        ctx.check(not w, inst, "FORBID", ew.path, "dropping expired winners performs no device write itself (it only queues extents)", None)
    check_winner(ctx, "C04.winner")
    check_repairs(ctx, "C04.repairs")
    check_position(ctx)
    check_retire_order(ctx)
    # an active intent that recovery refuses to decode is never replayed: an interrupted repair stays half-done
    from rules import C03
    C03.check_journal_validity(ctx, "C04.journal-validity", None)


def check_position(ctx, inst="C04.position"):
    """two-slot journal: a new journal record must never overwrite the newest valid one, on any run of recovery. That needs
    the (generation, slot) of the record recovery decoded to be restored unconditionally before recovery's own first
    journal write, the next position to be (generation + 1, the *other* slot), and the in-memory position to advance only
    after the record is on the device."""
    def on_field(name):
        return lambda bb, n: R.recv_expr(bb, n).has_field("DiskIO", name)
    st_gen = R.call("Atomic::store", "AtomicU64::store").filter(on_field("journal_generation"), "journal_generation.store")
    st_slot = R.call("Atomic::store", "AtomicUsize::store").filter(on_field("journal_slot"), "journal_slot.store")
    b = ctx.fn("DiskIO::read_allocation_journal", inst)
    if b is not None:
        dec = ctx.sites(b, R.call("allocation_journal::decode"), inst, exact=1)
        g = ctx.sites(b, st_gen, inst, exact=1)
        sl = ctx.sites(b, st_slot, inst, exact=1)
        oks = A.ok_nodes(b)
        R.dom(ctx, inst, b, g, oks, "the decoded generation is restored on every successful read of the journal", a_desc="journal_generation.store")
        R.dom(ctx, inst, b, sl, oks, "the decoded slot is restored on every successful read of the journal (active or clear)", a_desc="journal_slot.store")
        for x, f in ((g, "generation"), (sl, "slot")):
            for n in x:
                v = R.arg_expr(b, b.nodes[n], 1)
                ctx.check(v.k == "field" and v.extra[1] == f and any(c.nid in dec for c in v.calls()) and not any(x.k == "bin" for x in v.walk()), inst, "PROVENANCE", b.path,
                          "journal_%s is restored exactly as decoded (it names the slot / generation of the newest record; next_journal_position adds the step)" % f, b.where(n), {"value": v.show()[:80]})
    allowed = ["DiskIO::read_allocation_journal", "DiskIO::write_allocation_journal", "DiskIO::clear_allocation_journal"]
    writers = allowed[1:]

    def commit_helper(bb):
        """a non-public helper that holds the write + flush + position stores on behalf of the write / clear routines only
        (`commit_journal_image(generation, slot, image)`): every caller is one of the two routines"""
        o = R.owner_fn(ctx.prog, bb)
        if any(path_matches(o, a) for a in allowed):
            return False
        ob = ctx.prog.bodies.get(o)
        if ob is None or ob.is_test or ob.is_closure or not (st_gen(ob) and st_slot(ob)):
            return False
        return R._private_helper_of(ctx.prog, o, writers, 0)

    n_w = 0
    helpers = set()
    for bb in ctx.prog.product_bodies():
        for sel in (st_gen, st_slot):
            for n in sel(bb):
                n_w += 1
                o = R.owner_fn(ctx.prog, bb)
                ok = any(path_matches(o, a) for a in allowed)
                if not ok and commit_helper(bb):
                    ok = True
                    helpers.add(o)
                ctx.check(ok, inst, "CALLERS", o, "the journal position is written only by the journal read / write / clear routines", bb.where(n))
    ctx.check(n_w == (6 if not helpers else 2 + 2 * len(helpers)), inst, "anchor", "-", "journal position stores (expected 6, or 4 with one shared commit helper; found %d)" % n_w, None)
    for fn in ("DiskIO::write_allocation_journal", "DiskIO::clear_allocation_journal"):
        b = ctx.fn(fn, inst)
        if b is None:
            continue
        nx = ctx.sites(b, R.call("DiskIO::next_journal_position"), inst, exact=1)
        cb, hcall = b, None
        if not st_gen(b) and helpers:
            hc = [n.id for n in b.calls() if any(R.call_matches(n.ev, h) for h in helpers)]
            ctx.check(len(hc) == 1, inst, "anchor", b.path, "one call to the commit helper (found %d)" % len(hc), None)
            if len(hc) != 1:
                continue
            hcall = hc[0]
            cb = ctx.prog.bodies[next(h for h in helpers if R.call_matches(b.nodes[hcall].ev, h))]
            # nothing of b's own may fail or write after the helper returned: its result is b's result
            R.dom(ctx, inst, b, [hcall], A.ok_nodes(b), "the routine succeeds only through the commit helper", a_desc="commit helper")
        ws = ctx.sites(cb, R.call("DiskIO::write_sectors_sync"), inst, exact=1)
        fl = ctx.sites(cb, R.call("DiskIO::flush"), inst, exact=1)
        g = ctx.sites(cb, st_gen, inst, exact=1)
        sl = ctx.sites(cb, st_slot, inst, exact=1)
        R.dom(ctx, inst, cb, fl, g + sl, "the in-memory position advances only after the record was written and flushed", a_desc="flush")
        R.guard(ctx, inst, cb, g + sl, R.guard_edges_for_call(cb, fl, "Ok"), "and only on the Ok edge of the flush")
        R.guard(ctx, inst, cb, g + sl, R.guard_edges_for_call(cb, ws, "Ok"), "and of the write")

        def from_next(v):
            """the value is a component of what next_journal_position computed: directly, or - through the helper - the helper's
            own parameter, whose argument at the call site is"""
            if cb is b:
                return any(c.nid in nx for c in v.calls())
            if v.k != "arg":
                return False
            a = R.arg_expr(b, b.nodes[hcall], v.extra[0] - 1)
            return any(c.nid in nx for c in a.calls())
        for n in g + sl:
            v = R.arg_expr(cb, cb.nodes[n], 1)
            ctx.check(from_next(v), inst, "PROVENANCE", cb.path, "the position stored is the one next_journal_position computed", cb.where(n))
        for w in ws:
            v = R.arg_expr(cb, cb.nodes[w], 1)
            slot_ok = v.has_call("DiskIO::journal_sector") and (any(c.nid in nx for c in v.calls()) if cb is b else
                                                                any(from_next(x) for x in v.walk() if x.k == "arg" and x.extra[0] != 1))
            # ... the slot itself, not something computed from it (`journal_sector(1 - slot)` is the slot holding the newest record)
            js = [c for c in v.calls() if path_matches(str(c.extra), "DiskIO::journal_sector")]
            slot_ok = slot_ok and bool(js) and all(not any(x.k == "bin" for x in c.a[1].walk()) for c in js if len(c.a) > 1)
            ctx.check(slot_ok, inst, "PROVENANCE", cb.path, "the record is written to the sector of the slot next_journal_position chose", cb.where(w))
        if cb is not b:
            # generation and slot must not be swapped on the way into the helper: the slot stored is the slot written to
            for n in sl:
                v = R.arg_expr(cb, cb.nodes[n], 1)
                wv = R.arg_expr(cb, cb.nodes[ws[0]], 1) if ws else None
                ctx.check(wv is not None and v.k == "arg" and any(x.k == "arg" and x.extra[0] == v.extra[0] for x in wv.walk()), inst, "PROVENANCE", cb.path,
                          "the slot published is the slot the record was written to", cb.where(n))
    b = ctx.fn("DiskIO::next_journal_position", inst)
    if b is not None:
        tr = A.tracer(b)
        rem = [n for n in b.nodes if n.kind == "assign" and n.ev.get("rv") == "bin" and n.ev["op"] == "Rem"]
        ok = False
        if len(rem) == 1:
            v = tr.node_value(rem[0].id)
            lhs = v.a[0]
            ok = v.a[1].has_const(name="ALLOCATION_JOURNAL_SLOTS") and lhs.k == "bin" and lhs.extra.startswith("Add") and \
                any(x.k == "const" and (x.extra or {}).get("val") == 1 for x in lhs.a) and lhs.has_field("DiskIO", "journal_slot")
        ctx.check(ok, inst, "PIN", b.path, "the next slot is (current slot + 1) % ALLOCATION_JOURNAL_SLOTS: never the slot holding the newest record", None)
        ca = ctx.sites(b, R.call("u64::checked_add", "checked_add"), inst, exact=1)
        for c in ca:
            e0, e1 = R.arg_expr(b, b.nodes[c], 0), R.arg_expr(b, b.nodes[c], 1)
            ctx.check(e0.has_field("DiskIO", "journal_generation") and e1.k == "const" and (e1.extra or {}).get("val") == 1, inst, "PIN", b.path,
                      "the next generation is the current one + 1", b.where(c))
    v = ctx.prog.consts.get("storage::allocation_journal::ALLOCATION_JOURNAL_SLOTS", {}).get("val") if hasattr(ctx.prog, "consts") else None
    if v is not None:
        ctx.check(v == 2, inst, "PIN", "-", "two journal slots", None)


def check_retire_order(ctx):
    """restartability of the post-scan retirement. Recovery queues two kinds of extents: stale duplicates found during the scan
    (their newer generation stays on the device) and, afterwards, the extents of *expired winners*. Retiring an expired
    winner before the older generation it beat resurrects the older value if recovery is interrupted in between, so either
    (A) DiskIO::retire_extents is one journal transaction for whatever it is given (no second intent after a clear), or
    (B) recovery retires everything queued before remove_expired_recovery_winners in a call of its own, and only after that
    call returned Ok the expired winners."""
    inst = "C04.retire-order"
    scan = ctx.fn("FeoxStore::scan_and_rebuild_indexes", inst)
    rx = ctx.fn("DiskIO::retire_extents", inst)
    if scan is None or rx is None:
        return
    wj = R.call("DiskIO::write_allocation_journal")(rx)
    cj = R.call("DiskIO::clear_allocation_journal")(rx)
    single_tx = True
    for c in cj:
        r, _ = A.reach(rx, A.succs(rx, c))
        if any(w in r for w in wj):
            single_tx = False
    rt = sorted(R.call("DiskIO::retire_extents")(scan))
    ew = ctx.sites(scan, R.call("FeoxStore::remove_expired_recovery_winners"), inst, exact=1)
    ordered = False
    detail = {"retire_extents_calls_in_recovery": len(rt), "retire_extents_is_one_transaction": single_tx}
    if len(rt) == 2 and ew:
        from rules import roles
        first, second = rt
        l1 = roles.recv_local(scan, scan.nodes[first], 1)
        l2 = roles.recv_local(scan, scan.nodes[second], 1)
        lw = roles.recv_local(scan, scan.nodes[ew[0]], 3)
        detail.update({"first_vector": scan.local_name(l1) if l1 is not None else None, "second_vector": scan.local_name(l2) if l2 is not None else None,
                       "expired_winners_go_to": scan.local_name(lw) if lw is not None else None})
        # the expired winners are collected in the vector of the *second* retirement, which is not the first one's
        ordered = l1 is not None and l2 is not None and l1 != l2 and lw == l2
        if ordered:
            R.dom(ctx, inst, scan, [first], [second], "expired winners are retired only after the stale duplicates were", a_desc="retire_extents(&retired_extents)")
            R.guard(ctx, inst, scan, [second], R.guard_edges_for_call(scan, [first], "Ok"), "and only on the Ok edge of that first retirement")
            # nothing the scan queues ends up in the second vector
            pushes2 = [n.id for n in scan.calls() if R.call_matches(n.ev, "Vec::push") and roles.recv_local(scan, n, 0) == l2]
            ctx.check(not pushes2, inst, "PROVENANCE", scan.path, "the scan queues stale duplicates only into the vector of the first retirement", None)
    where = scan.where(rt[0]) if rt else None
    ctx.check(single_tx or ordered, inst, "ORDER", scan.path,
              "an expired newest generation is never retired in an earlier journal transaction than the older generation it beat "
              "(retire_extents splits its argument into independent per-chunk transactions in sector order, and recovery hands it "
              "stale duplicates and expired winners together)", where, detail)


def check_marker_accept(ctx, inst="C04.marker-accept"):
    """recovery reads its own repairs: DiskIO::retire_extents coalesces adjacent extents and writes one marker chain over the
    merged run, so a head marker may carry a length far beyond any single record. The scan must accept every such head: the only
    tests of the marker's length field that lead to a refusal are `extent == 0` and `sector + extent > total_sectors` (plus the
    checked_add overflow). Any further bound on the length makes the open *after* a large repair fail on an untouched device."""
    scan = ctx.fn("FeoxStore::scan_and_rebuild_indexes", inst)
    if scan is None:
        return
    def is_len(e):
        # the marker's 8-byte length field: from_le_bytes over data[8..16]
        for x in e.walk():
            if x.k == "call" and path_matches(x.extra, "from_le_bytes") and any(y.k == "agg" and str(y.extra).endswith("Range") and
                                                                               [z.extra.get("val") if z.k == "const" and isinstance(z.extra, dict) else None for z in y.a] == [8, 16]
                                                                               for y in x.walk()):
                return True
        return False
    errs = set(A.error_nodes(scan))
    def refuses(sw, label):
        # straight-line from the edge to an error write (no further decision in between)
        cur = [t for (t, l) in scan.nodes[sw].succ if l == label]
        seen = set()
        while len(cur) == 1 and cur[0] not in seen:
            n = cur[0]
            seen.add(n)
            if n in errs:
                return True
            if scan.nodes[n].kind in ("switch", "return"):
                return False
            cur = [t for (t, _l) in scan.nodes[n].succ]
        return False
    found = []
    for (nid, r, info) in comparison_roots(scan):
        if not is_len(r):
            continue
        sws = [nid] if scan.nodes[nid].kind == "switch" else \
            [s_ for s_ in A.switches(scan) if A.switch_info(scan, s_).root.nid == nid or A.switch_info(scan, s_).raw.nid == nid]
        rej = any(refuses(s_, l) for s_ in sws for l in A.switch_info(scan, s_).edge_vals)
        found.append((nid, r, rej))
    ctx.check(len(found) >= 2, inst, "anchor", scan.path, "comparisons on the marker length field (>= 2, found %d)" % len(found), None)
    for nid, r, rej in found:
        if not rej:
            ctx.ok(inst, "PIN", scan.path, "a test of the marker length that refuses nothing", scan.where(nid), nontrivial=False)
            continue
        zero = r.extra == "Eq" and r.a[1].k == "const" and (r.a[1].extra or {}).get("val") == 0
        beyond = r.extra == "Lt" and r.a[1].has_call("checked_add") and (r.a[0].has_field("FeoxStore", "device_size") or "total_sectors" in names_of(scan, r.a[0]))
        ctx.check(zero or beyond, inst, "PIN", scan.path,
                  "a marker length is refused only for `extent == 0` or `sector + extent > total_sectors` (coalesced chains of any length are what retire_extents writes)",
                  scan.where(nid), {"comparison": r.extra + "(" + r.a[0].show()[:60] + ", " + r.a[1].show()[:60] + ")"})


def check_repairs(ctx, inst):
    """what recovery may queue for retirement: only extents whose deadness was established in this scan"""
    scan = ctx.fn("FeoxStore::scan_and_rebuild_indexes", inst)
    if scan is None:
        return
    pushes = R.call("Vec::push").filter(lambda b, n: "retired_extents" in origin_names(b, R.recv_expr(b, n)) | names_of(b, R.recv_expr(b, n)), "onto retired_extents")(scan)
    ctx.check(len(pushes) == 3, inst, "anchor", scan.path, "retired_extents has three feeders in the scan (incomplete marker, scanned loser, replaced generation); found %d" % len(pushes), None)
    mt = R.call("format::retirement_marker_token")(scan)
    tok = R.call("recovery::record_token")(scan)
    ro_false = A.pred_edges(scan, lambda e: e.has_field("FeoxStore", "read_only"), "false")
    for p in pushes:
        R.guard(ctx, inst, scan, [p], ro_false, "repairs are queued only on a writable open")
        t = R.arg_expr(scan, scan.nodes[p], 1)
        if t.k == "agg" and len(t.a) == 2 and t.a[1].has_call("from_le_bytes") and not t.a[1].has_call("RecordFormat::total_size"):
            # incomplete retirement marker: (sector, remaining parsed from the marker) after its token verified
            def mt_cmp(e):
                return e.k == "bin" and e.extra == "Eq" and any(c.nid in mt for c in e.calls())
            R.guard(ctx, inst, scan, [p], A.pred_edges(scan, mt_cmp, "true"), "an incomplete retirement is completed only for a marker whose token verified")
            def needs(e):
                return e.k == "local" and scan.local_ty(e.extra) == "bool" and len(scan.defs.get(e.extra, [])) >= 2
            ctx.check("sector" in names_of(scan, t.a[0]), inst, "PROVENANCE", scan.path, "the marker's extent starts at the scanned sector", scan.where(p))
        else:
            # record extents: only after the record's token verified on v3 (C03.recover) — dominated by the loser test
            isa = R.call("Option::is_some_and").filter(lambda b, n: R.recv_expr(b, n).has_call("HashMap::read"), "loser test")(scan)
            R.dom(ctx, inst, scan, isa, [p], "a record extent is queued only after the winner/loser decision", a_desc="loser test")
    # a queued record extent is (sector of generation G, ceil(on-disk total_size of G / BLOCK)): the same generation for both,
    # and the on-disk size, not the in-memory footprint (one block too many would put a marker over a neighbour's head block)
    for n in scan.calls():
        if not (R.call_matches(n.ev, "Vec::push") and "retired_extents" in (names_of(scan, R.recv_expr(scan, n)) | origin_names(scan, R.recv_expr(scan, n)))):
            continue
        t = R.arg_expr(scan, n, 1)
        if not (t.k == "agg" and len(t.a) == 2):
            continue
        sec, ln = t.a
        if ln.has_call("from_le_bytes") and not ln.has_call("RecordFormat::total_size"):
            continue        # marker extent: its length is the marker's own field (checked above / C17 DeviceRange)
        ts = [c for c in ln.walk() if c.k == "call" and path_matches(c.extra, "RecordFormat::total_size")]
        okl = len(ts) == 1 and ln.has_call("div_ceil") and not ln.has_call("FeoxStore::calculate_record_size")
        ctx.check(okl, inst, "PROVENANCE", scan.path, "a queued record extent is ceil(RecordFormat::total_size / BLOCK) blocks long (on-disk size, not the memory footprint)", scan.where(n.id), {"length": ln.show()[:100]})
        if okl:
            from_existing = ts[0].a[1].has_call("HashMap::read") and not ts[0].a[1].has_call("RecordFormat::parse_record") or ts[0].a[2].has_call("HashMap::read")
            sec_existing = sec.has_call("HashMap::read")
            ctx.check(from_existing == sec_existing, inst, "PROVENANCE", scan.path, "sector and length of a queued extent describe the same generation", scan.where(n.id),
                      {"sector": sec.show()[:60], "length": ln.show()[:80]})
    # the extents handed to the journalled retirement are exactly that list (no other source)
    rt = R.call("DiskIO::retire_extents")(scan)
    for r in rt:
        e = R.arg_expr(scan, scan.nodes[r], 1)
        nm = origin_names(scan, e) | names_of(scan, e)
        ctx.check("retired_extents" in nm or "expired_extents" in nm, inst, "PROVENANCE", scan.path, "retire_extents receives retired_extents / expired_extents", scan.where(r))


def check_winner(ctx, inst):
    scan = ctx.fn("FeoxStore::scan_and_rebuild_indexes", inst)
    if scan is not None:
        # closure passed to is_some_and on the result of hash_table.read(..)
        isa = ctx.sites(scan, R.call("Option::is_some_and").filter(
            lambda b, n: any(path_matches(c.extra, "HashMap::read") for c in R.recv_expr(b, n).calls()) or "existing" in origin_names(b, R.recv_expr(b, n)),
            "on the indexed record"), inst, exact=1)
        cmpc = None
        for c in ctx.prog.closures_of(scan):
            if isa and isa[0] in closure_carriers(scan, c):
                cmpc = c
        if cmpc is None:
            ctx.anchor_missing(inst, "loser-test closure not found", scan.path)
        else:
            cmp = closure_ret_cmp(cmpc)
            # canonical: Lt(scanned timestamp, existing.timestamp)  <=>  existing.timestamp > timestamp
            good = (cmp is not None and cmp["op"] == "Lt" and "timestamp" in cmp["lhs_upvars"]
                    and ("Record", "timestamp") in cmp["rhs_fields"])
            ctx.check(good, inst, "PIN", cmpc.path, "loser iff existing.timestamp > scanned timestamp (strict)", cmpc.where(cmpc.entry),
                      {"found": {k: sorted(map(str, v)) if isinstance(v, (set, list)) else v for k, v in (cmp or {}).items()}})
        if isa:
            lose_edges = R.guard_edges_for_call(scan, isa, "true")
            keep_edges = R.guard_edges_for_call(scan, isa, "false")
            pushes = R.call("Vec::push").filter(lambda b, n: "retired_extents" in origin_names(b, R.recv_expr(b, n)), "onto retired_extents")(scan)
            scanned, existing = [], []
            for p in pushes:
                t = R.arg_expr(scan, scan.nodes[p], 1)
                if not (t.k == "agg" and len(t.a) == 2):
                    continue
                first, second = t.a
                if first.has_field("Record", "sector") and first.has_call("HashMap::read"):
                    existing.append(p)
                elif "sector" in names_of(scan, first) and second.has_call("RecordFormat::total_size"):
                    scanned.append(p)
            ctx.check(len(scanned) == 1 and len(existing) == 1, inst, "anchor", scan.path,
                      "one push of the scanned extent and one of the existing extent onto retired_extents "
                      "(found %d / %d of %d pushes)" % (len(scanned), len(existing), len(pushes)), None)
            R.guard(ctx, inst, scan, scanned, lose_edges, "the scanned extent is retired only when it lost")
            R.guard(ctx, inst, scan, existing, keep_edges, "the existing extent is retired only when the scanned record replaces it")
            pub = V.PUB_REC(scan)
            R.guard(ctx, inst, scan, pub, keep_edges, "a scanned record is published only when it did not lose")
