"""C11 — expiry is exact: never visible after, never lost before, stable over restart.
Decided: (a) one strict expiry predicate everywhere, (b) every value-reading path
evaluates it before returning bytes, (c) sweeper / lazy retire / recovery re-validate
under the guard and recovery drops expired winners only after choosing them,
(d) one saturating expiry formula, (e) the absolute expiry is what is serialised."""
from feoxlint import analysis as A
from feoxlint import rulekit as R
from feoxlint import vocab as V
from feoxlint.model import path_matches
from rules import storevocab as S
from rules.common import edge_targets, origin_names, names_of, closure_ret_cmp

EXPLANATION = """
Expiry handling as structure: every comparison between a load of Record.ttl_expiry and a clock value canonicalises to
`expired <=> now > expiry` (strict) at all reviewed sites (resolve_record_value, increment, update_ttl, lazy retire,
sweeper sample + re-validation, recovery) with get_ttl's `>=` as the one reasoned exception; the lazy check dominates
every byte-returning tier in resolve_record_value and only resolve_record_value reaches the cache lookup / disk load;
lazy retire and the sweeper remove only on identity + expiry>0 + expired under the bucket guard; recovery removes
expired winners only after the scan finished choosing them and before the journalled retirement; every TTL multiplication
by 1e9 is saturating and flows into a saturating add with the operation's timestamp; the serialised expiry slot is
Record.ttl_expiry (C10) and recovery stores the parsed value back unchanged; migration opens its source with TTL
filtering off. Not decided: wall-clock behaviour, sweeper interleavings.
"""
DECIDED = ['a TTL in seconds is converted to nanoseconds only by saturating_mul(1e9), followed through crate-local helpers (value-based, not a site count)', 'the TTL-only generation links its predecessor as value source (constructor pins shared with C13.fields)', "a TTL-only generation's borrowed disk read pins, loads and verifies against the generation that owns the extent (shared with C08.pin)", "(a) one strict expiry predicate", "(b) lazy check before any bytes are returned", "(c) re-validation under the guard; recovery order",
           "(d) saturating expiry arithmetic", "(e) parsed expiry stored unchanged by recovery",
           'the lazy expiry test reads the clock inside resolve_record_value, never a caller-supplied now']
NOT_DECIDED = ["(f) wall-clock behaviour / timing", "sweeper vs writer interleavings"]
ASSUMPTIONS = ["SystemTime::now() is the only clock source for `now`"]


def _expiry_side(e):
    return e.has_field("Record", "ttl_expiry") and (e.has_call("Atomic::load") or e.k in ("local",))


def expiry_comparisons(body):
    """(switch, canonical form) for comparisons Lt(x, y) where exactly one side derives from Record.ttl_expiry
    and the other is not the constant 0. form: 'now>exp' (strict, expired when true), 'exp<=now'...:
    returns dict with side ('lhs' = expiry on the left) and the traced root."""
    out = []
    for s in A.switches(body):
        info = A.switch_info(body, s)
        r = info.root
        if r.k != "bin" or r.extra != "Lt":
            continue
        a, b = r.a
        ea, eb = _is_exp(body, a), _is_exp(body, b)
        if ea == eb:
            continue
        other = b if ea else a
        if other.k == "const" and (other.extra or {}).get("val") == 0:
            continue
        out.append((s, "exp<x" if ea else "x<exp", info))
    return out


def _is_exp(body, e):
    if e.has_field("Record", "ttl_expiry"):
        return True
    if e.k == "field" and e.extra[1] == "3" and e.has_call("RecordFormat::parse_record"):
        return True   # the expiry slot of a parsed on-disk record
    nm = names_of(body, e)
    return bool(nm & {"ttl_expiry", "expiry", "old_expiry", "current_expiry"}) and not (nm & {"now"})


PRED_SITES = [
    # function, expected number of canonical `expiry < now` tests, closure?
    ("FeoxStore::resolve_record_value", 1),
    ("FeoxStore::atomic_increment_with_timestamp_and_ttl", 1),
    ("FeoxStore::retire_expired_if_current", 1),
    ("ttl_sweep::sample_and_expire_batch", 2),
    ("FeoxStore::remove_expired_recovery_winners", 1),
]


def check_pred(ctx, inst="C11.pred"):
    total = 0
    bodies = []
    for fn, n in PRED_SITES:
        b = ctx.fn(fn, inst)
        if b is not None:
            bodies.append((b, n, fn))
    body, clo = S.update_ttl_closure(ctx, inst)
    if clo is not None:
        bodies.append((clo, 1, "update_ttl closure"))
    for b, n, fn in bodies:
        cmps = expiry_comparisons(b)
        strict = [c for c in cmps if c[1] == "exp<x"]
        bad = [c for c in cmps if c[1] != "exp<x"]
        total += len(strict)
        ctx.check(len(strict) == n and not bad, inst, "SIBLING", b.path,
                  "every expiry test is the strict `now > expiry` (expected %d, found %d strict / %d other)" % (n, len(strict), len(bad)),
                  b.where(cmps[0][0]) if cmps else None, {"forms": [c[1] + " " + c[2].root.show() for c in cmps]})
        for (s, form, info) in strict:
            other = info.root.a[1]
            # the other side is a clock reading (now), not a constant or a record field
            ok = "now" in names_of(b, other) or other.has_call("SystemTime::now") or other.has_call("FeoxStore::get_timestamp_pub") or \
                other.has_call("SystemTime::duration_since") or \
                (other.k == "arg" and other.extra[1] == "now") or other.has_arg(name="now") or \
                any(x.k == "field" and "closure" in str(x.extra[0]) for x in other.walk())
            ctx.check(ok, inst, "PROVENANCE", b.path, "the expiry is compared with a clock reading", b.where(s), {"other": other.show()})
    ctx.check(total >= 7, inst, "anchor", "-", "strict expiry tests found (>= 7, found %d)" % total, None)
    # reasoned exception: get_ttl reports remaining time with `now >= expiry => Some(0)`
    b = ctx.fn("FeoxStore::get_ttl", inst)
    if b is not None:
        cmps = expiry_comparisons(b)
        ctx.check(len(cmps) == 1, inst, "SIBLING", b.path, "get_ttl (exempt: reports remaining time, hides nothing) has one expiry comparison", None)
    # no other product body compares ttl_expiry with a clock
    listed = {b.path for b, _, _ in bodies} | ({ctx.prog.fn("FeoxStore::get_ttl").path} if ctx.prog.find("FeoxStore::get_ttl") else set())
    for b in ctx.prog.product_bodies():
        if b.path in listed:
            continue
        cmps = [c for c in expiry_comparisons(b) if c[2].root.has_field("Record", "ttl_expiry")]
        ctx.check(not cmps, inst, "SIBLING", b.path, "no unreviewed expiry comparison", b.where(cmps[0][0]) if cmps else None, nontrivial=bool(cmps))


def check_lazy(ctx, inst="C11.lazy"):
    b = ctx.fn("FeoxStore::resolve_record_value", inst)
    if b is not None:
        tiers = ctx.sites(b, R.call("Record::get_value", "FeoxStore::load_value_from_disk") | R.call("Option::and_then").filter(
            lambda bb, n: R.recv_expr(bb, n).has_field("FeoxStore", "cache"), "cache lookup"), inst, exact=3, what="value tiers")
        cmps = [c for c in expiry_comparisons(b) if c[1] == "exp<x"]
        ttl_off = A.pred_edges(b, lambda e: e.has_field("FeoxStore", "enable_ttl"), "false")
        no_exp = A.pred_edges(b, lambda e: e.k == "bin" and e.extra == "Lt" and _is_exp(b, e.a[1]) and e.a[0].k == "const", "false")
        ctx.check(bool(ttl_off), inst, "anchor", b.path, "enable_ttl is tested", None)
        if cmps:
            s = cmps[0][0]
            # the lazy test reads the clock itself, at the moment the value is resolved: a timestamp handed in by the caller
            # (taken once per scan, per batch, ...) can be arbitrarily old by the time this record's bytes are produced
            other = cmps[0][2].root.a[1]
            fresh = (other.has_call("SystemTime::now") or other.has_call("FeoxStore::get_timestamp_pub")) and \
                not any(x.k == "arg" and x.extra[0] > 1 for x in other.walk())
            ctx.check(fresh, inst, "PROVENANCE", b.path, "the lazy expiry test compares with a clock read inside resolve_record_value (no caller-supplied `now`)",
                      b.where(s), {"other": other.show()})
            not_expired = [(s, l) for l, v in cmps[0][2].edge_vals.items() if v == "false"]
            expired = [(s, l) for l, v in cmps[0][2].edge_vals.items() if v == "true"]
            # [enable_ttl, expiry > 0] every tier is reached only through the not-expired edge
            no_exp0 = A.pred_edges(b, lambda e: e.k == "bin" and e.extra == "Lt" and e.a[0].k == "const" and (e.a[0].extra or {}).get("val") == 0 and _is_exp(b, e.a[1]), "false")
            R.guard(ctx, inst, b, tiers, list(not_expired) + list(ttl_off) + list(no_exp0), "bytes are produced only if TTL is off, no expiry is set, or now <= expiry")
            for (sw, l) in expired:
                r, ps = A.reach(b, edge_targets(b, sw, l))
                ctx.check(not any(t in r for t in tiers) and not any(o in r for o in A.ok_nodes(b)), inst, "GUARD", b.path,
                          "an expired record yields an error, never bytes", b.where(sw))
    R.callers_within(ctx, inst, "FeoxStore::load_value_from_disk", ["FeoxStore::resolve_record_value"], floor=1)
    R.callers_within(ctx, inst, "ClockCache::get_for_record", ["FeoxStore::resolve_record_value"], floor=1)
    R.callers_within(ctx, inst, "FeoxStore::resolve_record_value", ["FeoxStore::resolve_value", "FeoxStore::resolve_value_ref"], floor=2)
    R.callers_within(ctx, inst, "Record::get_value",
                     ["FeoxStore::resolve_record_value", "FeoxStore::load_value_from_disk", "FeoxStore::update_ttl",
                      "write_buffer::prepare_record_data", "write_buffer::prepare_deferred_record_data",
                      "FormatV1::serialize_record*", "FormatV2::serialize_record*", "format::*"], floor=4)
    # update_ttl's closure: the expiry test precedes reading the value
    body, clo = S.update_ttl_closure(ctx, inst)
    if clo is not None:
        gv = ctx.sites(clo, R.call("Record::get_value"), inst, exact=1)
        cmps = [c for c in expiry_comparisons(clo) if c[1] == "exp<x"]
        if cmps:
            s = cmps[0][0]
            ok_e = [(s, l) for l, v in cmps[0][2].edge_vals.items() if v == "false"]
            zero = A.pred_edges(clo, lambda e: e.k == "bin" and e.extra == "Lt" and e.a[0].k == "const" and _is_exp(clo, e.a[1]), "false")
            R.guard(ctx, inst, clo, gv + S.deref_store_sites(clo), list(ok_e) + list(zero), "a TTL update reads / replaces the value only if the key has not expired")


def check_revalidate(ctx):
    inst = "C11.revalidate"
    for fn in ("FeoxStore::retire_expired_if_current", "ttl_sweep::sample_and_expire_batch"):
        b = ctx.fn(fn, inst)
        if b is None:
            continue
        rem = ctx.sites(b, V.REM, inst, exact=1)
        cmps = [c for c in expiry_comparisons(b) if c[1] == "exp<x"]
        under = []
        for (s, form, info) in cmps:
            held = S.held_classes(ctx, b, s)
            if "L_hb" in held:
                under.append((s, info))
        ctx.check(len(under) == 1, inst, "HELD", b.path, "the expiry is re-tested under the bucket guard (found %d guarded tests)" % len(under), None)
        edges = []
        for (s, info) in under:
            edges += [(s, l) for l, v in info.edge_vals.items() if v == "true"]
        R.guard(ctx, inst, b, rem, edges, "removal only when the re-validated expiry has passed")
        # expiry > 0
        def nonzero(e):
            return (e.k == "bin" and e.extra == "Lt" and e.a[0].k == "const" and (e.a[0].extra or {}).get("val") == 0 and _is_exp(b, e.a[1])) or \
                (e.k == "bin" and e.extra == "Eq" and _is_exp(b, e.a[0] if e.a[1].k == "const" else e.a[1]) and e.has_const(val=0))
        nz = []
        for s in A.pred_switches(b, nonzero):
            if "L_hb" not in S.held_classes(ctx, b, s):
                continue
            info = A.switch_info(b, s)
            want = "true" if info.root.extra == "Lt" else "false"
            nz += [(s, l) for l, v in info.edge_vals.items() if v == want]
        R.guard(ctx, inst, b, rem, nz, "removal only when an expiry is set (expiry > 0), re-tested under the guard")
        # the expiry re-tested is loaded under the guard from the record being removed
        for (s, info) in under:
            ld = [c for c in info.root.a[0].calls() if path_matches(c.extra, "Atomic::load")]
            ctx.check(all("L_hb" in S.held_classes(ctx, b, c.nid) for c in ld) and bool(ld), inst, "HELD", b.path, "the expiry value is loaded under the guard", b.where(s))
    b = ctx.fn("FeoxStore::scan_and_rebuild_indexes", inst)
    if b is not None:
        ew = ctx.sites(b, R.call("FeoxStore::remove_expired_recovery_winners"), inst, exact=1)
        pub = V.PUB_REC(b)
        rt = sorted(R.call("DiskIO::retire_extents")(b))[-1:]     # the retirement of the expired winners is the last one
        R.never_after(ctx, inst, b, ew, pub + R.call("RecoveryScanner::block")(b), "expired winners are dropped only after the scan has finished choosing winners")
        R.dom(ctx, inst, b, ew, rt, "[enable_ttl] expired winners are queued before the journalled retirement",
              blocked_edges=frozenset(A.pred_edges(b, lambda e: e.has_call("bool::then") or "recovery_time" in names_of(b, e), "None")), a_desc="remove_expired_recovery_winners")
        # the scan itself never filters by expiry (an older generation must not reappear)
        cm = [c for c in expiry_comparisons(b)]
        ctx.check(not cm, inst, "FORBID", b.path, "the scan does not compare expiries while choosing winners", b.where(cm[0][0]) if cm else None)
        # ... nor inside any closure of the scan (e.g. `recovery_time.is_some_and(|now| now > ttl_expiry)`)
        from rules.common import closure_expr_parents
        for c in ctx.prog.closures_of(b):
            tr = A.tracer(c)
            for n in c.nodes:
                v = None
                if n.kind == "assign" and n.ev.get("rv") == "bin" and n.ev["op"] in ("Lt", "Le", "Gt", "Ge"):
                    v = tr.node_value(n.id)
                if v is None:
                    continue
                parent, ups = closure_expr_parents(ctx.prog, c, v)
                hit = any(_is_exp(parent, u) for u in ups) if parent is not None else False
                ctx.check(not hit, inst, "FORBID", c.path, "no closure of the scan compares a parsed expiry with the clock", c.where(n.id), nontrivial=hit)
        # the only consumer of recovery_time is remove_expired_recovery_winners
        rt_uses = [n for n in b.calls() if "recovery_time" in (names_of(b, A.tracer(b).operand(n.ev["args"][0])) if n.ev["args"] else set())]
        ctx.check(all(R.call_matches(n.ev, "Option::is_some_and") is False and R.call_matches(n.ev, "Option::map") is False and R.call_matches(n.ev, "Option::filter") is False for n in rt_uses),
                  inst, "FORBID", b.path, "recovery_time is consumed only by the post-scan expiry pass", None)
        # recovery_time is taken only when TTL is enabled
        th = ctx.sites(b, R.call("bool::then"), inst, floor=1)
        ok = any(R.recv_expr(b, b.nodes[t]).has_field("FeoxStore", "enable_ttl") for t in th)
        ctx.check(ok, inst, "PROVENANCE", b.path, "expired winners are dropped only when TTL is enabled (recovery_time = enable_ttl.then(..))", None)
        # parsed expiry stored unchanged
        st = ctx.sites(b, R.field_write("Record", "ttl_expiry", ops=["store"]), inst, exact=1)
        for s in st:
            e = R.arg_expr(b, b.nodes[s], 1)
            x = e
            while x.k in ("field", "downcast") and x.a:
                x = x.a[0]
            ctx.check(x.k == "call" and path_matches(x.extra, "RecordFormat::parse_record") and e.k == "field" and e.extra[1] == "3", inst, "PROVENANCE", b.path,
                      "recovery stores the parsed expiry unchanged", b.where(s), {"expr": e.show()})
    b = ctx.fn("FeoxStore::remove_expired_recovery_winners", inst)
    if b is not None:
        rem = ctx.sites(b, V.REM, inst, exact=1)
        pe, _ = S.ptr_eq_edges(b, "true")
        R.guard(ctx, inst, b, rem, pe, "an expired winner is removed only if it is still the indexed generation")
        push = R.call("Vec::push").filter(lambda bb, n: "expired" in names_of(bb, R.recv_expr(bb, n)), "onto expired")(b)
        cmps = [c for c in expiry_comparisons(b) if c[1] == "exp<x"]
        edges = []
        for (s, f, info) in cmps:
            edges += [(s, l) for l, v in info.edge_vals.items() if v == "true"]
        R.guard(ctx, inst, b, push, edges, "only generations whose expiry has passed are collected")


def check_arith(ctx):
    inst = "C11.arith"
    n = 0
    for b in ctx.prog.product_bodies():
        muls = [x for x in b.calls() if R.call_matches(x.ev, "u64::saturating_mul") or R.call_matches(x.ev, "u64::wrapping_mul") or R.call_matches(x.ev, "u64::checked_mul")]
        raw = [x for x in b.nodes if x.kind == "assign" and x.ev.get("rv") == "bin" and x.ev["op"].startswith("Mul") and
               any(o.get("k") == "const" and o.get("val") == 1000000000 for o in (x.ev["a"], x.ev["b"]))]
        for x in raw:
            # plain multiplication by 1e9 of a TTL: only allowed on non-TTL quantities (none today in product code)
            nm = names_of(b, A.tracer(b).node_value(x.id))
            if any("ttl" in (s or "") for s in nm):
                ctx.fail(inst, "SIBLING", b.path, "TTL seconds multiplied by 1e9 without saturation", b.where(x.id))
        for x in muls:
            a1 = x.ev["args"][1] if len(x.ev["args"]) > 1 else {}
            if not (a1.get("k") == "const" and a1.get("val") == 1000000000):
                continue
            n += 1
            ctx.check(R.call_matches(x.ev, "u64::saturating_mul"), inst, "SIBLING", b.path, "TTL seconds -> nanoseconds uses saturating_mul", b.where(x.id))
            # flows into saturating_add with the operation's timestamp
            adds = [y for y in b.calls() if R.call_matches(y.ev, "u64::saturating_add")]
            ok = False
            for y in adds:
                e = R.arg_expr(b, y, 1, transparent=False)
                if e.k == "call" and e.nid == x.id:
                    ok = True
                    base = R.arg_expr(b, y, 0)
                    nm = names_of(b, base)
                    ctx.check(bool(nm & {"timestamp", "now"}) or base.has_call("FeoxStore::resolve_timestamp"), inst, "PROVENANCE", b.path,
                              "expiry = timestamp.saturating_add(ttl * 1e9)", b.where(y.id), {"base": base.show()})
            ctx.check(ok, inst, "SIBLING", b.path, "the nanosecond TTL is added with saturating_add", b.where(x.id))
    ctx.check(n >= 3, inst, "anchor", "-", "TTL arithmetic sites (>= 3, found %d)" % n, None)
    # (added when the full self-test showed C11-d missed once the count floor had been lowered for helper extractions) a count of
    # saturating sites cannot tell "two sites moved into a saturating helper" from "two sites moved into a truncating helper".
    # Decided instead on the values: wherever the store layer hands a value named `ttl_seconds` to a callee, the callee is the
    # saturating multiplication by 1e9 or another function of the crate (which is examined in turn); a conversion through
    # Duration / u128 / checked or wrapping arithmetic / a cast is reported.
    n_uses = 0
    for b in ctx.prog.product_bodies():
        if not (b.file.startswith("src/core/store/") or b.file == "src/core/ttl_sweep.rs"):
            continue
        def is_ttl(e):
            return (e.k == "arg" and (e.extra[1] or "") == "ttl_seconds") or (e.k == "local" and (b.local_name(e.extra) or "") == "ttl_seconds")
        for x in b.calls():
            for i_ in range(len(x.ev["args"])):
                e = R.arg_expr(b, x, i_, transparent=False)
                if not is_ttl(e):
                    continue
                n_uses += 1
                local_fn = any(t and t in ctx.prog.bodies for t in ctx.prog.targets(x.ev))
                sat = R.call_matches(x.ev, "u64::saturating_mul")
                ctx.check(local_fn or sat, inst, "SIBLING", b.path, "a TTL in seconds is converted only by saturating_mul(1_000_000_000) (or handed on to a function of the crate)",
                          b.where(x.id), {"callee": R.callee_name(x.ev)})
        for x in b.nodes:
            if x.kind == "assign" and x.ev.get("rv") == "cast":
                v = A.tracer(b, False).operand(x.ev["a"])
                if is_ttl(v):
                    n_uses += 1
                    ctx.fail(inst, "SIBLING", b.path, "a TTL in seconds is converted only by saturating_mul(1_000_000_000): cast of ttl_seconds", b.where(x.id))
    ctx.check(n_uses >= 8, inst, "anchor", "-", "uses of a `ttl_seconds` value as a call argument in the store layer (>= 8, found %d)" % n_uses, None)
    # migration source is opened with TTL filtering off
    b = ctx.fn("migration::migration_config", inst) if ctx.prog.find("migration::migration_config") else None
    if b is None:
        cands = [x for x in ctx.prog.product_bodies() if x.file.endswith("migration.rs") and R.aggregate("StoreConfig")(x)]
        b = cands[0] if len(cands) == 1 else None
        if b is None:
            ctx.anchor_missing(inst, "migration StoreConfig literal (found %d)" % len(cands))
    if b is not None:
        for a in R.aggregate("StoreConfig")(b):
            ev = b.nodes[a].ev
            f = dict(zip(ev["fields"], ev["ops"]))
            v = f.get("enable_ttl", {})
            ctx.check(v.get("k") == "const" and v.get("val") == 0, inst, "PIN", b.path, "migration opens stores with enable_ttl = false (no filtering)", b.where(a))


def check_indexes(ctx):
    """range queries judge expiry on the record held by the ordered-index slot: a TTL change must put the *new* generation
    there too (shared with C14.pair / C01.indexes)"""
    from rules import C14
    C14.check_pair(ctx, "C11.indexes")


def check_ttl_borrow(ctx):
    """a TTL-only generation (update_ttl / persist on a value that lives only on disk) borrows its predecessor's bytes: the disk
    read walks to the generation that owns the extent and must pin, load and *verify* against that generation. Verifying against
    the requested generation hides a just-renewed, unexpired key behind StaleExtent until the next flush (same rule as C08.pin)"""
    from rules import C08
    C08.check_pin(ctx, "C11.ttl-borrow")


def check_ttl_source(ctx):
    """the TTL-only generation links *its predecessor* as value source (Arc::downgrade of the constructor's predecessor argument):
    the retirement licence walks predecessor -> successor, so a link that skips a generation can point at an extent that is
    retired as soon as the skipped generation becomes durable (same constructor pins as C13.fields)"""
    from rules import C13
    C13.check_record_fields(ctx, "C11.ttl-source")


def check(ctx):
    check_ttl_source(ctx)
    check_ttl_borrow(ctx)
    check_indexes(ctx)
    check_pred(ctx)
    check_lazy(ctx)
    check_revalidate(ctx)
    check_arith(ctx)
