"""Structural roles of local variables.

Rule tables talk about locals such as `first_error`, `retries` or `releasable`.
Identifying them by their *debug name* would make a rename of a local variable
(a behaviour-preserving edit) trip a rule. Here each such local is resolved by its
structural role — its type, the call it is passed to, the aggregate it feeds — and
only locals without a resolver fall back to their debug name.
`role_map(body)` : local index -> role name ; arguments are resolved by position.
"""
import re

from feoxlint import analysis as A
from feoxlint import rulekit as R
from feoxlint.model import path_matches, call_matches

OPT_ERR = r"^std::option::Option<error::FeoxError>$"
VEC_ENTRY = r"^std::vec::Vec<storage::write_buffer::WriteEntry>$"


def _user(body, l):
    return body.local_name(l) is not None and l > body.argc


def by_type(body, rx, user_only=True):
    r = re.compile(rx)
    return [l for l in range(1, len(body.locals)) if r.search(body.local_ty(l)) and (not user_only or _user(body, l))]


def _base_local(body, e):
    """the (opaque) local an expression is a view of"""
    x = e
    for _ in range(10):
        if x.k == "local":
            return x.extra
        if x.k in ("field", "downcast", "index") and x.a:
            x = x.a[0]
            continue
        break
    return None


def recv_local(body, node, idx=0):
    args = node.ev.get("args", [])
    if idx >= len(args):
        return None
    l = R.op_local(args[idx])
    # &mut x / &x temporaries: follow the reference chain without the value tracer
    seen = 0
    while l is not None and seen < 6:
        if body.local_name(l) and l > body.argc:
            return l
        ds = body.defs.get(l, [])
        if len(ds) != 1:
            return l
        n = body.nodes[ds[0]]
        if n.kind == "assign" and n.ev.get("rv") in ("ref", "rawptr"):
            pl = n.ev["pl"]
            l = pl["l"]
        elif n.kind == "assign" and n.ev.get("rv") == "use":
            l = R.op_local(n.ev["a"]) if R.op_local(n.ev["a"]) is not None else (n.ev["a"].get("pl", {}) or {}).get("l")
        elif n.kind == "call" and any(call_matches(n.ev, t) for t in ("Deref::deref", "DerefMut::deref_mut", "AsRef::as_ref", "Vec::as_slice")):
            l = R.op_local(n.ev["args"][0])
        else:
            return l
        seen += 1
    return l


def _calls(body, *names):
    return [n for n in body.calls() if any(call_matches(n.ev, nm) for nm in names)]


# ---------------------------------------------------------------------------------------------------------
# resolvers: each returns {role: local index}

def r_first_error(body):
    ls = by_type(body, OPT_ERR)
    return {"first_error": ls[0]} if len(ls) == 1 else {}


def r_force_flush(body):
    out = dict(r_first_error(body))
    pw = by_type(body, r"^std::vec::Vec<usize>$")
    if len(pw) == 1:
        out["pending_workers"] = pw[0]
    rs = by_type(body, r"^std::vec::Vec<\(usize, crossbeam_channel::Receiver<")
    if len(rs) == 1:
        out["responses"] = rs[0]
    return out


def r_flush_worker_shards(body):
    out = dict(r_first_error(body))
    for n in _calls(body, "ShardedWriteBuffer::requeue_entries"):
        l = recv_local(body, n, 1)
        if l is not None:
            out["shard_retries"] = l
    return out


def r_process_deletions(body):
    out = dict(r_first_error(body))
    for n in _calls(body, "DiskIO::retire_extents"):
        l = recv_local(body, n, 1)
        if l is not None:
            out["marker_extents"] = l
    vecs = [l for l in by_type(body, VEC_ENTRY)]
    for n in _calls(body, "slice::sort_unstable_by_key"):
        l = recv_local(body, n, 0)
        if l is not None:
            out["releasable"] = l
    for n in _calls(body, "write_buffer::release_retirement_group"):
        l = recv_local(body, n, 0)
        if l is not None:
            out["group"] = l
    # release_operations.append(&mut marker_writes): both are Vec<WriteEntry> user locals
    for n in _calls(body, "Vec::append"):
        a, b = recv_local(body, n, 0), recv_local(body, n, 1)
        if a in vecs and b in vecs:
            out["release_operations"] = a
            out["marker_writes"] = b
    return out


def r_process_write_batch(body):
    out = dict(r_first_error(body))
    pw = by_type(body, r"^std::vec::Vec<storage::write_buffer::PreparedWrite>$")
    if len(pw) == 1:
        out["prepared_writes"] = pw[0]
    bw = by_type(body, r"^std::vec::Vec<\(u64, bytes::Bytes\)>$")
    if len(bw) == 1:
        out["batch_writes"] = bw[0]
    je = by_type(body, r"^std::vec::Vec<\(u64, usize\)>$")
    if len(je) == 1:
        out["journal_extents"] = je[0]
    for n in _calls(body, "write_buffer::failed_batch_outcome"):
        d, r_ = recv_local(body, n, 3), recv_local(body, n, 4)
        if d is not None:
            out["delete_operations"] = d
        if r_ is not None:
            out["retry_entries"] = r_
    return out


def r_flush_pending_deletions(body):
    out = {}
    for n in _calls(body, "write_buffer::process_deletions"):
        l = recv_local(body, n, 5)
        if l is not None:
            out["retries"] = l
    return out


def r_release_scrubbed(body):
    out = {}
    for n in _calls(body, "slice::sort_unstable_by_key"):
        l = recv_local(body, n, 0)
        if l is not None:
            out["ordered"] = l
    return out


def r_scan(body):
    out = {}
    # the vector handed to remove_expired_recovery_winners collects the expired winners; the other vector that reaches
    # retire_extents collects the stale duplicates found by the scan
    exp = None
    for n in _calls(body, "FeoxStore::remove_expired_recovery_winners"):
        exp = recv_local(body, n, 3)
    for n in sorted(_calls(body, "DiskIO::retire_extents"), key=lambda x: x.id):
        l = recv_local(body, n, 1)
        if l is None:
            continue
        if l == exp and "retired_extents" in out:
            out["expired_extents"] = l
        elif "retired_extents" not in out:
            out["retired_extents"] = l
    for n in _calls(body, "DiskIO::replay_allocation_journal"):
        l = recv_local(body, n, 1)
        if l is not None:
            out["allocation_journal"] = l
    if "allocation_journal" not in out:
        aj = by_type(body, r"^std::vec::Vec<\(u64, usize\)>$")
        for l in aj:
            # `val` / `residual` are the bindings of the `?` desugaring, not source variables
            if l != out.get("retired_extents") and body.local_name(l) not in ("val", "residual"):
                out["allocation_journal"] = l
    rt = by_type(body, r"^std::option::Option<u64>$")
    for l in rt:
        ds = body.defs.get(l, [])
        if len(ds) == 1 and body.nodes[ds[0]].kind == "call" and call_matches(body.nodes[ds[0]].ev, "bool::then"):
            out["recovery_time"] = l
    return out


def r_remove_expired(body):
    out = {}
    ex = by_type(body, r"^std::vec::Vec<\(std::vec::Vec<u8>, std::sync::Arc<core::record::Record>\)>$")
    if len(ex) == 1:
        out["expired"] = ex[0]
    return out


def r_range_query(body):
    out = {}
    rs = by_type(body, r"^std::vec::Vec<\(std::vec::Vec<u8>, std::vec::Vec<u8>\)>$")
    if len(rs) == 1:
        out["results"] = rs[0]
    return out


def r_batch_write_inner(body):
    out = {}
    bs = by_type(body, r"^storage::io::InFlightBuffers<")
    if len(bs) == 1:
        out["buffers"] = bs[0]
    return out


def r_get_entry(body):
    out = {}
    for l in by_type(body, r"^bool$"):
        ds = body.defs.get(l, [])
        if len(ds) >= 2 and any(body.nodes[d].kind == "call" and call_matches(body.nodes[d].ev, "ptr::eq") for d in ds):
            out["generation_matches"] = l
    return out


def r_open_mode(body):
    out = {}
    for l in by_type(body, r"^bool$"):
        ds = body.defs.get(l, [])
        if len(ds) >= 2 and all(body.nodes[d].kind == "assign" and body.nodes[d].ev.get("rv") == "use" and body.nodes[d].ev["a"].get("k") == "const" for d in ds):
            # the matches!(&open_mode, ReadOnly(_)) flag: the one stored into the FeoxStore literal's read_only field
            for n in body.nodes:
                if n.kind == "assign" and n.ev.get("rv") == "agg" and path_matches(n.ev.get("adt") or "", "core::store::FeoxStore"):
                    f = dict(zip(n.ev["fields"], n.ev["ops"]))
                    v = A.tracer(body, False).operand(f.get("read_only"))
                    if v.k == "local" and v.extra == l:
                        out["read_only"] = l
    return out


def r_update_ttl_closure(body):
    out = {}
    ce = by_type(body, r"^std::option::Option<core::cache::RecordCacheEntry<")
    if ce:
        out["cache_entry"] = ce[-1]
    return out


def r_zero_scan(body):
    out = {}
    # `remaining`: the u64 counter compared with 0 in the loop head and decremented
    for l in by_type(body, r"^u64$"):
        if len(body.defs.get(l, [])) >= 2:
            out["remaining"] = l
    for l in by_type(body, r"^std::vec::Vec<u8>$"):
        out["buffer"] = l
    return out


def r_decode(body):
    out = {}
    vs = by_type(body, r"^std::vec::Vec<storage::allocation_journal::JournalState>$")
    if len(vs) == 1:
        out["valid"] = vs[0]
    return out


RESOLVERS = [
    ("WriteBuffer::force_flush", r_force_flush),
    ("write_buffer::flush_worker_shards", r_flush_worker_shards),
    ("write_buffer::process_deletions", r_process_deletions),
    ("write_buffer::process_write_batch", r_process_write_batch),
    ("write_buffer::flush_pending_deletions", r_flush_pending_deletions),
    ("write_buffer::release_scrubbed_allocations", r_release_scrubbed),
    ("write_buffer::release_allocations", r_first_error),
    ("FeoxStore::scan_and_rebuild_indexes", r_scan),
    ("FeoxStore::remove_expired_recovery_winners", r_remove_expired),
    ("FeoxStore::range_query", r_range_query),
    ("DiskIO::batch_write_inner", r_batch_write_inner),
    ("ClockCache::get_entry", r_get_entry),
    ("FeoxStore::with_config_and_open_mode", r_open_mode),
    ("persistence::file_is_all_zero", r_zero_scan),
    ("allocation_journal::decode", r_decode),
]

# argument roles by position (argument names are part of the signature, but positions are what callers rely on)
ARG_ROLES = {
    "write_buffer::process_deletions": {5: "delete_operations", 6: "retries", 7: "released_sectors"},
    "write_buffer::failed_batch_outcome": {3: "prepared_writes", 4: "delete_operations", 5: "retry_entries", 7: "failure"},
    "write_buffer::release_retirement_group": {1: "group", 5: "retries", 6: "first_error"},
    "FeoxStore::remove_expired_recovery_winners": {2: "now", 4: "retired_extents"},
    "FeoxStore::retire_expired_if_current": {4: "now"},
}


def role_map(body):
    rm = getattr(body, "_roles", None)
    if rm is not None:
        return rm
    rm = {}
    owner = body.path
    for pat, f in RESOLVERS:
        if path_matches(owner, pat):
            try:
                for role, l in f(body).items():
                    rm[l] = role
            except Exception:
                pass
    if body.is_closure and path_matches(body.root, "FeoxStore::update_ttl"):
        for role, l in r_update_ttl_closure(body).items():
            rm[l] = role
    for pat, m in ARG_ROLES.items():
        if path_matches(owner, pat):
            for idx, role in m.items():
                rm[idx] = role
    body._roles = rm
    # roles claimed by a resolver: a *different* local carrying that debug name must not be taken for it
    body._claimed = set(rm.values())
    return rm


def name_of(body, l):
    """role of a local if it has one, else its debug name (unless that name is a role claimed by another local)"""
    rm = role_map(body)
    if l in rm:
        return rm[l]
    nm = body.local_name(l)
    if nm in body._claimed:
        return None
    return nm


def locals_with_role(body, role):
    rm = role_map(body)
    got = [l for l, r in rm.items() if r == role]
    if got:
        return got
    return [l for l in range(len(body.locals)) if body.local_name(l) == role]
