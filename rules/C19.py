"""C19 — write-behind is bounded: accepted writes reach the device without explicit flush.
Decided: the *coverage* clauses the time bound rests on (who is woken, for which shards, how often, and that what could not be
done is kept for the next tick). Not decided: the time bound itself (scheduler, I/O time, fairness)."""
from feoxlint import analysis as A
from feoxlint import locks as L
from feoxlint import rulekit as R
from feoxlint.model import path_matches, call_matches
from rules import common as S
from rules import storevocab as V

EXPLANATION = """
The statement is a wall-clock bound and no static argument bounds a delay. What is in the shape of the code is the coverage
the bound rests on, and each clause below is a necessary condition: break it and some accepted write (or some retirement) stays
in memory for as long as nobody calls flush(), whatever the machine does.
(1) ownership: worker w drains shards w, w+W, w+2W.. of the store's shard vector, W = number of workers started, one worker per
residue (shared with C02.ack/partition); (2) the periodic coordinator is spawned on every path of start_workers, sleeps the
documented interval (constant WRITE_BUFFER_FLUSH_INTERVAL, at most 100 ms), and on every tick walks *all* worker channels; for
worker w it looks at exactly the shards w owns (same residue class, same vectors), the test is `count > 0`, a positive test
always reaches a try_send on w's own channel, and worker 0 is also woken when the retirement queue (the store's own) is
non-empty; the request it sends does not defer retirements; (3) the full-buffer trigger runs after every successful enqueue with
the shard the entry went to, maps the shard to its owner (shard % W) and sends whenever the shard is full (count >= 1024 or
size >= 16 MiB, non-strict); (4) the per-shard counters the coordinator and the trigger look at move with the queue under the
shard lock (a count reset outside the lock can hide a freshly queued entry from the coordinator for ever); (5) the worker
answers every request it receives with a flush of its shards and keeps polling after a timeout; a flush that was not told to
defer retirements flushes the retirement queue; (6) a retirement that could not complete is put back on the queue, and every
delete / superseded generation taken out of a shard reaches the queue.
"""
DECIDED = ['every accepted mutation is handed to the write buffer (a replacement together with the generation it replaced) unless store configuration says there is no device; no record state is consulted at enqueue time', "the reader count of an extent always comes back down, so a retirement is never parked for ever (shared with C08 / C18.readers)", "(1) worker shard sets partition the shard vector", "(2) periodic coordinator: always spawned, documented interval, all workers, "
           "each worker's own shards, count > 0 => wake on that worker's channel, worker 0 for pending retirements, retirements not deferred",
           "(3) full-buffer trigger: after every enqueue, owner = shard % W, non-strict thresholds",
           "(4) shard counters are maintained under the shard lock", "(5) every received request is answered by a flush; timeout keeps polling",
           "(6) unfinished retirements are requeued; deletes taken from a shard reach the retirement queue"]
NOT_DECIDED = ["the time bound itself (flush interval plus I/O time): scheduling, device latency, fairness between workers",
               "progress when a reader never leaves an extent or the device keeps failing"]
ASSUMPTIONS = ["try_send on a full worker channel may be dropped: the channel then already holds a request that will trigger the same flush",
               "WriteBuffer.worker_channels is complete when the coordinator clones it (checked: no push after the clone)"]

INTERVAL_MAX_NANOS = 100_000_000   # README / lib.rs: "Flushes every 100ms"


def _upvar_index(e):
    """index of the captured variable a closure-body expression is (a view of), or None"""
    for x in e.walk():
        if x.k == "field" and x.a and x.a[0].k == "arg" and x.a[0].extra[0] == 1:
            try:
                return int(x.extra[1])
            except (TypeError, ValueError):
                return None
    return None


def _deep(body, e):
    """all sub-expressions of e, following opaque locals through every definition (named, mutably borrowed iterators ..)"""
    tr = A.tracer(body)
    seen = set()
    work = [e]
    out = []
    while work:
        x = work.pop()
        for y in x.walk():
            out.append(y)
            if y.k == "local" and y.extra not in seen:
                seen.add(y.extra)
                for d in body.defs.get(y.extra, []):
                    work.append(tr.node_value(d))
    return out


ARITH_CALLS = ("ops::arith::", "::checked_", "::saturating_", "::wrapping_", "::overflowing_", "::pow", "::min", "::max", "::clamp", "::div_ceil", "::next_multiple_of")


def _no_arith(e):
    """the expression only names a value (fields, loads, len(), copies): no operator and no arithmetic method on the way"""
    return not any(y.k == "bin" or (y.k == "call" and any(t in y.extra for t in ARITH_CALLS)) for y in e.walk())


def _periodic_closure(ctx, inst):
    prog = ctx.prog
    ents = [(clo, fn) for (clo, fn, site) in L.thread_entries(prog)
            if path_matches(fn, "WriteBuffer::start_workers") and not prog.reaches_name(clo, "write_buffer::write_buffer_worker")]
    if len(ents) != 1:
        ctx.anchor_missing(inst, "periodic coordinator: expected exactly one non-worker thread spawned by start_workers, found %d" % len(ents))
        return None
    return prog.bodies[ents[0][0]]


def check_periodic(ctx):
    inst = "C19.periodic"
    prog = ctx.prog
    sw = ctx.fn("WriteBuffer::start_workers", inst)
    p = _periodic_closure(ctx, inst)
    if sw is None or p is None:
        return
    parent, ups = S.upvar_parent_exprs(prog, p)
    upnames = {i: u["name"] for i, u in enumerate(p.raw.get("upvars", []))}

    def parent_field(idx):
        """(adt, field) names the captured variable idx is a clone of in start_workers"""
        e = ups.get(idx)
        return {(x.extra[0].rsplit("::", 1)[-1], x.extra[1]) for x in e.walk() if x.k == "field" and x.extra[0]} if e is not None else set()

    def is_upvar_of(e, field):
        i = _upvar_index(e)
        return i is not None and ("WriteBuffer", field) in parent_field(i)

    # (a) spawned on every path of start_workers, and the channel vector is complete when it is cloned for the coordinator
    spawns = [n.id for n in sw.calls() if call_matches(n.ev, "thread::spawn") and
              any(x.k == "agg" and x.extra == p.path for a in n.ev["args"] for x in A.tracer(sw).operand(a).walk())]
    ctx.check(len(spawns) == 1, inst, "anchor", sw.path, "one spawn of the periodic coordinator (found %d)" % len(spawns), None)
    if spawns:
        r, ps = A.reach(sw, [sw.entry], blocked_nodes=set(spawns))
        bad = [x for x in sw.return_nodes() if x in r]
        ctx.check(not bad, inst, "FOLLOW", sw.path, "every path through start_workers spawns the periodic coordinator", sw.where(spawns[0]),
                  None if not bad else {"witness": R.witness(sw, ps, r.get(bad[0]))})
    pushes = [n.id for n in sw.calls() if call_matches(n.ev, "Vec::push") and R.arg_expr(sw, n, 0).has_field("WriteBuffer", "worker_channels")]
    clo_nodes = [n.id for n in sw.nodes if n.kind == "assign" and n.ev.get("rv") == "agg" and n.ev.get("agg") == "closure" and n.ev.get("def") == p.path]
    for c in clo_nodes:
        # the clone captured by the closure is taken after the last push: no push is reachable from the capture's defining clone
        ch = [i for i in ups if ("WriteBuffer", "worker_channels") in parent_field(i)]
        ctx.check(len(ch) == 1, inst, "PROVENANCE", sw.path, "the coordinator captures (a clone of) WriteBuffer.worker_channels", sw.where(c))
        for i in ch:
            clones = [x.nid for x in A.tracer(sw, transparent=False).operand(sw.nodes[c].ev["ops"][i]).walk() if x.k == "call" and x.nid is not None]
            for cl in clones:
                r, _ = A.reach(sw, A.succs(sw, cl), sensitive=False)
                ctx.check(not any(x in r for x in pushes), inst, "NEVER-AFTER", sw.path,
                          "no worker channel is added after the coordinator took its copy of the channel vector", sw.where(cl))
        for fld in ("sharded_buffers", "retirement_queue", "shutdown"):
            ctx.check(any(("WriteBuffer", fld) in parent_field(i) for i in ups), inst, "PROVENANCE", sw.path,
                      "the coordinator sees the store's own %s" % fld, sw.where(c))

    # (b) the tick: one sleep of the documented constant
    sl = ctx.sites(p, R.call("thread::sleep"), inst, exact=1)
    for s in sl:
        e = R.arg_expr(p, p.nodes[s], 0)
        ctx.check(e.k == "const" and e.has_const(name="WRITE_BUFFER_FLUSH_INTERVAL"), inst, "PIN", p.path,
                  "the coordinator sleeps WRITE_BUFFER_FLUSH_INTERVAL between two scans", p.where(s), {"arg": e.show()[:80]})
    try:
        c = prog.const("constants::WRITE_BUFFER_FLUSH_INTERVAL")
        by = c.get("bytes") or []
        secs = int.from_bytes(bytes(by[0:8]), "little") if len(by) >= 12 else None
        nanos = int.from_bytes(bytes(by[8:12]), "little") if len(by) >= 12 else None
        ctx.check(secs == 0 and nanos is not None and 0 < nanos <= INTERVAL_MAX_NANOS, inst, "PIN", "constants",
                  "WRITE_BUFFER_FLUSH_INTERVAL is positive and at most the documented 100 ms", None, {"secs": secs, "nanos": nanos})
    except Exception as ex:  # AnchorMissing
        ctx.anchor_missing(inst, str(ex))

    # (c) every tick walks all worker channels
    nx = [n.id for n in p.calls() if call_matches(n.ev, "Iterator::next") and any(y.k == "call" and path_matches(y.extra, "Iterator::enumerate") for y in _deep(p, R.recv_expr(p, n)))]
    ctx.check(len(nx) == 1, inst, "anchor", p.path, "one enumerate() loop over the worker channels (found %d)" % len(nx), None)
    if not nx or not sl:
        return
    it = R.recv_expr(p, p.nodes[nx[0]])
    itd = _deep(p, it)
    calls = [c.extra for c in itd if c.k == "call"]
    restr = [c for c in calls if any(path_matches(c, f) for f in S.RESTRICTING)]
    ctx.check(any(is_upvar_of(y, "worker_channels") for y in itd if y.k == "field") and not restr, inst, "PROVENANCE", p.path,
              "the scan enumerates the whole worker-channel vector (no skip / take / filter / step)", p.where(nx[0]), {"iter": it.show()[:120], "restricted_by": restr})
    # from the sleep, the only way on is into the channel loop (no early `continue` past the scan)
    flag_loads = [n.id for n in p.calls() if R._is_atomic_call(n.ev, R.ATOMIC_LOADS) and is_upvar_of(R.recv_expr(p, n), "shutdown")]
    ctx.check(len(flag_loads) >= 1, inst, "anchor", p.path, "the coordinator polls WriteBuffer.shutdown", None)
    r, ps = A.reach(p, A.succs(p, sl[0]), blocked_nodes=set(nx))
    bad = [x for x in flag_loads + p.return_nodes() + sl if x in r]
    ctx.check(not bad, inst, "FOLLOW", p.path, "after every sleep the coordinator scans the workers before it sleeps or leaves again", p.where(sl[0]),
              None if not bad else {"witness": R.witness(p, ps, r.get(bad[0]))})
    # the coordinator lives as long as the store: it leaves its loop only on the raised shutdown flag (a failed try_send - a busy
    # worker's channel is legitimately full - an empty scan or an error must not end it)
    fe = A.pred_edges(p, lambda e: e.k == "call" and e.nid in flag_loads, "true")
    R.guard(ctx, inst, p, p.return_nodes(), fe, "the coordinator thread ends only when WriteBuffer.shutdown is raised")

    # (d) for worker w: exactly the shards w owns
    tr = A.tracer(p)
    anys = ctx.sites(p, R.call("Iterator::any"), inst, exact=1)
    sends = ctx.sites(p, R.call("Sender::try_send"), inst, exact=1)

    def is_loop_index(e):
        """the enumerate index of the current iteration: field .0 of the Some payload of next()"""
        return _no_arith(e) and any(c.nid == nx[0] for c in e.calls()) and e.k == "field" and str(e.extra[1]) == "0"

    def is_loop_channel(e):
        return _no_arith(e) and any(c.nid == nx[0] for c in e.calls()) and e.k == "field" and str(e.extra[1]) == "1"

    for a in anys:
        rc = R.recv_expr(p, p.nodes[a])
        sb = [c for c in rc.calls() if path_matches(c.extra, "Iterator::step_by")]
        ok = len(sb) == 1 and not [c for c in rc.calls() if any(path_matches(c.extra, f) for f in S.RESTRICTING) and not path_matches(c.extra, "Iterator::step_by")]
        ctx.check(ok, inst, "PIN", p.path, "a worker's shards are scanned as one stepped range (no further skip / take / filter)", p.where(a), {"recv": rc.show()[:160]})
        if ok:
            rg, st = sb[0].a[0], sb[0].a[1]
            shape = rg.k == "agg" and str(rg.extra).endswith("Range") and len(rg.a) == 2
            ctx.check(shape and is_loop_index(rg.a[0]), inst, "PIN", p.path,
                      "the scan for worker w starts at shard w (the enumerate index of this iteration, no offset)", p.where(a), {"range": rg.show()[:120]})
            ctx.check(shape and rg.a[1].has_call("Vec::len") and is_upvar_of(rg.a[1], "sharded_buffers") and _no_arith(rg.a[1]), inst, "PIN", p.path,
                      "... runs to the end of the store's shard vector", p.where(a), {"range": rg.show()[:120]})
            ctx.check(st.has_call("Vec::len") and is_upvar_of(st, "worker_channels") and _no_arith(st), inst, "PIN", p.path,
                      "... in steps of the number of workers (the same W the workers step by: one channel per started worker)", p.where(a), {"step": st.show()[:80]})
        # the predicate: sharded_buffers[shard].count > 0
        cbs = [prog.bodies[x.extra] for x in R.arg_expr(p, p.nodes[a], 1).walk() if x.k == "agg" and x.extra in prog.bodies]
        ctx.check(len(cbs) == 1, inst, "anchor", p.path, "the shard test is a closure", p.where(a))
        for cb in cbs:
            cmp_ = S.closure_ret_cmp(cb)
            good = False
            det = None
            if cmp_ is not None:
                det = {"op": cmp_["op"], "lhs": cmp_["lhs"][:80], "rhs": cmp_["rhs"][:80]}
                l, rr = cmp_["lhs_e"], cmp_["rhs_e"]

                def is_count(e):
                    return e.has_field("ShardedWriteBuffer", "count") and e.has_call("Atomic::load") and _no_arith(e)

                def is_zero(e):
                    return e.k == "const" and (e.extra or {}).get("val") == 0
                # count > 0  ==  Lt(0, count);  count != 0 == Ne
                good = (cmp_["op"] == "Lt" and is_zero(l) and is_count(rr)) or (cmp_["op"] == "Ne" and ((is_zero(l) and is_count(rr)) or (is_zero(rr) and is_count(l))))
                cnt = rr if is_count(rr) else l
                # the shard looked at is sharded_buffers[item], item = the closure's argument, no arithmetic
                idx = [y for y in cnt.walk() if (y.k == "call" and y.extra.endswith("::index") and len(y.a) == 2) or (y.k == "index" and len(y.a) == 2)]
                same = len(idx) == 1 and idx[0].a[1].k == "arg" and idx[0].a[1].extra[0] == 2
                par, pes = S.closure_expr_parents(prog, cb, idx[0].a[0]) if idx else (None, [])
                vec_ok = bool(pes) and all(is_upvar_of(x, "sharded_buffers") for x in pes)
                ctx.check(same and vec_ok, inst, "PROVENANCE", cb.path, "the shard tested is sharded_buffers[shard_id] of the scanned id (no offset, the store's shard vector)",
                          cb.where(cb.defs[0][0]) if cb.defs.get(0) else None, {"count": cnt.show()[:160]})
            ctx.check(good, inst, "PIN", cb.path, "a shard counts as pending iff its entry count is > 0", None, det)
        # pending => wake: from the true edge of `any`, every way on passes the try_send before the next worker / the next tick
        keys = A.call_roots(p, [a])
        ed = A.pred_edges(p, lambda e: e.key() in keys or (e.k == "local" and any(("call", a) == o for o in A.origins(p, e))), "true")
        ctx.check(bool(ed), inst, "anchor", p.path, "the result of the shard scan is branched on", p.where(a))
        for (s_, l_) in ed:
            r, ps = A.reach(p, S.edge_targets(p, s_, l_), blocked_nodes=set(sends))
            bad = [x for x in nx + sl + p.return_nodes() if x in r]
            ctx.check(not bad, inst, "FOLLOW", p.path, "a worker with a non-empty shard is always sent a flush request on this tick", p.where(s_),
                      None if not bad else {"witness": R.witness(p, ps, r.get(bad[0]))})
    for s in sends:
        e = R.recv_expr(p, p.nodes[s])
        ctx.check(is_loop_channel(e), inst, "PROVENANCE", p.path, "the request goes to the channel of the worker whose shards were scanned", p.where(s), {"recv": e.show()[:120]})
        req = R.arg_expr(p, p.nodes[s], 1)
        _check_request(ctx, inst, p, s, req)

    # (e) retirements: worker 0 is woken while the store's retirement queue is non-empty
    locks = [n.id for n in p.calls() if call_matches(n.ev, "Mutex::lock") and R.recv_expr(p, n).has_field("RetirementQueue", "pending")]
    ctx.check(len(locks) == 1, inst, "anchor", p.path, "the coordinator looks at RetirementQueue.pending once per tick (found %d)" % len(locks), None)
    for lk in locks:
        ctx.check(is_upvar_of(R.recv_expr(p, p.nodes[lk]), "retirement_queue"), inst, "PROVENANCE", p.path, "... of the store's own retirement queue", p.where(lk))
        R.dom(ctx, inst, p, sl, [lk], "the queue is looked at after the sleep of the same tick (a fresh reading)", a_desc="thread::sleep")
        R.dom(ctx, inst, p, [lk], nx, "... and before the workers are scanned", a_desc="pending.lock()")

    def pending_flag(e):
        # a bool local defined as !is_empty(<pending guard>)
        if e.k != "local":
            return False
        for d in p.defs.get(e.extra, []):
            v = A.tracer(p, transparent=False).node_value(d)
            neg = False
            while v.k == "un" and v.extra == "Not":
                neg = not neg
                v = v.a[0]
            if v.k == "call" and path_matches(v.extra, "Vec::is_empty") and any(("call", lk) in A.origins(p, v) or v.has_field("RetirementQueue", "pending") for lk in locks):
                return neg
        return False
    pe = A.pred_edges(p, pending_flag, "true")
    if not pe:
        # `!pending.is_empty()` tested directly
        pe = A.pred_edges(p, lambda e: e.k == "call" and path_matches(e.extra, "Vec::is_empty") and e.has_field("RetirementQueue", "pending"), "false")
    ctx.check(bool(pe), inst, "anchor", p.path, "`retirements pending` (= !pending.is_empty()) is branched on", None)
    for (s_, l_) in pe:
        r, ps = A.reach(p, S.edge_targets(p, s_, l_), blocked_nodes=set(sends))
        bad = [x for x in nx + sl + p.return_nodes() if x in r]
        ctx.check(not bad, inst, "FOLLOW", p.path, "[retirements pending] the worker this test is made for is sent a flush request", p.where(s_),
                  None if not bad else {"witness": R.witness(p, ps, r.get(bad[0]))})
    # the worker the retirement test is made for is worker 0 (which always exists: C19.owner pins clamp(1, ..))
    z = [s_ for s_ in A.switches(p) if (lambda r_: r_.k == "bin" and r_.extra == "Eq" and any(is_loop_index(x) for x in r_.a) and
                                          any(x.k == "const" and (x.extra or {}).get("val") == 0 for x in r_.a))(A.switch_info(p, s_).root)]
    ctx.check(len(z) == 1, inst, "PIN", p.path, "pending retirements wake worker 0 (`worker_id == 0`), which exists for every worker count", None)
    for s_ in z:
        # the pending-flag test is reached from the `== 0` true edge, and from the false edge without passing the flag test no send happens... (the
        # true edge must lead to the flag test)
        te = [(s2, l2) for (s2, l2) in A.pred_edges(p, lambda e: e.key() == A.switch_info(p, s_).root.key(), "true")]
        for (s2, l2) in te:
            r, _ = A.reach(p, S.edge_targets(p, s2, l2), blocked_nodes={x for (x, _) in pe})
            bad = [x for x in nx + sl if x in r and not any(y in r for y in sends)]
            ctx.check(not bad, inst, "FOLLOW", p.path, "for worker 0 the retirement queue is always consulted when its shards are empty", p.where(s2))


def _check_request(ctx, inst, body, site, req):
    """the FlushRequest literal a non-waiting trigger sends: retirements are not deferred"""
    lits = [x for x in req.walk() if x.k == "agg" and str(x.extra).endswith("FlushRequest")]
    if len(lits) != 1:
        ctx.fail(inst, "anchor", body.path, "the request sent is a FlushRequest literal", body.where(site), {"req": req.show()[:120]})
        return
    adt = ctx.prog.adt("write_buffer::FlushRequest")
    names = [f["name"] if isinstance(f, dict) else f for f in adt["variants"][0]["fields"]] if adt.get("variants") else []
    lit = lits[0]
    try:
        i = names.index("defer_retirements")
    except ValueError:
        ctx.anchor_missing(inst, "FlushRequest.defer_retirements")
        return
    v = lit.a[i] if i < len(lit.a) else None
    ctx.check(v is not None and v.k == "const" and (v.extra or {}).get("val") == 0, inst, "PIN", body.path,
              "a background trigger asks for retirements too (defer_retirements: false)", body.where(site), {"value": v.show() if v is not None else None})


def check_trigger(ctx):
    inst = "C19.trigger"
    prog = ctx.prog
    # (a) after every successful enqueue, with the shard the entry went to
    for fn in ("WriteBuffer::add_write", "WriteBuffer::add_replacement"):
        b = ctx.fn(fn, inst)
        if b is None:
            continue
        ae = ctx.sites(b, R.call("ShardedWriteBuffer::add_entries"), inst, exact=1)
        tf = ctx.sites(b, R.call("WriteBuffer::trigger_flush"), inst, exact=1)
        if not ae or not tf:
            continue
        R.follow(ctx, inst, b, ae, tf, "a successful enqueue is always followed by the full-buffer test", b_desc="trigger_flush")
        a, t = b.nodes[ae[0]], b.nodes[tf[0]]
        buf = R.recv_expr(b, a)
        sid = R.arg_expr(b, t, 1)
        tbuf = R.arg_expr(b, t, 2)
        idx = [y for y in buf.walk() if (y.k == "call" and y.extra.endswith("::index") and len(y.a) == 2) or (y.k == "index" and len(y.a) == 2)]
        ok = len(idx) == 1 and idx[0].a[0].has_field("WriteBuffer", "sharded_buffers") and idx[0].a[1].key() == sid.key() and _no_arith(sid)
        ctx.check(ok, inst, "PROVENANCE", b.path, "the shard id handed to the trigger is the index of the shard the entry was queued on", b.where(tf[0]),
                  {"queued_on": buf.show()[:120], "shard_id": sid.show()[:80]})
        ctx.check(tbuf.key() == buf.key(), inst, "PROVENANCE", b.path, "the buffer tested for fullness is the shard the entry was queued on", b.where(tf[0]),
                  {"tested": tbuf.show()[:120]})
        ctx.check(sid.has_call("WriteBuffer::get_shard_id") or any(path_matches(c.extra, "get_shard_id") for c in sid.calls()), inst, "PROVENANCE", b.path,
                  "the shard is chosen by get_shard_id(key)", b.where(tf[0]), {"shard_id": sid.show()[:80]})
    # (b) owner = shard % W; full => send
    b = ctx.fn("WriteBuffer::trigger_flush", inst)
    if b is not None:
        sends = ctx.sites(b, R.call("Sender::try_send", "Sender::send"), inst, exact=1)
        full = ctx.sites(b, R.call("ShardedWriteBuffer::is_full"), inst, exact=1)
        for s in sends:
            e = R.recv_expr(b, b.nodes[s])
            idx = [y for y in e.walk() if (y.k == "call" and y.extra.endswith("::index") and len(y.a) == 2) or (y.k == "index" and len(y.a) == 2)]
            ok = len(idx) == 1 and idx[0].a[0].has_field("WriteBuffer", "worker_channels") and _no_arith(idx[0].a[0])
            w = idx[0].a[1] if idx else None
            rem = ok and w.k == "bin" and w.extra == "Rem" and w.a[0].k == "arg" and w.a[0].extra[0] == 2 and \
                w.a[1].has_call("Vec::len") and w.a[1].has_field("WriteBuffer", "worker_channels") and _no_arith(w.a[1])
            ctx.check(bool(rem), inst, "PIN", b.path, "a full shard wakes its owner: worker_channels[shard_id % worker_channels.len()] (worker w owns the shards = w mod W)",
                      b.where(s), {"recv": e.show()[:160]})
            _check_request(ctx, inst, b, s, R.arg_expr(b, b.nodes[s], 1))
        for f in full:
            e = R.recv_expr(b, b.nodes[f])
            ctx.check(e.k == "arg" and e.extra[0] == 3, inst, "PROVENANCE", b.path, "fullness is tested on the buffer the caller queued on", b.where(f), {"recv": e.show()[:80]})
            for (s_, l_) in R.guard_edges_for_call(b, [f], "true"):
                # [full] and [at least one worker] => send
                def wlen(x):
                    return x.has_call("Vec::len") and x.has_field("WriteBuffer", "worker_channels") and _no_arith(x)

                def zero(x):
                    return x.k == "const" and (x.extra or {}).get("val") == 0
                # "no worker was started": worker_channels.is_empty(), len == 0, !(0 < len)
                ne = A.pred_edges(b, lambda x: x.k == "call" and path_matches(x.extra, "Vec::is_empty") and x.has_field("WriteBuffer", "worker_channels"), "true") + \
                    A.pred_edges(b, lambda x: x.k == "bin" and x.extra == "Eq" and ((wlen(x.a[0]) and zero(x.a[1])) or (wlen(x.a[1]) and zero(x.a[0]))), "true") + \
                    A.pred_edges(b, lambda x: x.k == "bin" and x.extra == "Lt" and zero(x.a[0]) and wlen(x.a[1]), "false")
                r, ps = A.reach(b, S.edge_targets(b, s_, l_), blocked_nodes=set(sends), blocked_edges=set(ne))
                bad = [x for x in b.return_nodes() if x in r]
                ctx.check(not bad, inst, "FOLLOW", b.path, "[shard full, workers started] a flush request is always sent", b.where(s_),
                          None if not bad else {"witness": R.witness(b, ps, r.get(bad[0]))})
            ctx.check(bool(R.guard_edges_for_call(b, [f], "true")), inst, "anchor", b.path, "is_full() is branched on", b.where(f))
    # (c) thresholds
    b = ctx.fn("ShardedWriteBuffer::is_full", inst)
    if b is not None:
        def ld(field):
            return lambda e: e.has_field("ShardedWriteBuffer", field) and e.has_call("Atomic::load") and _no_arith(e)

        def cn(name):
            return lambda e: e.k == "const" and e.has_const(name=name)
        S.pin_comparisons(ctx, inst, b, [
            ("Lt", ld("count"), cn("WRITE_BUFFER_SIZE"), "a shard is full at count >= WRITE_BUFFER_SIZE (non-strict)"),
            ("Lt", ld("size"), cn("FEOX_WRITE_BUFFER_SIZE"), "a shard is full at size >= FEOX_WRITE_BUFFER_SIZE (non-strict)"),
        ])
        # polarity: `count >= LIMIT` alone makes the answer true
        ed = A.pred_edges(b, lambda e: e.k == "bin" and e.extra == "Lt" and ld("count")(e.a[0]) and cn("WRITE_BUFFER_SIZE")(e.a[1]), "false")
        ctx.check(bool(ed), inst, "anchor", b.path, "the count threshold is branched on", None)
        for (s_, l_) in ed:
            r, _ = A.reach(b, S.edge_targets(b, s_, l_))
            falses = [n.id for n in b.nodes if n.kind == "assign" and not n.ev["dst"]["p"] and n.ev["dst"]["l"] == 0 and
                      (n.ev.get("rv") != "use" or n.ev["a"].get("k") != "const" or n.ev["a"].get("val") != 1)]
            ctx.check(not any(x in r for x in falses), inst, "GUARD", b.path, "count >= WRITE_BUFFER_SIZE alone answers `full`", b.where(s_))
        for nm, v in (("constants::WRITE_BUFFER_SIZE", 1024), ("constants::FEOX_WRITE_BUFFER_SIZE", 16 * 1024 * 1024)):
            try:
                c = prog.const(nm)
                ctx.check(c.get("val") is not None and 0 < c["val"] <= v, inst, "PIN", "constants", "%s is at most the documented %d" % (nm.split("::")[-1], v), None, {"val": c.get("val")})
            except Exception as ex:
                ctx.anchor_missing(inst, str(ex))


def check_counters(ctx):
    """the counters the coordinator and the trigger look at move with the queue, under the shard lock"""
    inst = "C19.counters"
    table = [
        ("ShardedWriteBuffer::add_entries", R.call("Extend::extend", "VecDeque::extend"), ("fetch_add",)),
        ("ShardedWriteBuffer::requeue_entries", R.call("VecDeque::push_front"), ("fetch_add",)),
        ("ShardedWriteBuffer::drain_entries", R.call("VecDeque::drain"), ("store",)),
    ]
    for fn, qsel, ops in table:
        b = ctx.fn(fn, inst)
        if b is None:
            continue
        q = ctx.sites(b, qsel, inst, floor=1)
        for fld in ("count", "size"):
            ws = ctx.sites(b, R.field_write("ShardedWriteBuffer", fld, ops=list(ops)), inst, exact=1, what="%s of ShardedWriteBuffer.%s" % ("/".join(ops), fld))
            for w in ws:
                V.check_held(ctx, inst, b, w, "L_shard", "ShardedWriteBuffer.%s is updated under the shard lock (a reset outside it can hide a queued entry from the coordinator)" % fld)
                if ops == ("store",):
                    a = b.nodes[w].ev["args"][1]
                    ctx.check(a.get("k") == "const" and a.get("val") == 0, inst, "PIN", b.path, "a drained shard's %s is reset to 0" % fld, b.where(w))
        for x in q:
            V.check_held(ctx, inst, b, x, "L_shard", "the queue is changed under the shard lock")
        # nobody else writes the counters
    for fld in ("count", "size"):
        R.fieldw_within(ctx, inst, "ShardedWriteBuffer", fld, ["ShardedWriteBuffer::new", "ShardedWriteBuffer::add_entries", "ShardedWriteBuffer::requeue_entries",
                                                              "ShardedWriteBuffer::drain_entries"], floor=4)
    b = ctx.fn("ShardedWriteBuffer::add_entries", inst)
    if b is not None:
        ex = ctx.sites(b, R.call("Extend::extend", "VecDeque::extend"), inst, exact=1)
        for fld in ("count", "size"):
            ca = R.field_write("ShardedWriteBuffer", fld, ops=["fetch_add"])(b)
            R.follow(ctx, inst, b, ex, ca, "queued entries are added to ShardedWriteBuffer.%s" % fld, b_desc="%s.fetch_add" % fld)
        # the amount added to `count` is the number of entries queued (the const generic N)
        for w in R.field_write("ShardedWriteBuffer", "count", ops=["fetch_add"])(b):
            e = R.arg_expr(b, b.nodes[w], 1)
            ok = _no_arith(e) and ((e.k == "const" and (e.extra or {}).get("txt") == "N" and "val" not in (e.extra or {})) or e.has_call("len"))
            ctx.check(ok, inst, "PIN", b.path, "count grows by the number of entries queued", b.where(w), {"amount": e.show()[:80]})
    b = ctx.fn("ShardedWriteBuffer::requeue_entries", inst)
    if b is not None:
        for w in R.field_write("ShardedWriteBuffer", "count", ops=["fetch_add"])(b):
            e = R.arg_expr(b, b.nodes[w], 1)
            ok = _no_arith(e) and e.has_call("Vec::len") and any(x.k == "arg" and x.extra[0] == 2 for x in e.walk())
            ctx.check(ok, inst, "PIN", b.path, "count grows by the number of entries put back", b.where(w), {"amount": e.show()[:80]})


def check_worker(ctx):
    inst = "C19.worker"
    b = ctx.fn("write_buffer::write_buffer_worker", inst)
    if b is None:
        return
    rt = ctx.sites(b, R.call("Receiver::recv_timeout", "Receiver::recv"), inst, exact=1)
    fl = ctx.sites(b, R.call("write_buffer::flush_worker_shards"), inst, floor=1)
    for r_ in rt:
        ok_e = R.guard_edges_for_call(b, [r_], "Ok")
        ctx.check(bool(ok_e), inst, "anchor", b.path, "the received request is branched on", b.where(r_))
        for (s_, l_) in ok_e:
            r, ps = A.reach(b, S.edge_targets(b, s_, l_), blocked_nodes=set(fl))
            bad = [x for x in rt + b.return_nodes() if x in r]
            ctx.check(not bad, inst, "FOLLOW", b.path, "every received request is answered by a flush of the worker's shards", b.where(s_),
                      None if not bad else {"witness": R.witness(b, ps, r.get(bad[0]))})
        # a timeout keeps the worker polling (it does not leave the request loop)
        to = A.pred_edges(b, lambda e: e.key() in A.call_roots(b, [r_]) or any(("call", r_) == o for o in A.origins(b, e)), "Timeout")
        ctx.check(bool(to), inst, "anchor", b.path, "RecvTimeoutError::Timeout is handled on its own arm", b.where(r_))
        for (s_, l_) in to:
            r, _ = A.reach(b, S.edge_targets(b, s_, l_))
            ctx.check(r_ in r, inst, "FOLLOW", b.path, "after a timeout the worker waits for the next request again", b.where(s_))
    # the worker leaves its request loop only on shutdown or when every sender is gone
    sh = [n.id for n in b.calls() if R._is_atomic_call(n.ev, R.ATOMIC_LOADS) and R.recv_expr(b, n).has_field("WorkerContext", "shutdown")]
    ctx.check(len(sh) >= 1, inst, "anchor", b.path, "the worker polls WorkerContext.shutdown", None)
    leave = A.pred_edges(b, lambda e: e.k == "call" and e.nid in sh, "true")
    for r_ in rt:
        leave += A.pred_edges(b, lambda e: e.key() in A.call_roots(b, [r_]) or any(("call", r_) == o for o in A.origins(b, e)), "Disconnected")
    r, ps = A.reach(b, [b.entry], blocked_edges=set(leave))
    bad = [x for x in b.return_nodes() if x in r]
    ctx.check(bool(leave) and not bad, inst, "GUARD", b.path, "the worker thread ends only on shutdown or a disconnected request channel", b.where(rt[0]) if rt else None,
              None if not bad else {"witness": R.witness(b, ps, r.get(bad[0]))})
    # the flush asked for handles retirements unless the requester deferred them
    for f in fl:
        a = b.nodes[f].ev["args"][2]
        if a.get("k") == "const":
            ctx.check(a.get("val") == 1, inst, "PIN", b.path, "the final drain also flushes retirements", b.where(f))
        else:
            e = A.tracer(b).operand(a)
            ctx.check(e.k == "un" and e.extra == "Not" and e.a[0].has_field("FlushRequest", "defer_retirements"), inst, "PROVENANCE", b.path,
                      "a requested flush handles retirements unless the requester deferred them", b.where(f), {"expr": e.show()[:80]})


def check_retire(ctx, inst="C19.retire", parts=("worker", "putback", "handover")):
    b = ctx.fn("write_buffer::flush_worker_shards", inst)
    if b is not None:
        fpd = ctx.sites(b, R.call_or_thin_helper("write_buffer::flush_pending_deletions"), inst, floor=1)
        ed = A.pred_edges(b, lambda e: e.k == "arg" and e.extra[0] == 3, "true")
        ctx.check(bool(ed), inst, "anchor", b.path, "`flush_retirements` is branched on", None)
        for (s_, l_) in ed:
            r, ps = A.reach(b, S.edge_targets(b, s_, l_), blocked_nodes=set(fpd))
            bad = [x for x in b.return_nodes() if x in r]
            ctx.check(not bad, inst, "FOLLOW", b.path, "[flush_retirements] the retirement queue is flushed before the worker answers", b.where(s_),
                      None if not bad else {"witness": R.witness(b, ps, r.get(bad[0]))})
        # the test of flush_retirements is reached whenever no shard failed: from every `first_error is None` edge, unless an
        # error is recorded on the way, the way out passes the flush_retirements test
        from rules import roles
        fe = set(roles.locals_with_role(b, "first_error")) if hasattr(roles, "locals_with_role") else set()
        if not fe:
            fe = {l for l in range(len(b.locals)) if b.local_name(l) == "first_error"}
        ne = A.pred_edges(b, lambda e: e.k == "local" and e.extra in fe, "None")
        # tests of first_error made after the flush_retirements test (the final `match first_error`) are not about this clause
        flag_sw = {x for (x, _) in ed}
        ne = [(s_, l_) for (s_, l_) in ne if any(x in A.reach(b, [s_], sensitive=False)[0] for x in flag_sw)]
        ctx.check(bool(ne), inst, "anchor", b.path, "`first_error.is_none()` is branched on", None)
        redefs = {d for l in fe for d in b.defs.get(l, [])}
        for (s_, l_) in ne:
            r, ps = A.reach(b, S.edge_targets(b, s_, l_), blocked_nodes={x for (x, _) in ed} | redefs)
            bad = [x for x in b.return_nodes() if x in r]
            ctx.check(not bad, inst, "FOLLOW", b.path, "[no shard failed] the worker always considers the retirement queue before it answers", b.where(s_),
                      None if not bad else {"witness": R.witness(b, ps, r.get(bad[0]))})
    b = ctx.fn("write_buffer::flush_pending_deletions", inst)
    if b is not None:
        pd = ctx.sites(b, R.call("write_buffer::process_deletions"), inst, exact=1)
        ext = [n.id for n in b.calls() if call_matches(n.ev, "Extend::extend") and
               (R.arg_expr(b, n, 0).has_field("RetirementQueue", "pending") or any(("call", l) in A.origins(b, R.arg_expr(b, n, 0)) for l in
                [m.id for m in b.calls() if call_matches(m.ev, "Mutex::lock") and R.recv_expr(b, m).has_field("RetirementQueue", "pending")]))]
        ctx.check(len(ext) == 1, inst, "anchor", b.path, "one put-back onto RetirementQueue.pending (found %d)" % len(ext), None)
        for x in ext:
            src = R.arg_expr(b, b.nodes[x], 1)
            # the vector put back is the one process_deletions filled (its `retries` out-parameter)
            pd_args = set()
            for p_ in pd:
                for i in range(len(b.nodes[p_].ev["args"])):
                    pd_args |= {o for o in A.origins(b, R.arg_expr(b, b.nodes[p_], i)) if o[0] == "local"}
            so = {o for o in A.origins(b, src) if o[0] == "local"}
            ctx.check(bool(so & pd_args) and not any(path_matches(c.extra, f) for c in src.calls() for f in S.RESTRICTING), inst, "PROVENANCE", b.path,
                      "what is put back is the whole retry list process_deletions filled", b.where(x), {"src": src.show()[:100]})
        # [retries non-empty] => put back
        def retries_empty(e):
            return e.k == "call" and path_matches(e.extra, "Vec::is_empty") and "retries" in (S.names_of(b, e) | S.origin_names(b, e))

        def has_retries_flag(e):
            if e.k != "local":
                return False
            for d in b.defs.get(e.extra, []):
                v = A.tracer(b, transparent=False).node_value(d)
                while v.k == "un" and v.extra == "Not":
                    v = v.a[0]
                if retries_empty(v):
                    return True
            return False
        ed = A.pred_edges(b, retries_empty, "false") + A.pred_edges(b, has_retries_flag, "true")
        ctx.check(bool(ed), inst, "anchor", b.path, "`!retries.is_empty()` is branched on", None)
        for (s_, l_) in ed:
            r, ps = A.reach(b, S.edge_targets(b, s_, l_), blocked_nodes=set(ext))
            bad = [x for x in b.return_nodes() if x in r]
            ctx.check(not bad, inst, "FOLLOW", b.path, "retirements that could not complete are put back on the queue for the next tick", b.where(s_),
                      None if not bad else {"witness": R.witness(b, ps, r.get(bad[0]))})
        if pd:
            # nothing returns between taking the queue and the put-back except through it: the `?`-free shape
            r, _ = A.reach(b, A.succs(b, pd[0]), blocked_nodes=set(ext) | {x for (x, _) in ed})
            bad = [x for x in b.return_nodes() if x in r]
            ctx.check(not bad, inst, "FOLLOW", b.path, "after process_deletions every way out passes the retry test (no early return that drops the taken queue)", b.where(pd[0]))
    b = ctx.fn("write_buffer::process_write_batch", inst)
    if b is not None:
        # deletes / superseded generations taken out of a shard reach the retirement queue as a whole
        ext = [n.id for n in b.calls() if call_matches(n.ev, "Extend::extend") and
               (R.arg_expr(b, n, 0).has_field("RetirementQueue", "pending") or
                any(("call", m.id) in A.origins(b, R.arg_expr(b, n, 0)) for m in b.calls() if call_matches(m.ev, "Mutex::lock") and R.recv_expr(b, m).has_field("RetirementQueue", "pending")))]
        ctx.check(len(ext) == 1, inst, "anchor", b.path, "one hand-over of delete operations to RetirementQueue.pending (found %d)" % len(ext), None)
        for x in ext:
            src = R.arg_expr(b, b.nodes[x], 1)
            dr = [c for c in src.calls() if path_matches(c.extra, "Vec::drain")]
            full = len(dr) == 1 and len(dr[0].a) == 2 and dr[0].a[1].k == "agg" and str(dr[0].a[1].extra).endswith("RangeFull")
            nm = S.names_of(b, src) | S.origin_names(b, src)
            ctx.check(full and "delete_operations" in nm and not any(path_matches(c.extra, f) for c in src.calls() for f in S.RESTRICTING), inst, "PROVENANCE", b.path,
                      "all delete operations of the batch are handed to the retirement queue (`drain(..)`, no filter)", b.where(x), {"src": src.show()[:100]})
            ctx.check(R.arg_expr(b, b.nodes[x], 0).has_field("WorkerContext", "retirement_queue") or "retirement_queue" in (S.names_of(b, R.arg_expr(b, b.nodes[x], 0)) | S.origin_names(b, R.arg_expr(b, b.nodes[x], 0))),
                      inst, "PROVENANCE", b.path, "... of the worker's (= the store's) retirement queue", b.where(x))
        # [deletions present] => hand-over
        def dels_empty(e):
            return e.k == "call" and path_matches(e.extra, "Vec::is_empty") and "delete_operations" in (S.names_of(b, e) | S.origin_names(b, e))

        def has_dels_flag(e):
            if e.k != "local":
                return False
            for d in b.defs.get(e.extra, []):
                v = A.tracer(b, transparent=False).node_value(d)
                while v.k == "un" and v.extra == "Not":
                    v = v.a[0]
                if dels_empty(v):
                    return True
            return False
        ed = A.pred_edges(b, dels_empty, "false") + A.pred_edges(b, has_dels_flag, "true")
        ctx.check(bool(ed), inst, "anchor", b.path, "`!delete_operations.is_empty()` is branched on", None)
        if ext and ed:
            # the first test of the flag leads to the hand-over before anything can fail
            first = min(ed, key=lambda t: t[0])
            r, ps = A.reach(b, S.edge_targets(b, first[0], first[1]), blocked_nodes=set(ext))
            bad = [x for x in b.return_nodes() if x in r]
            ctx.check(not bad, inst, "FOLLOW", b.path, "[deletions in the batch] they are queued for retirement before the batch can fail", b.where(first[0]),
                      None if not bad else {"witness": R.witness(b, ps, r.get(bad[0]))})
        # a Delete entry is pushed onto delete_operations
        push = [n.id for n in b.calls() if call_matches(n.ev, "Vec::push") and "delete_operations" in (S.names_of(b, R.recv_expr(b, n)) | S.origin_names(b, R.recv_expr(b, n)))]
        ctx.check(len(push) == 1, inst, "anchor", b.path, "Delete entries are collected at one place (found %d)" % len(push), None)
        for pu in push:
            ok, nm, det = S.whole_collection_loop(b, pu, 1)
            ctx.check(ok, inst, "FOLLOW", b.path, "the collected entry is the one the loop over the whole batch is looking at", b.where(pu), det)


def check_queue_writers(ctx, inst="C19.retire/queue"):
    """RetirementQueue.pending is shared by all workers and not covered by the flush mutex: whoever holds its guard may only add
    to it (extend / push / append) or take it as a whole in flush_pending_deletions; an assignment or a truncation through the
    guard discards retirements other workers queued meanwhile, and a dropped retirement is never retried"""
    prog = ctx.prog
    ADD = ("Extend::extend", "Vec::push", "Vec::append", "Vec::extend_from_slice")
    READ = ("Vec::is_empty", "Vec::len", "Deref::deref", "DerefMut::deref_mut", "slice::iter", "Vec::as_slice", "slice::len", "slice::is_empty")
    n_sites = 0

    def view(b, e, locks, depth=0):
        """e denotes the guarded vector itself (the guard, a reborrow or deref of it), not something computed from it"""
        if e.k == "call":
            return e.nid in locks
        if e.k == "local" and depth < 4:
            ds = b.defs.get(e.extra, [])
            return bool(ds) and all(view(b, A.tracer(b).node_value(d), locks, depth + 1) for d in ds)
        return False
    for b in prog.product_bodies():
        locks = [n.id for n in b.calls() if call_matches(n.ev, "Mutex::lock") and R.recv_expr(b, n).has_field("RetirementQueue", "pending")]
        if not locks:
            continue
        owner = R.owner_fn(prog, b)
        for n in b.calls():
            if n.id in locks or not n.ev["args"]:
                continue
            e = R.arg_expr(b, n, 0)
            if not view(b, e, locks):
                continue
            if any(call_matches(n.ev, x) for x in READ) or call_matches(n.ev, "drop") or call_matches(n.ev, "mem::drop"):
                continue
            n_sites += 1
            if any(call_matches(n.ev, x) for x in ADD):
                ctx.ok(inst, "FIELDW", owner, "the retirement queue is only added to", b.where(n.id))
            elif call_matches(n.ev, "mem::take") or call_matches(n.ev, "mem::replace") or call_matches(n.ev, "mem::swap"):
                pds = [m.id for m in b.calls() if call_matches(m.ev, "write_buffer::process_deletions")]
                before = bool(pds) and all(p_ in A.reach(b, A.succs(b, n.id), sensitive=False)[0] for p_ in pds) and \
                    not any(n.id in A.reach(b, A.succs(b, p_), sensitive=False)[0] for p_ in pds)
                ctx.check(path_matches(owner, "write_buffer::flush_pending_deletions") and before, inst, "FIELDW", owner,
                          "the retirement queue is emptied only by flush_pending_deletions, and only to hand what it took to process_deletions "
                          "(a swap / replace afterwards discards what other workers queued during the pass)", b.where(n.id))
            else:
                ctx.fail(inst, "FIELDW", owner, "unreviewed operation on the shared retirement queue: " + R.callee_name(n.ev).rsplit("::", 2)[-1], b.where(n.id),
                         {"callee": R.callee_name(n.ev)})
        # plain stores through the guard (`*pending = ..`)
        for n in b.nodes:
            if n.kind == "assign" and n.ev["dst"]["p"]:
                base = A.tracer(b).local(n.ev["dst"]["l"])
                if view(b, base, locks) and "Vec<" in (b.local_ty(n.ev["dst"]["l"]) or ""):
                    n_sites += 1
                    ctx.fail(inst, "FIELDW", owner, "the shared retirement queue is overwritten (retirements queued meanwhile by other workers are lost)", b.where(n.id))
        for n in b.nodes:
            if n.kind == "drop" and False:
                pass
    ctx.check(n_sites >= 3, inst, "anchor", "-", "operations on RetirementQueue.pending under its guard (>= 3, found %d)" % n_sites, None)


def check_readers(ctx):
    """retirement (and with it the release of the blocks) waits while extent_has_readers(): "once no reader holds them" is true
    again only if every registration is taken back - a refused acquire that leaves its increment behind parks the generation's
    retirement on every tick for ever (same rule as C08.pin / C18.readers)"""
    from rules import C08
    C08.check_reader_count(ctx, "C19.readers")


def check_owner(ctx):
    from rules import C02
    C02.check_partition(ctx, inst="C19.owner")


def check_started(ctx):
    """a writable persistent store always gets its workers and coordinator: start_workers on every successful way through the
    persistent, not read-only arm of the constructor"""
    inst = "C19.started"
    b = ctx.fn("FeoxStore::with_config_and_open_mode", inst)
    if b is None:
        return
    sw = ctx.sites(b, R.call("WriteBuffer::start_workers"), inst, exact=1)
    nw = ctx.sites(b, R.call("WriteBuffer::new"), inst, exact=1)
    for s in sw:
        rc = R.recv_expr(b, b.nodes[s])
        ctx.check(any(("call", nw[0]) in A.origins(b, rc) for _ in [0]) if nw else False, inst, "PROVENANCE", b.path, "the workers are started on the buffer just built", b.where(s))
    if nw and sw:
        R.follow(ctx, inst, b, nw, sw, "a write buffer that was built has its workers and coordinator started", b_desc="start_workers")
        # and that very buffer is the one the store keeps
        stores = [n.id for n in b.nodes if n.kind == "assign" and n.ev["dst"]["p"] and isinstance(n.ev["dst"]["p"][-1], dict) and n.ev["dst"]["p"][-1].get("n") == "write_buffer"]
        ctx.check(len(stores) >= 1, inst, "anchor", b.path, "the store keeps the write buffer (assignment to FeoxStore.write_buffer)", None)
        for st in stores:
            v = A.tracer(b).node_value(st)
            if any(("call", nw[0]) in A.origins(b, v) for _ in [0]):
                R.dom(ctx, inst, b, sw, [st], "the buffer is installed in the store only after its workers were started", a_desc="start_workers")
    # the number of workers asked for is >= 1 whatever num_cpus reports
    for s in sw:
        e = R.arg_expr(b, b.nodes[s], 1)
        ctx.check(e.has_call("Ord::max") or e.has_call("max") or (e.k == "const" and (e.extra or {}).get("val", 0) >= 1), inst, "PIN", b.path,
                  "at least one worker is asked for on any CPU count", b.where(s), {"arg": e.show()[:80]})


def check_handoff(ctx):
    """write-behind can only be bounded for mutations the write buffer has been told about (rules.common.check_handoff)"""
    from rules.common import check_handoff as ch
    ch(ctx, "C19.handoff")


def check(ctx):
    check_handoff(ctx)
    check_owner(ctx)
    check_periodic(ctx)
    check_trigger(ctx)
    check_counters(ctx)
    check_worker(ctx)
    check_retire(ctx)
    check_queue_writers(ctx)
    check_readers(ctx)
    check_started(ctx)
