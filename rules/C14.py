"""C14 — range queries return exactly the live keys in range, ordered, current values.
Decided: the two indexes are updated together under the bucket guard in the stated
order; an update swaps the slot in place; the scan's bound tests are the inclusive ones."""
from feoxlint import analysis as A
from feoxlint import rulekit as R
from feoxlint import vocab as V
from feoxlint.model import path_matches
from rules import storevocab as S
from rules.common import edge_targets, origin_names, names_of

EXPLANATION = """
Index pairing as path facts: every new-key publication into the hash index is followed by insert_into_tree, every
replacement by publish_to_tree (an in-place TreeSlot::store, never remove + insert), every removal from the hash index
is dominated by the removal from the ordered index (ordered index first), recovery inserts into both; all ordered-index
mutations of the concurrent paths happen with the bucket entry guard held and with the same key as the hash entry;
TreeSlot::store is only called by publish_to_tree and SkipMap::insert on the store's tree only by insert_into_tree and
recovery. In range_query the cursor starts at lower_bound(Included(start_key)), the loop breaks on `key > end_key`
(strict, so end is inclusive) or `len >= limit`, a stale / vanished value advances the cursor without pushing and any
other error is returned. Not decided: completeness under concurrent churn.
"""
DECIDED = ['every value tier reachable from the scan lies behind the lazy expiry test (shared with C11.lazy)', 'the ordered-index slot / node receives the same record as the hash entry at every publication site', "hash index / ordered index pairing under the bucket guard, tree-first removal", "in-place slot swap on update",
           "inclusive bounds and limit test of the scan; stale entries skipped, other errors returned",
           "range scan: key resolved = key pushed = this entry's key; record = this entry's slot"]
NOT_DECIDED = ["completeness / no duplicates under concurrent writers (schedules)", "values returned are current (tier behaviour)"]
ASSUMPTIONS = ["crossbeam SkipMap iteration is ordered by key (library contract)"]


def check_pair(ctx, inst="C14.pair"):
    for (b, n, kind) in S.pub_sites(ctx, inst, kinds=("new", "repl", "ttl", "rem", "rec")):
        if kind == "new":
            t = ctx.sites(b, R.call("FeoxStore::insert_into_tree"), inst, floor=1)
            R.follow(ctx, inst, b, [n], t, "a newly published key is inserted into the ordered index", exits=b.return_nodes() + R.call("HashMap::entry", "HashMap::read")(b), b_desc="insert_into_tree")
            R.dom(ctx, inst, b, [n], t, "the ordered index gets a node only for a published key", a_desc="insert_entry")
            for x in t:
                S.check_held(ctx, inst, b, x, "L_hb", "ordered-index insertion happens under the bucket guard")
                _same_key(ctx, inst, b, n, x, 0, 1)
                a = R.arg_expr(b, b.nodes[n], 1)
                c = R.arg_expr(b, b.nodes[x], 2)
                ctx.check(a.key() == c.key() and a.k != "unknown", inst, "PROVENANCE", b.path, "the new tree node holds the same record as the hash entry", b.where(x),
                          {"hash": a.show(), "slot": c.show()})
        elif kind in ("repl", "ttl"):
            t = ctx.sites(b, R.call("FeoxStore::publish_to_tree"), inst, exact=1)
            R.follow(ctx, inst, b, [n], t, "a replacement is mirrored into the ordered-index slot", exits=b.return_nodes() + R.call("HashMap::entry")(b), b_desc="publish_to_tree")
            R.dom(ctx, inst, b, [n], t, "the slot is swapped only after the hash index was updated", a_desc="entry.insert")
            for x in t:
                S.check_held(ctx, inst, b, x, "L_hb", "slot swap happens under the bucket guard")
                # the record stored into the slot is the record put into the hash entry
                a = R.arg_expr(b, b.nodes[n], 1) if kind == "repl" else A.tracer(b).node_value(n)
                c = R.arg_expr(b, b.nodes[x], 2)
                ctx.check(a.key() == c.key() and a.k != "unknown", inst, "PROVENANCE", b.path, "the slot receives the same record as the hash entry", b.where(x),
                          {"hash": a.show(), "slot": c.show()})
        elif kind == "rem":
            t = [x for x in V.TREE_REMOVE(b)] + R.call("FeoxStore::remove_from_tree")(b)
            ctx.check(len(t) == 1, inst, "anchor", b.path, "one ordered-index removal (found %d)" % len(t), b.where(n))
            R.dom(ctx, inst, b, t, [n], "ordered index first: the tree node is removed before the hash entry", a_desc="tree.remove")
            if not b.file.endswith("recovery.rs"):
                for x in t:
                    S.check_held(ctx, inst, b, x, "L_hb", "ordered-index removal happens under the bucket guard")
            # and only on a path that does remove the hash entry
            for x in t:
                R.follow(ctx, inst, b, [x], [n], "a key removed from the ordered index is removed from the hash index too",
                         exits=b.return_nodes() + R.call("Iterator::next")(b), b_desc="entry.remove")
        elif kind == "rec":
            t = ctx.sites(b, V.TREE_INSERT, inst, exact=1)
            R.follow(ctx, inst, b, [n], t, "a recovered record is inserted into the ordered index", exits=b.return_nodes() + R.call("RecoveryScanner::block")(b), b_desc="tree.insert")
            R.dom(ctx, inst, b, [n], t, "recovery inserts tree nodes only for published records", a_desc="upsert")
            for x in t:
                a = R.arg_expr(b, b.nodes[n], 2)
                c = R.arg_expr(b, b.nodes[x], 2)
                same = {y.key() for y in a.walk() if y.k in ("local", "call") and "Record" in (y.ty or "")} & {y.key() for y in c.walk() if y.k in ("local", "call") and "Record" in (y.ty or "")}
                ctx.check(bool(same), inst, "PROVENANCE", b.path, "the recovered tree node holds the record put into the hash index", b.where(x), {"hash": a.show()[:80], "slot": c.show()[:80]})


def _same_key(ctx, inst, b, hash_site, tree_site, hash_arg, tree_arg):
    hk = A.origins(b, R.recv_expr(b, b.nodes[hash_site], 0))
    tk = A.origins(b, R.arg_expr(b, b.nodes[tree_site], tree_arg))
    names_h = {b.local_name(l) for (k, l) in hk if k == "local"} | {b.local_name(l) for (k, l) in hk if k == "arg"}
    names_t = {b.local_name(l) for (k, l) in tk if k in ("local", "arg")}
    ctx.check(bool((hk & tk)) or bool((names_h & names_t) - {None}), inst, "PROVENANCE", b.path, "both indexes are keyed by the same key", b.where(tree_site),
              {"hash": sorted(x for x in names_h if x), "tree": sorted(x for x in names_t if x)})


def check_slot(ctx):
    inst = "C14.slot"
    R.callers_within(ctx, inst, "TreeSlot::store", ["FeoxStore::publish_to_tree"], floor=1)
    R.callers_within(ctx, inst, "FeoxStore::publish_to_tree", S.PUB_REPL_FNS + [S.UPDATE_TTL], floor=5)
    R.callers_within(ctx, inst, "FeoxStore::insert_into_tree", S.PUB_NEW_FNS, floor=4)
    n = 0
    for b in ctx.prog.product_bodies():
        for x in V.TREE_INSERT(b):
            n += 1
            o = R.owner_fn(ctx.prog, b)
            ctx.check(any(path_matches(o, a) for a in ("FeoxStore::insert_into_tree", "FeoxStore::scan_and_rebuild_indexes")), inst, "CALLERS", o,
                      "tree nodes are created only by insert_into_tree and recovery", b.where(x))
        for x in V.TREE_REMOVE(b):
            o = R.owner_fn(ctx.prog, b)
            ctx.check(any(path_matches(o, a) for a in S.REM_FNS + ["FeoxStore::remove_from_tree"]), inst, "CALLERS", o,
                      "tree nodes are removed only on the removal paths", b.where(x))
    ctx.check(n == 2, inst, "anchor", "-", "SkipMap::insert sites on the ordered index (expected 2, found %d)" % n, None)
    R.callers_within(ctx, inst, "FeoxStore::remove_from_tree", ["ttl_sweep::sample_and_expire_batch"], floor=1)
    from rules.common import check_forwarder
    check_forwarder(ctx, inst, "FeoxStore::insert_into_tree", "SkipMap::insert", [(2, 1), (3, 2)], "the node is created under the given key with the given record")
    check_forwarder(ctx, inst, "FeoxStore::remove_from_tree", "SkipMap::remove", [(2, 1)], "the node removed is the given key's")
    check_forwarder(ctx, inst, "FeoxStore::publish_to_tree", "SkipMap::get", [(2, 1)], "the slot swapped is the given key's")
    check_forwarder(ctx, inst, "FeoxStore::publish_to_tree", "TreeSlot::store", [(3, 1)], "the slot receives the given record")
    body = ctx.fn("FeoxStore::publish_to_tree", inst)
    if body is not None:
        g = ctx.sites(body, R.call("SkipMap::get"), inst, exact=1)
        st = ctx.sites(body, R.call("TreeSlot::store"), inst, exact=1)
        ctx.check(not V.TREE_INSERT(body) and not V.TREE_REMOVE(body), inst, "FORBID", body.path, "an update never removes and re-inserts a node", None)


def check_bounds(ctx):
    inst = "C14.bounds"
    body = ctx.fn("FeoxStore::range_query", inst)
    if body is None:
        return
    lb = ctx.sites(body, R.call("SkipMap::lower_bound"), inst, exact=1)
    if lb:
        e = R.arg_expr(body, body.nodes[lb[0]], 1)
        good = e.k == "agg" and (e.extra or "").endswith("Bound::Included") and e.a and e.a[0].k == "arg" and e.a[0].extra[0] == 2
        ctx.check(good, inst, "PIN", body.path, "the scan starts at lower_bound(Included(start_key))", body.where(lb[0]), {"expr": e.show()})
    push = ctx.sites(body, R.call("Vec::push").filter(lambda b, n: "results" in names_of(b, R.recv_expr(b, n)), "onto results"), inst, exact=1)
    # key > end_key (strict) breaks: canonical via PartialOrd::gt on slices
    def end_cmp(e):
        return e.k == "call" and any(path_matches(e.extra, m) for m in ("PartialOrd::gt", "PartialOrd::ge", "PartialOrd::lt", "PartialOrd::le")) and \
            any(x.k == "arg" and x.extra[0] == 3 for x in e.walk())
    sws = A.pred_switches(body, end_cmp)
    ctx.check(len(sws) == 1, inst, "PIN", body.path, "one comparison of the entry key with end_key", None)
    for s in sws:
        r = A.switch_info(body, s).root
        lhs_is_key = r.a and r.a[0].has_call("Entry::key") or (r.a and r.a[0].has_call("skiplist::map::Entry::key"))
        strict_gt = path_matches(r.extra, "PartialOrd::gt") and r.a[1].has_arg(idx=3)
        ctx.check(strict_gt, inst, "PIN", body.path, "the scan stops only when key > end_key (end bound inclusive)", body.where(s), {"callee": r.extra, "lhs": r.a[0].show() if r.a else None})
        stop = [(s, l) for l, v in A.switch_info(body, s).edge_vals.items() if v == "true"]
        for (sw, l) in stop:
            rr, ps = A.reach(body, edge_targets(body, sw, l))
            ctx.check(not any(x in rr for x in push), inst, "GUARD", body.path, "no key beyond end_key is pushed", body.where(sw))
        cont = [(s, l) for l, v in A.switch_info(body, s).edge_vals.items() if v == "false"]
        R.guard(ctx, inst, body, push, cont, "a key is pushed only if it is <= end_key")
    # len >= limit: canonical Lt(len, limit) false => stop
    def lim_cmp(e):
        return e.k == "bin" and e.extra == "Lt" and e.a[0].has_call("Vec::len") and e.a[1].k == "arg" and e.a[1].extra[0] == 4
    lsw = A.pred_switches(body, lim_cmp)
    ctx.check(len(lsw) == 1, inst, "PIN", body.path, "limit test is `results.len() >= limit`", None)
    R.guard(ctx, inst, body, push, A.pred_edges(body, lim_cmp, "true"), "a key is pushed only while fewer than `limit` were collected")
    # value resolution: Ok => push; StaleExtent | KeyNotFound => advance without pushing; other errors returned
    rv = ctx.sites(body, R.call_reaching("FeoxStore::resolve_record_value", within="FeoxStore"), inst, exact=1)
    R.guard(ctx, inst, body, push, R.guard_edges_for_call(body, rv, "Ok"), "a pair is pushed only when the value was resolved")
    if push and rv:
        t = R.arg_expr(body, body.nodes[push[0]], 1)
        ctx.check(t.k == "agg" and len(t.a) == 2 and t.a[0].has_call("Entry::key") and any(c.nid in rv for c in t.a[1].calls()), inst, "PROVENANCE", body.path,
                  "the pair pushed is (this entry's key, the value resolved for it)", body.where(push[0]), {"expr": t.show()})
        k = R.arg_expr(body, body.nodes[rv[0]], 1)
        ctx.check(k.has_call("Entry::key"), inst, "PROVENANCE", body.path, "the value is resolved for this entry's key", body.where(rv[0]))
    keys = A.call_roots(body, rv)

    def payload(e):
        x = e
        d = 0
        while x.k in ("field", "downcast") and x.a and d < 6:
            x = x.a[0]
            d += 1
        return d > 0 and x.key() in keys
    nxt = ctx.sites(body, R.call("Entry::next"), inst, exact=2)
    for variant in ("StaleExtent", "KeyNotFound"):
        edges = A.pred_edges(body, payload, variant)
        ctx.check(len(edges) >= 1, inst, "GUARD", body.path, "%s is distinguished" % variant, None)
        for (sw, l) in edges:
            r, ps = A.reach(body, edge_targets(body, sw, l), blocked_nodes=set(nxt))
            bad = [x for x in body.return_nodes() + push + rv if x in r]
            ctx.check(not bad, inst, "FOLLOW", body.path, "a %s entry advances the cursor without pushing or failing the query" % variant, body.where(sw))
    # every loop iteration advances: push is followed by Entry::next
    R.follow(ctx, inst, body, push, nxt, "after pushing, the cursor advances", exits=body.return_nodes() + rv, b_desc="entry.next()")
    # epoch guard: load() receives the guard pinned in this function; repin happens only between entries
    ld = ctx.sites(body, R.call("TreeSlot::load"), inst, exact=1)
    pin = ctx.sites(body, R.call("crossbeam_epoch::pin", "epoch::pin", "default::pin"), inst, exact=1)
    if ld and pin:
        o = A.origins(body, R.arg_expr(body, body.nodes[ld[0]], 1))
        ctx.check(("call", pin[0]) in o, inst, "PROVENANCE", body.path, "TreeSlot::load uses the guard pinned by this scan", body.where(ld[0]))


def check_range_resolution(ctx, inst="C14.resolve"):
    """one scanned entry, one identity: the value a range scan returns under an entry's key is resolved for *that entry's* key and
    from the record loaded out of *that entry's* slot. The key argument only matters on the stale-handle path (the extent was
    retired under the scanner and the value is re-resolved through the hash table by key): with another key there, the scan
    returns another key's bytes under this entry's key."""
    body = ctx.fn("FeoxStore::range_query", inst)
    if body is None:
        return
    rv = ctx.sites(body, R.call_reaching("FeoxStore::resolve_record_value", within="FeoxStore"), inst, exact=1)
    ld = ctx.sites(body, R.call("TreeSlot::load"), inst, exact=1)
    push = [n.id for n in body.calls() if R.call_matches(n.ev, "Vec::push")]
    if not (rv and ld):
        return
    k = R.arg_expr(body, body.nodes[rv[0]], 1)
    ctx.check(k.has_call("Entry::key") and not any(x.k == "arg" and x.extra[0] > 1 for x in k.walk()), inst, "PROVENANCE", body.path,
              "the value is (re-)resolved for this entry's key, not for a bound of the scan", body.where(rv[0]), {"key": k.show()[:100]})
    rec = R.arg_expr(body, body.nodes[rv[0]], 2, transparent=False)
    ctx.check(any(c.nid in ld for c in rec.calls()), inst, "PROVENANCE", body.path, "the record resolved is the one loaded from this entry's slot", body.where(rv[0]))
    slot = R.arg_expr(body, body.nodes[ld[0]], 0)
    ctx.check(slot.has_call("Entry::value"), inst, "PROVENANCE", body.path, "the slot loaded is this entry's value", body.where(ld[0]), {"slot": slot.show()[:100]})
    # the key handed out with the value and the key the value was resolved for come from the same entry
    for p_ in push:
        t = R.arg_expr(body, body.nodes[p_], 1)
        if t.k == "agg" and len(t.a) == 2 and any(c.nid in rv for c in t.a[1].calls()):
            ek = [c for c in t.a[0].walk() if c.k == "call" and path_matches(c.extra, "Entry::key")]
            rk = [c for c in k.walk() if c.k == "call" and path_matches(c.extra, "Entry::key")]
            same = bool(ek) and bool(rk) and ek[0].a and rk[0].a and ek[0].a[0].key() == rk[0].a[0].key()
            ctx.check(same, inst, "PROVENANCE", body.path, "the key pushed and the key resolved belong to the same entry", body.where(p_))


def check_expiry_first(ctx):
    """a range scan returns only unexpired keys because every value tier it can reach lies behind the lazy expiry test of resolve_record_value: nobody else may read a record's resident value, the cache or the device for a caller (same rule as C11.lazy / C16.expiry-first; added after C14-i, a resident-value fast path in resolve_value_ref that skipped the test)"""
    from rules import C11
    C11.check_lazy(ctx, "C14.expiry-first")


def check(ctx):
    check_expiry_first(ctx)
    check_range_resolution(ctx)
    check_pair(ctx)
    check_slot(ctx)
    check_bounds(ctx)
