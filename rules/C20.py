"""C20 — the safe API is memory safe under every interleaving.
Decided: (a) the complete inventory of `unsafe` and the structural obligation of each
item, (b) type-level facts (lifetimes) that make the use-after-free shapes unrepresentable."""
import re

from feoxlint import analysis as A
from feoxlint import locks as L
from feoxlint import rulekit as R
from feoxlint import vocab as V
from feoxlint.model import path_matches, call_matches, callee_name, strip_generics
from rules.common import edge_targets, origin_names, names_of, drop_impl

EXPLANATION = """
(a) Inventory gate: every user-written unsafe block / unsafe fn / unsafe impl of the crate must match a reviewed table
entry keyed by (owner function, set of unsafe operations inside) — new or changed unsafe code is reported until reviewed.
(b) Obligations of the reviewed items, decided on the MIR: TreeSlot::store hands the swapped-out pointer only to
Guard::defer_destroy under a guard pinned in the same body, TreeSlot::drop (&mut self) is the only into_owned, and
TreeSlot::load's signature ties the returned reference to the guard's lifetime; in batch_write_inner a buffer is
flagged in-flight before its address is pushed to the submission queue and un-flagged only when the push failed, the
pointer handed to the kernel is the owned buffer's, the buffer set outlives the last submit_and_wait/completion pass,
the indeterminate arm drains completions and drops the ring before returning, and InFlightBuffers::drop leaks exactly the
still-flagged buffers; AlignedBuffer.size is only written by new/clear/set_len with set_len asserting new_len <= capacity,
ptr/capacity/alignment only by new, Drop frees with the deallocator matching the allocator, and the byte counts given
to pread/pwrite have the same provenance as the buffer lengths. Thorough tier adds compile-fail witnesses (with compiling
twins) for TreeSlot::load vs Guard::repin / drop(guard) / escaping the pin scope and for ExtentReadGuard outliving its
record. Not decided: absence of undefined behaviour in general (dependencies, allocator contracts, data races in deps).
"""
DECIDED = ["unsafe inventory gate", "epoch reclamation obligations", "in-flight io_uring buffer obligations", "AlignedBuffer invariants and syscall lengths",
           "lifetime witnesses (thorough tier)",
           'io_uring submissions carry pointer and length of the same retained buffer, the length only cast']
NOT_DECIDED = ["general freedom from undefined behaviour", "soundness of dependencies' unsafe code"]
ASSUMPTIONS = ["crossbeam-epoch, scc, parking_lot, bytes, io-uring and libc uphold their documented safety contracts"]
TECHNIQUE = "static analysis: unsafe inventory over HIR + MIR dominance/provenance rules + compile-fail lifetime witnesses with compiling twins"

INVENTORY = [
    ("block", "TreeSlot::load", ["Shared::deref"]),
    ("block", "TreeSlot::store", ["Guard::defer_destroy"]),
    ("block", "TreeSlot::drop", ["Atomic::into_owned"]),
    ("impl", "core::record::Record", ["std::marker::Send"]),
    ("impl", "core::record::Record", ["std::marker::Sync"]),
    ("block", "persistence::sparse_file_has_no_data", ["libc::lseek"]),
    ("block", "DiskIO::read_sectors_sync", ["libc::pread"]),
    ("block", "DiskIO::read_sectors_sync", ["libc::pread"]),
    ("block", "DiskIO::write_sectors_sync", ["libc::pwrite"]),
    ("block", "DiskIO::write_sectors_sync", ["libc::pwrite"]),
    ("block", "DiskIO::flush", ["libc::fsync"]),
    ("block", "DiskIO::write_retirement_extent_direct", ["libc::pwrite"]),
    ("block", "DiskIO::batch_write_inner", ["SubmissionQueue::push"]),
    ("block", "seq_token::crc32c_x86_dispatch", ["seq_token::crc32c_x86"]),
    ("block", "FeoxAllocator::allocate_aligned", ["libc::posix_memalign"]),
    ("block", "FeoxAllocator::deallocate_aligned", ["libc::free"]),
    ("block", "FeoxAllocator::allocate_small", ["alloc::alloc"]),
    ("block", "FeoxAllocator::allocate_large", ["mman::mmap_anonymous", "NonZero::new_unchecked"]),
    ("block", "FeoxAllocator::deallocate_small", ["alloc::dealloc"]),
    ("block", "FeoxAllocator::deallocate_large", ["mman::munmap"]),
    ("block", "AlignedBuffer::as_slice", ["slice::from_raw_parts"]),
    ("block", "AlignedBuffer::as_mut_slice", ["slice::from_raw_parts_mut"]),
    ("block", "hash::simd::hash_key_aes_safe", ["hash::simd::hash_key_aes_unsafe"]),
    ("fn", "seq_token::crc32c_x86", ["x86_64::_mm_crc32_u32", "x86_64::_mm_crc32_u64", "x86_64::_mm_crc32_u8"]),
    ("fn", "hash::simd::hash_key_aes_unsafe", ["x86_64::_mm_aesenc_si128", "x86_64::_mm_extract_epi32", "x86_64::_mm_loadu_si128",
                                                "x86_64::_mm_set1_epi32", "x86_64::_mm_set_epi32", "x86_64::_mm_xor_si128"]),
]


def current_inventory(prog):
    rows = []
    for u in prog.unsafe:
        if not u.get("user"):
            continue
        if u["kind"] == "block":
            owner = u["owner"]
            ob = prog.bodies.get(owner)
            if ob is not None and ob.is_test:
                continue
            cal = set()
            if ob is not None:
                for fam in prog.family(ob) if not ob.is_closure else [ob]:
                    for n in fam.calls():
                        spn = n.ev.get("span", {})
                        if n.ev.get("unsafe") and spn.get("file") == u["span"]["file"] and u["span"]["lo"] <= spn.get("lo", 0) <= u["span"]["hi"]:
                            cal.add(callee_name(n.ev))
            if re.search(r"(^|/)src/tests/|(^|/)tests/", u["span"]["file"]):
                continue
            rows.append(("block", owner, sorted(cal), "%s:%s" % (u["span"]["file"], u["span"]["lo"])))
        else:
            if re.search(r"(^|/)src/tests/", u["span"]["file"]):
                continue
            rows.append(("impl", u["self_ty"], [u["trait"]], "%s:%s" % (u["span"]["file"], u["span"]["lo"])))
    for b in prog.product_bodies():
        if b.raw.get("unsafe_fn") and not b.path.startswith("_::"):
            rows.append(("fn", b.path, sorted({callee_name(n.ev) for n in b.calls() if n.ev.get("unsafe")}), "%s:%s" % (b.file, b.span["lo"])))
    return rows


def _row_matches(row, entry):
    kind, owner, ops, _ = row
    ekind, eowner, eops = entry
    if kind != ekind:
        return False
    if kind == "impl":
        return owner == eowner and ops == eops
    if not path_matches(owner, eowner):
        return False
    if len(ops) != len(eops):
        return False
    return all(any(path_matches(o, e) for o in ops) for e in eops) and all(any(path_matches(o, e) for e in eops) for o in ops)


def check_inventory(ctx):
    inst = "C20.inventory"
    rows = current_inventory(ctx.prog)
    remaining = list(INVENTORY)
    for row in rows:
        hit = None
        for e in remaining:
            if _row_matches(row, e):
                hit = e
                break
        if hit is not None:
            remaining.remove(hit)
            ctx.ok(inst, "INVENTORY", row[1], "reviewed unsafe %s: {%s}" % (row[0], ", ".join(o.rsplit("::", 2)[-2] + "::" + o.rsplit("::", 1)[-1] if "::" in o else o for o in row[2])), row[3])
        else:
            ctx.fail(inst, "INVENTORY", row[1], "unreviewed unsafe %s: {%s}" % (row[0], ", ".join(strip_generics(o) for o in row[2])), row[3],
                     {"rule": "new or changed unsafe code must be reviewed and added to rules/C20.py INVENTORY"})
    for e in remaining:
        ctx.fail(inst, "anchor", e[1], "reviewed unsafe item no longer present: %s {%s} (update the table)" % (e[0], ", ".join(e[2])), None)
    ctx.check(len(rows) >= 25, inst, "anchor", "-", "unsafe items inventoried (%d)" % len(rows), None)


def check_epoch(ctx):
    inst = "C20.epoch"
    b = ctx.fn("TreeSlot::store", inst)
    if b is not None:
        sw = ctx.sites(b, R.call("Atomic::swap"), inst, exact=1)
        dd = ctx.sites(b, R.call("Guard::defer_destroy"), inst, exact=1)
        pin = ctx.sites(b, R.call("crossbeam_epoch::pin", "epoch::pin", "default::pin"), inst, exact=1)
        bad = [n for n in b.calls() if any(call_matches(n.ev, x) for x in ("Shared::into_owned", "Atomic::into_owned", "Owned::from_raw", "Shared::deref", "Shared::as_raw", "Box::from_raw"))]
        ctx.check(not bad, inst, "FORBID", b.path, "the replaced pointer is never freed or dereferenced directly", b.where(bad[0].id) if bad else None)
        for d in dd:
            a = R.arg_expr(b, b.nodes[d], 1, transparent=False)
            ctx.check(a.k == "call" and a.nid in sw, inst, "PROVENANCE", b.path, "the pointer deferred for destruction is the one swapped out", b.where(d), {"expr": a.show()})
            g = A.origins(b, R.recv_expr(b, b.nodes[d]))
            ctx.check(any(("call", p) in g for p in pin), inst, "PROVENANCE", b.path, "destruction is deferred on the guard pinned in this body", b.where(d))
        for s in sw:
            g = A.origins(b, R.arg_expr(b, b.nodes[s], 3))
            ctx.check(any(("call", p) in g for p in pin), inst, "PROVENANCE", b.path, "the swap happens under the same pinned guard", b.where(s))
        R.dom(ctx, inst, b, pin, sw, "the guard is pinned before the swap", a_desc="epoch::pin")
        def isnull(e):
            return e.k == "call" and path_matches(e.extra, "Shared::is_null")
        R.guard(ctx, inst, b, dd, A.pred_edges(b, isnull, "false"), "only a non-null previous pointer is retired")
        for (sw_, l) in A.pred_edges(b, isnull, "false"):
            r, ps = A.reach(b, edge_targets(b, sw_, l), blocked_nodes=set(dd))
            ctx.check(not any(x in r for x in b.return_nodes()), inst, "FOLLOW", b.path, "a replaced record is always handed to the collector (no leak of the old Arc)", b.where(sw_))
    b = drop_impl(ctx, inst, "TreeSlot")
    if b is not None:
        io = ctx.sites(b, R.call("Atomic::into_owned"), inst, exact=1)
        ctx.check("&mut core::record::TreeSlot" in (b.local_ty(1) or ""), inst, "PIN", b.path, "into_owned runs with exclusive access (&mut self)", None)
    sites = ctx.prog.call_sites("Atomic::into_owned") + ctx.prog.call_sites("Shared::into_owned")
    for bb, n in sites:
        o = R.owner_fn(ctx.prog, bb)
        ctx.check(path_matches(o, "TreeSlot::drop"), inst, "CALLERS", o, "into_owned only in TreeSlot::drop", bb.where(n.id))
    R.callers_within(ctx, inst, "TreeSlot::load", ["FeoxStore::range_query", "FeoxStore::remove_expired_recovery_winners", "migration::record_batch"], floor=3)
    R.callers_within(ctx, inst, "TreeSlot::store", ["FeoxStore::publish_to_tree"], floor=1)
    b = ctx.fn("TreeSlot::load", inst)
    if b is not None:
        sig = b.sig
        m = re.match(r"^for<'([a-z_0-9]+)> fn\(&'([a-z_0-9]+) core::record::TreeSlot, &'([a-z_0-9]+) crossbeam_epoch::Guard\) -> &'([a-z_0-9]+) ", sig)
        ok = bool(m) and m.group(2) == m.group(3) == m.group(4)
        ctx.check(ok, inst, "PIN", b.path, "load<'g>(&'g self, &'g Guard) -> &'g Arc<Record>: the result cannot outlive the pin", None, {"sig": sig})
        ld = ctx.sites(b, R.call("Atomic::load"), inst, exact=1)
        for x in ld:
            g = R.arg_expr(b, b.nodes[x], 2)
            ctx.check(g.k == "arg" and g.extra[0] == 2, inst, "PROVENANCE", b.path, "the pointer is loaded under the caller's guard", b.where(x))
    b = ctx.fn("FeoxStore::range_query", inst)
    if b is not None:
        rp = ctx.sites(b, R.call("Guard::repin"), inst, exact=1)
        ld = ctx.sites(b, R.call("TreeSlot::load"), inst, exact=1)
        rv = ctx.sites(b, R.call_reaching("FeoxStore::resolve_record_value", within="FeoxStore"), inst, exact=1)
        # the loaded reference is consumed (value resolved) before the guard may be re-pinned
        R.dom(ctx, inst, b, rv, rp, "the record reference is used up before the guard is re-pinned", a_desc="resolve_value_ref")
        for x in rv:
            rec = R.arg_expr(b, b.nodes[x], 2, transparent=False)
            ctx.check(any(c.nid in ld for c in rec.calls()), inst, "PROVENANCE", b.path, "the record resolved is the one loaded under the guard", b.where(x))


def check_inflight(ctx):
    inst = "C20.inflight"
    b = ctx.fn("DiskIO::batch_write_inner", inst)
    if b is not None:
        push = ctx.sites(b, R.call("SubmissionQueue::push"), inst, exact=1)
        mf = ctx.sites(b, R.call("InFlightBuffers::mark_in_flight"), inst, exact=1)
        mu = ctx.sites(b, R.call("InFlightBuffers::mark_unqueued"), inst, exact=1)
        R.dom(ctx, inst, b, mf, push, "a buffer is flagged in-flight before its address reaches the submission queue", a_desc="mark_in_flight")
        def push_failed(e):
            return e.k == "call" and path_matches(e.extra, "Result::is_err") or (e.k == "call" and e.nid in push)
        R.guard(ctx, inst, b, mu, R.guard_edges_for_call(b, push, "Err"), "the flag is cleared only when the push was rejected (kernel never saw the pointer)")
        if mf and mu and push:
            i1 = R.arg_expr(b, b.nodes[mf[0]], 1)
            i2 = R.arg_expr(b, b.nodes[mu[0]], 1)
            ctx.check(i1.key() == i2.key(), inst, "PROVENANCE", b.path, "flag set / cleared for the same index", b.where(mu[0]))
        wn = ctx.sites(b, R.call("opcode::Write::new"), inst, exact=1)
        for w in wn:
            p = R.arg_expr(b, b.nodes[w], 1, transparent=False)
            ctx.check(p.k == "call" and path_matches(p.extra, "PendingWriteBuffer::as_ptr") and p.has_call("InFlightBuffers::get"), inst, "PROVENANCE", b.path,
                      "the address handed to the kernel is buffers.get(i).as_ptr()", b.where(w), {"expr": p.show()})
            ln = R.arg_expr(b, b.nodes[w], 2, transparent=False)
            ctx.check(ln.has_call("PendingWriteBuffer::len") and ln.has_call("InFlightBuffers::get"), inst, "PROVENANCE", b.path,
                      "the length handed to the kernel is that buffer's length", b.where(w), {"expr": ln.show()})
            if mf:
                gi = [c for c in p.calls() if path_matches(c.extra, "InFlightBuffers::get")]
                i0 = gi[0].a[1] if gi and len(gi[0].a) > 1 else None
                i1 = R.arg_expr(b, b.nodes[mf[0]], 1)
                ctx.check(i0 is not None and i0.key() == i1.key(), inst, "PROVENANCE", b.path, "the buffer flagged is the buffer whose address is submitted", b.where(mf[0]))
        # the buffer set outlives every wait / completion pass of its chunk
        from rules import roles
        bufs = roles.locals_with_role(b, "buffers")
        drops = [n.id for n in b.nodes if (n.kind == "drop" and not n.ev["pl"]["p"] and n.ev["pl"]["l"] in bufs) or
                 (n.kind == "call" and call_matches(n.ev, "mem::drop") and any(R.op_local(a) in bufs for a in n.ev["args"]))]
        sw = ctx.sites(b, R.call("IoUring::submit_and_wait"), inst, exact=1)
        pc = ctx.sites(b, R.call("io::process_completions"), inst, exact=2)
        ctx.check(len(drops) >= 1, inst, "anchor", b.path, "drop of the in-flight buffer set found", None)
        # within one chunk: after the buffers are dropped no wait / completion pass of that chunk follows
        # (the next chunk re-creates `buffers`: stop at its creation)
        mk = R.call("InFlightBuffers::with_capacity")(b)
        for d in drops:
            r, ps = A.reach(b, A.succs(b, d), blocked_nodes=set(mk))
            bad = [x for x in sw + pc + push if x in r]
            ctx.check(not bad, inst, "NEVER-AFTER", b.path, "the buffers are not dropped while submissions of their chunk may still be waited for", b.where(d))
        # indeterminate submit error: completions drained, ring dropped, then return
        ind = ctx.sites(b, R.aggregate("error::FeoxError", "IndeterminateWrite"), inst, exact=1)
        tk = ctx.sites(b, R.call("Option::take").filter(lambda bb, n: R.recv_expr(bb, n).has_field("DiskIO", "ring"), "ring.take()"), inst, exact=1)
        for i in ind:
            r, ps = A.reach(b, A.succs(b, i), blocked_nodes=set(pc))
            ctx.check(not any(x in r for x in b.return_nodes()), inst, "FOLLOW", b.path, "the indeterminate arm drains completions before returning", b.where(i))
            r, ps = A.reach(b, A.succs(b, i), blocked_nodes=set(tk))
            ctx.check(not any(x in r for x in b.return_nodes()), inst, "FOLLOW", b.path, "and drops the ring (kernel stops using the buffers) before returning", b.where(i))
        if tk and pc:
            R.never_after(ctx, inst, b, tk, pc + sw, "the ring is not used after it was dropped")
    b = drop_impl(ctx, inst, "InFlightBuffers")
    if b is not None:
        fg = ctx.sites(b, R.call("mem::forget"), inst, exact=1)
        def flagged(e):
            return e.k == "bin" and e.extra == "Eq" and any(x.k == "bin" and x.extra == "BitAnd" for x in e.walk()) and e.has_field("InFlightBuffers", "in_flight")
        sws = A.pred_switches(b, flagged)
        ctx.check(len(sws) == 1, inst, "PIN", b.path, "the in-flight bit of each buffer is tested", None)
        # canonical Eq(in_flight & mask, 0): false => flagged
        R.guard(ctx, inst, b, fg, A.pred_edges(b, flagged, "false"), "exactly the still-flagged buffers are leaked instead of freed")
        for f in fg:
            a = R.arg_expr(b, b.nodes[f], 0)
            ctx.check(a.has_call("Option::take") or "buffer" in names_of(b, a), inst, "PROVENANCE", b.path, "the leaked value is the buffer itself (taken out of its slot)", b.where(f))
    for fn in ("InFlightBuffers::mark_in_flight", "InFlightBuffers::mark_unqueued", "InFlightBuffers::mark_complete"):
        bb = ctx.fn(fn, inst)
    R.fieldw_within(ctx, inst + "/flags", "InFlightBuffers", "in_flight",
                    ["InFlightBuffers::with_capacity", "InFlightBuffers::mark_in_flight", "InFlightBuffers::mark_unqueued", "InFlightBuffers::mark_complete"], floor=4)
    # retain_for_write returns an owned Bytes (never a borrow of the caller's data)
    rws = [bb for bb in ctx.prog.product_bodies() if bb.path.endswith("::retain_for_write")]
    ctx.check(len(rws) == 2, inst, "anchor", "-", "two retain_for_write impls", None)
    for bb in rws:
        ctx.check(bb.sig.rstrip().endswith("-> bytes::Bytes"), inst, "PIN", bb.path, "retain_for_write returns an owned, reference-counted Bytes", None, {"sig": bb.sig})
    b = ctx.fn("io::process_completions", inst)
    if b is not None:
        mc = ctx.sites(b, R.call("InFlightBuffers::mark_complete"), inst, exact=1)
        gt = ctx.sites(b, R.call("InFlightBuffers::get"), inst, exact=1)
        def inrange(e):
            return e.k == "bin" and e.extra == "Lt" and e.has_arg(idx=3)
        R.guard(ctx, inst, b, mc + gt, A.pred_edges(b, inrange, "true"), "a completion is attributed to a buffer only if its index is within this chunk")


def check_buffers(ctx):
    inst = "C20.buffers"
    R.fieldw_within(ctx, inst + "/size", "AlignedBuffer", "size", ["AlignedBuffer::new", "AlignedBuffer::clear", "AlignedBuffer::set_len"], floor=3)
    for f in ("ptr", "capacity", "is_aligned", "alignment"):
        R.fieldw_within(ctx, inst + "/" + f, "AlignedBuffer", f, ["AlignedBuffer::new"], floor=1)
    b = ctx.fn("AlignedBuffer::set_len", inst)
    if b is not None:
        st = ctx.sites(b, R.field_write("AlignedBuffer", "size"), inst, exact=1)
        asserts = [n.id for n in b.nodes if n.kind == "call" and (call_matches(n.ev, "panicking::panic") or call_matches(n.ev, "panicking::assert_failed") or call_matches(n.ev, "panicking::panic_fmt"))]
        def cap(e):
            return e.k == "bin" and e.extra == "Lt" and e.a[0].has_field("AlignedBuffer", "capacity") and e.a[1].k == "arg" and e.a[1].extra[0] == 2
        sws = A.pred_switches(b, cap)
        ctx.check(len(sws) == 1 and len(asserts) >= 1, inst, "PIN", b.path, "set_len asserts new_len <= capacity", None)
        R.guard(ctx, inst, b, st, A.pred_edges(b, cap, "false"), "size is updated only when new_len <= capacity")
        for s in st:
            v = A.tracer(b).node_value(s)
            ctx.check(v.k == "arg" and v.extra[0] == 2, inst, "PROVENANCE", b.path, "size becomes exactly new_len", b.where(s))
    b = ctx.fn("AlignedBuffer::clear", inst)
    if b is not None:
        for s in R.field_write("AlignedBuffer", "size")(b):
            v = A.tracer(b).node_value(s)
            ctx.check(v.k == "const" and (v.extra or {}).get("val") == 0, inst, "PIN", b.path, "clear sets size to 0", b.where(s))
    b = ctx.fn("AlignedBuffer::new", inst)
    if b is not None:
        al = ctx.sites(b, R.call("FeoxAllocator::allocate_aligned"), inst, exact=1)
        for a in R.aggregate("allocator::AlignedBuffer")(b):
            ev = b.nodes[a].ev
            f = dict(zip(ev["fields"], ev["ops"]))
            ctx.check(f.get("size", {}).get("val") == 0, inst, "PIN", b.path, "a new buffer has size 0", b.where(a))
            ctx.check(f.get("is_aligned", {}).get("val") == 1, inst, "PIN", b.path, "and is marked aligned (freed with deallocate_aligned)", b.where(a))
            capv = A.tracer(b).operand(f.get("capacity"))
            allocv = R.arg_expr(b, b.nodes[al[0]], 0) if al else None
            ctx.check(allocv is not None and capv.key() == allocv.key(), inst, "PROVENANCE", b.path, "capacity is exactly the size that was allocated", b.where(a))
            pv = A.tracer(b, False).operand(f.get("ptr"))
            ctx.check(any(c.nid in al for c in pv.calls()), inst, "PROVENANCE", b.path, "ptr is the allocation's pointer", b.where(a))
    for fn in ("AlignedBuffer::as_slice", "AlignedBuffer::as_mut_slice"):
        b = ctx.fn(fn, inst)
        if b is None:
            continue
        fr = ctx.sites(b, R.call("slice::from_raw_parts", "slice::from_raw_parts_mut"), inst, exact=1)
        for x in fr:
            p = R.arg_expr(b, b.nodes[x], 0)
            ln = R.arg_expr(b, b.nodes[x], 1)
            ctx.check(p.has_field("AlignedBuffer", "ptr") and ln.k == "field" and ln.extra[1] == "size", inst, "PIN", b.path, "the slice is (ptr, size) with size <= capacity by set_len's assert", b.where(x),
                      {"ptr": p.show(), "len": ln.show()})
    b = drop_impl(ctx, inst, "AlignedBuffer")
    if b is not None:
        da = ctx.sites(b, R.call("FeoxAllocator::deallocate_aligned"), inst, exact=1)
        dn = ctx.sites(b, R.call("FeoxAllocator::deallocate"), inst, exact=1)
        al_true = A.pred_edges(b, lambda e: e.has_field("AlignedBuffer", "is_aligned"), "true")
        R.guard(ctx, inst, b, da, al_true, "aligned buffers are freed with deallocate_aligned")
        R.guard(ctx, inst, b, dn, A.pred_edges(b, lambda e: e.has_field("AlignedBuffer", "is_aligned"), "false"), "others with the size-class deallocator")
        for x in da:
            ctx.check(R.arg_expr(b, b.nodes[x], 0).has_field("AlignedBuffer", "ptr") and R.arg_expr(b, b.nodes[x], 1).has_field("AlignedBuffer", "capacity"), inst, "PIN", b.path,
                      "the pointer / capacity freed are the ones allocated", b.where(x))
    a = ctx.fn("FeoxAllocator::allocate_aligned", inst)
    d = ctx.fn("FeoxAllocator::deallocate_aligned", inst)
    if a is not None and d is not None:
        ctx.check(bool(R.call("libc::posix_memalign")(a)) and bool(R.call("libc::free")(d)), inst, "SIBLING", d.path, "posix_memalign memory is released with free", None)
        pm = R.call("libc::posix_memalign")(a)
        for x in pm:
            rv = R.guard_edges_for_call  # result compared with 0
            def nz(e):
                return e.k == "bin" and e.extra == "Eq" and any(c.nid in pm for c in e.calls()) and e.has_const(val=0)
            oks = [n for n in a.calls() if call_matches(n.ev, "NonNull::new")]
            R.guard(ctx, inst, a, [n.id for n in oks], A.pred_edges(a, nz, "true"), "the pointer is used only if posix_memalign returned 0")
    for al_fn, de_fn, ap, dp in (("FeoxAllocator::allocate_small", "FeoxAllocator::deallocate_small", "alloc::alloc", "alloc::dealloc"),
                                  ("FeoxAllocator::allocate_large", "FeoxAllocator::deallocate_large", "mman::mmap_anonymous", "mman::munmap")):
        a = ctx.fn(al_fn, inst)
        d = ctx.fn(de_fn, inst)
        if a is not None and d is not None:
            ctx.check(bool(R.call(ap)(a)) and bool(R.call(dp)(d)), inst, "SIBLING", d.path, "%s pairs with %s" % (ap.split("::")[-1], dp.split("::")[-1]), None)
    a = ctx.fn("FeoxAllocator::allocate", inst)
    d = ctx.fn("FeoxAllocator::deallocate", inst)
    if a is not None and d is not None:
        def lim(bb):
            def f(e):
                return e.k == "bin" and e.extra == "Lt" and e.has_const(name="KMALLOC_LIMIT") and e.has_arg(name="size")
            return [re.sub(r"arg\d+:", "", A.switch_info(bb, s).root.show()) for s in A.pred_switches(bb, f)]
        ctx.check(lim(a) == lim(d) and len(lim(a)) == 1, inst, "SIBLING", d.path, "allocate and deallocate choose the size class with the same test", None, {"alloc": lim(a), "dealloc": lim(d)})
    # syscall lengths
    b = ctx.fn("DiskIO::read_sectors_sync", inst)
    if b is not None:
        pr = ctx.sites(b, R.call("libc::pread"), inst, exact=2)
        for p in pr:
            cnt = R.arg_expr(b, b.nodes[p], 2)
            buf = R.arg_expr(b, b.nodes[p], 1, transparent=False)
            ok = False
            # the buffer this pread writes into, and the length it was given:
            # direct: AlignedBuffer::new(..) + buffer.set_len(size); non-direct: vec![0u8; size]
            bl = {l for (k, l) in A.origins(b, buf) if k == "local"}
            lens = []
            for n in b.calls():
                if call_matches(n.ev, "AlignedBuffer::set_len"):
                    tgt = {l for (k, l) in A.origins(b, R.recv_expr(b, n)) if k == "local"}
                    if tgt & bl:
                        lens.append(R.arg_expr(b, n, 1))
                if call_matches(n.ev, "vec::from_elem") and not n.ev["dest"]["p"]:
                    # the vec is moved into the named buffer local
                    d = n.ev["dest"]["l"]
                    users = {d}
                    for m2 in b.nodes:
                        if m2.kind == "assign" and m2.ev.get("rv") == "use" and R.op_local(m2.ev["a"]) in users and not m2.ev["dst"]["p"]:
                            users.add(m2.ev["dst"]["l"])
                    if users & bl:
                        lens.append(R.arg_expr(b, n, 1))
            ok = len(lens) == 1 and lens[0].key() == cnt.key()
            ctx.check(ok, inst, "PROVENANCE", b.path, "pread's byte count equals the length the buffer was given", b.where(p),
                      {"count": cnt.show(), "buffer_lengths": [x.show() for x in lens]})
            ctx.check(buf.has_call("AlignedBuffer::as_mut_ptr") or buf.has_call("Vec::as_mut_ptr") or buf.has_call("as_mut_ptr"), inst, "PROVENANCE", b.path, "pread writes into that buffer", b.where(p), {"buf": buf.show()})
    for fn in ("DiskIO::write_sectors_sync", "DiskIO::write_retirement_extent_direct"):
        b = ctx.fn(fn, inst)
        if b is None:
            continue
        pw = ctx.sites(b, R.call("libc::pwrite"), inst, floor=1)
        for p in pw:
            cnt = R.arg_expr(b, b.nodes[p], 2, transparent=False)
            buf = R.arg_expr(b, b.nodes[p], 1, transparent=False)
            lens = [c for c in cnt.walk() if c.k == "call" and (path_matches(c.extra, "AlignedBuffer::len") or path_matches(c.extra, "slice::len"))]
            ptrs = [c for c in buf.walk() if c.k == "call" and (path_matches(c.extra, "AlignedBuffer::as_ptr") or path_matches(c.extra, "slice::as_ptr"))]
            same = bool(lens) and bool(ptrs) and lens[0].a and ptrs[0].a and A.origins(b, lens[0].a[0]) & A.origins(b, ptrs[0].a[0])
            ctx.check(bool(same), inst, "PROVENANCE", b.path, "pwrite's pointer and byte count come from the same buffer", b.where(p), {"count": cnt.show(), "buf": buf.show()})


def check_uring_lengths(ctx):
    """an io_uring write hands the kernel a raw (pointer, length) pair that the SQPOLL thread dereferences on its own: the
    length must be the retained buffer's own length. (1) PendingWriteBuffer::as_ptr / len are pure projections of the variant's
    buffer (no arithmetic: a rounded-up length makes the kernel read past a Bytes allocation); (2) opcode::Write::new takes
    pointer and length from the same retained buffer, the length only narrowed by a cast."""
    inst = "C20.uring-len"
    for fn, want in (("PendingWriteBuffer::len", ("AlignedBuffer::len", "Bytes::len")), ("PendingWriteBuffer::as_ptr", ("AlignedBuffer::as_ptr", "Bytes::as_ptr", "slice::as_ptr", "Deref::deref"))):
        b = ctx.fn(fn, inst)
        if b is None:
            continue
        rets = [n.id for n in b.nodes if n.kind in ("assign", "call") and (n.ev.get("dst") or n.ev.get("dest") or {}).get("l") == 0 and not (n.ev.get("dst") or n.ev.get("dest") or {}).get("p")]
        ctx.check(len(rets) >= 2, inst, "anchor", b.path, "one return value per variant (>= 2, found %d)" % len(rets), None)
        tr = A.tracer(b, False)
        for r in rets:
            v = tr.node_value(r)
            pure = not any(x.k in ("bin", "un") for x in v.walk()) and any(x.k == "call" and any(path_matches(x.extra, w) for w in want) for x in v.walk()) and \
                all(x.k != "call" or any(path_matches(x.extra, w) for w in want) for x in v.walk())
            ctx.check(pure, inst, "PIN", b.path, "%s is a pure projection of the variant's buffer (no arithmetic)" % fn.rsplit("::", 1)[-1], b.where(r), {"expr": v.show()})
    n_w = 0
    for b in ctx.prog.product_bodies():
        for n in b.calls():
            if not (call_matches(n.ev, "opcode::Write::new") or call_matches(n.ev, "opcode::Read::new")):
                continue
            n_w += 1
            ptr = R.arg_expr(b, n, 1, transparent=False)
            ln = R.arg_expr(b, n, 2, transparent=False)
            pc = [c for c in ptr.walk() if c.k == "call" and path_matches(c.extra, "PendingWriteBuffer::as_ptr")]
            lc = [c for c in ln.walk() if c.k == "call" and path_matches(c.extra, "PendingWriteBuffer::len")]
            same = len(pc) == 1 and len(lc) == 1 and pc[0].a and lc[0].a and pc[0].a[0].key() == lc[0].a[0].key()
            ctx.check(bool(same), inst, "PROVENANCE", b.path, "the submitted pointer and length are as_ptr() / len() of the same retained buffer", b.where(n.id),
                      {"ptr": ptr.show()[:120], "len": ln.show()[:120]})
            ctx.check(not any(x.k in ("bin", "un") for x in ln.walk() if not (lc and x.nid is not None and any(y is x for y in lc[0].walk()))) if lc else False, inst, "PIN", b.path,
                      "the submitted length is the buffer length itself (cast only)", b.where(n.id), {"len": ln.show()[:120]})
    ctx.check(n_w >= 1, inst, "anchor", "-", "io_uring read/write submissions found (>= 1, found %d)" % n_w, None)


def check_sync_fields(ctx, inst="C20.sync-fields"):
    """`unsafe impl Send / Sync` switches the compiler's data-race check off for the whole type: every field - today's and any
    added later - is then shared between threads on the author's word. The word was given for the fields reviewed here (atomics,
    locks, OnceLock, Arc / Weak, plain immutable data, the epoch-managed link); a field with thread-unsafe interior mutability
    (Cell, RefCell, UnsafeCell, Rc, raw pointers) added afterwards compiles silently and races in safe code."""
    import re
    prog = ctx.prog
    BAD = re.compile(r"std::cell::|core::cell::|std::rc::|alloc::rc::|\*const |\*mut |UnsafeCell|NonNull<|std::sync::mpsc::Receiver")
    SYNC_OK = re.compile(r"^(u8|u16|u32|u64|usize|i64|bool|std::vec::Vec<u8>|std::sync::atomic::Atomic<[a-z0-9]+>|"
                         r"parking_lot::lock_api::(RwLock|Mutex)<.*>|std::sync::OnceLock<std::sync::Arc<core::record::Record>>|"
                         r"std::option::Option<std::sync::Weak<core::record::Record>>|crossbeam_epoch::Atomic<core::record::Record>|bytes::Bytes)$")
    targets = sorted({u["self_ty"] for u in prog.unsafe if u.get("kind") == "impl" and u.get("user") and u.get("trait") in ("std::marker::Send", "std::marker::Sync")})
    ctx.check(len(targets) >= 1, inst, "anchor", "-", "types with a hand-written Send / Sync (found %d)" % len(targets), None)
    n_f = 0
    for t in targets:
        seen = set()
        work = [t.split("<")[0]]
        while work:
            path = work.pop()
            if path in seen or path not in prog.adts:
                continue
            seen.add(path)
            for v in prog.adts[path].get("variants", []):
                for f in v.get("fields", []):
                    n_f += 1
                    ty = f["ty"]
                    bad = BAD.search(ty)
                    ok = bool(SYNC_OK.match(ty)) or ty.split("<")[0] in prog.adts
                    ctx.check(not bad and ok, inst, "INVENTORY", path, "field `%s` of a type with `unsafe impl Send/Sync` is one of the reviewed thread-safe kinds" % f["name"], None,
                              {"type": ty[:120], "why": "thread-unsafe interior mutability" if bad else ("unreviewed field type" if not ok else None)})
                    if ty.split("<")[0] in prog.adts:
                        work.append(ty.split("<")[0])
    ctx.check(n_f >= 16, inst, "anchor", "-", "fields examined (>= 16, found %d)" % n_f, None)


def check(ctx):
    check_sync_fields(ctx)
    check_uring_lengths(ctx)
    check_inventory(ctx)
    check_epoch(ctx)
    check_inflight(ctx)
    check_buffers(ctx)


# ---------------------------------------------------------------------- compile-fail witnesses (both tiers, ~10 s)

def post(tier, findings):
    from feoxlint import witness
    from feoxlint.rulekit import Finding
    res = witness.run_all()
    for r in res:
        if r["status"] not in ("ok", "skipped"):
            findings.append(("witness", Finding("C20", "C20.witness/" + r["name"], "WITNESS", r["name"], r["what"] + ": " + r["status"], None, r.get("detail"))))
    return {"witnesses": res, "witnesses_ok": sum(1 for r in res if r["status"] == "ok")}
