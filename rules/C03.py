"""C03 — any crash leaves a file that reopens to authentic, untorn contents.
Decided: (a) journal brackets around every data-area mutation, (b) write
layering (who may reach the device), (c) recovery replays before scanning,
verifies v3 tokens, retires losers through the journalled path."""
from feoxlint import analysis as A
from feoxlint import rulekit as R
from feoxlint import vocab as V
from feoxlint.model import path_matches
from rules.common import version_edges, edge_targets, no_continue_from, names_of, closure_carriers, upvar_names

EXPLANATION = """
Structural necessary conditions of crash consistency: a who-may-call table over the resolved call graph pins every
device-write primitive and every un-journalled writer to its reviewed callers (no code path can write the data area
outside an intent-journal bracket); in DiskIO::retire_extents each chunk is journal-write -> marker-write -> journal-clear
with every step on the previous one's Ok edge and the same chunk passed to both; recovery reads and replays the journal
before the first scanner read, retires losers only after the scan through the journalled path, verifies the record
token before publishing a v3 record and the marker token before skipping a retired extent; the writer stamps the
token with the landing sector. Not decided: that reopened contents are one complete recent generation per key.
"""
DECIDED = ['the retirement licence successor_is_durable_or_deleted: verdict, memo timing, and only generations the walk moved past carry the memo (shared with C02.successor)', "the recovery parser's bounds are the writer's admission bounds (shared with C10.bounds)", 'writer and readers derive the same extent length (the token covers the padded extent; shared with C05.len)', 'the record-batch bracket journals every prepared write (shared with C02.order)', "(a) intent-journal brackets (retire_extents and process_write_batch, the latter shared with C02.order)", "(b) write layering / who-may-call",
           "(c) replay-before-scan, token verification before publication, journalled post-scan retirement, token stamping",
           'fsync barriers separate intent journal, marker writes and journal clear of a retirement transaction',
           'decode_slot accepts exactly the images the layout allows (touching extents, extent ending at the device end)',
           'writer and recovery token folds agree (shared with C10.token)']
NOT_DECIDED = ["(d) reopened contents are one complete generation per key and len() matches",
               "value-level slot / generation selection in allocation_journal::decode and read_metadata"]
ASSUMPTIONS = ["process_write_batch's bracket is checked by C02.order and shared"]

LAYER = [
    # callee, allowed callers, floor
    ("libc::pwrite", ["DiskIO::write_sectors_sync", "DiskIO::write_retirement_extent_direct"], 3),
    ("SubmissionQueue::push", ["DiskIO::batch_write_inner"], 1),
    ("DiskIO::write_sectors_sync", ["DiskIO::write_allocation_journal", "DiskIO::clear_allocation_journal",
                                    "DiskIO::write_retirement_extent_buffered", "DiskIO::batch_write_inner",
                                    "DiskIO::write_metadata", "DiskIO::write_store_metadata",
                                    "DiskIO::initialize_store_metadata"], 8),
    ("DiskIO::write_retirement_extent_direct", ["DiskIO::retire_extents_unjournaled"], 1),
    ("DiskIO::write_retirement_extent_buffered", ["DiskIO::retire_extents_unjournaled"], 1),
    ("DiskIO::retire_extents_unjournaled", ["DiskIO::retire_extents", "DiskIO::replay_allocation_journal"], 2),
    ("DiskIO::batch_write_inner", ["DiskIO::batch_write", "DiskIO::batch_write_bytes"], 2),
    ("DiskIO::batch_write_bytes", ["write_buffer::process_write_batch"], 1),
    ("DiskIO::batch_write", [], 0),
    ("DiskIO::write_metadata", [], 0),
    ("DiskIO::retire_extents", ["write_buffer::process_deletions", "write_buffer::cleanup_failed_allocations",
                                "FeoxStore::scan_and_rebuild_indexes"], 3),
    ("DiskIO::replay_allocation_journal", ["FeoxStore::scan_and_rebuild_indexes"], 1),
    ("DiskIO::write_allocation_journal", ["DiskIO::retire_extents", "write_buffer::process_write_batch"], 2),
    ("DiskIO::clear_allocation_journal", ["DiskIO::retire_extents", "DiskIO::replay_allocation_journal",
                                          "write_buffer::process_write_batch", "write_buffer::cleanup_failed_allocations"], 4),
    ("DiskIO::write_store_metadata", ["FeoxStore::flush_all", "FeoxStore::drop"], 2),
    ("DiskIO::initialize_store_metadata", ["FeoxStore::load_indexes"], 1),
]

# raw file-mutating std APIs: nowhere except the fresh-device size reservation
RAW_FILE_WRITES = ["File::set_len", "Write::write_all", "Write::write", "FileExt::write_at", "FileExt::write_all_at",
                   "FileExt::seek_write", "fs::write", "libc::write", "libc::ftruncate", "libc::pwritev", "libc::fallocate",
                   "libc::pwrite64", "File::set_permissions", "libc::mmap"]
RAW_ALLOWED = ["FeoxStore::initialize_fresh_device", "allocator::*", "AlignedBuffer::*"]


def check_layer(ctx):
    for callee, allowed, floor in LAYER:
        R.callers_within(ctx, "C03.layer/" + callee.split("::")[-1], callee, allowed, floor=floor)
    inst = "C03.layer/raw"
    n = 0
    for prim in RAW_FILE_WRITES:
        for b, node in ctx.prog.call_sites(prim):
            n += 1
            o = R.owner_fn(ctx.prog, b)
            if prim == "libc::mmap":
                good = any(path_matches(o, a) for a in RAW_ALLOWED)
            else:
                good = any(path_matches(o, a) for a in RAW_ALLOWED[:1])
            ctx.check(good, inst, "FORBID", o, "raw file mutation %s only in the reviewed place" % prim, b.where(node.id))
    ctx.ok(inst, "FORBID", "crate", "raw file-mutating std/libc APIs are confined (%d sites)" % n, nontrivial=False)
    # every product body that may reach a device write is reachable only through the table: bodies calling a
    # write-reaching callee that are not themselves listed as caller or callee are reported
    listed = set()
    for callee, allowed, _ in LAYER:
        listed.add(callee)
        listed.update(allowed)
    listed.update(["DiskIO::flush", "write_buffer::flush_worker_shards", "write_buffer::flush_pending_deletions",
                   "write_buffer::failed_batch_outcome", "write_buffer::write_buffer_worker", "WriteBuffer::force_flush",
                   "WriteBuffer::start_workers", "FeoxStore::flush", "FeoxStore::with_config_and_open_mode",
                   "FeoxStore::open_device", "FeoxStore::open_fresh_device", "FeoxStore::initialize_fresh_device"])
    ctx.note("bodies that reach P_write: %d" % len(ctx.prog.reach_set(V.is_p_write)))


def check_bracket(ctx, inst="C03.bracket/retire_extents"):
    body = ctx.fn("DiskIO::retire_extents", inst)
    if body is None:
        return
    wj = ctx.sites(body, R.call("DiskIO::write_allocation_journal"), inst, exact=1)
    un = ctx.sites(body, R.call("DiskIO::retire_extents_unjournaled"), inst, exact=1)
    cj = ctx.sites(body, R.call("DiskIO::clear_allocation_journal"), inst, exact=1)
    if not (wj and un and cj):
        return
    R.dom(ctx, inst, body, wj, un, "intent journal written before the marker writes", a_desc="write_allocation_journal")
    R.dom(ctx, inst, body, un, cj, "markers written before the journal is cleared", a_desc="retire_extents_unjournaled")
    for nm, nodes, nxt in (("write_allocation_journal", wj, un), ("retire_extents_unjournaled", un, cj)):
        R.guard(ctx, inst, body, nxt, R.guard_edges_for_call(body, nodes, "Ok"), "next step only on the Ok edge of " + nm)
    # within one chunk: no journal write between marker write and clear (per-iteration pairing)
    oks = ctx.sites(body, R.returns("ok"), inst, floor=1)
    r, ps = A.reach(body, A.succs(body, un[0]), blocked_nodes=set(cj))
    bad = [x for x in wj + oks if x in r]
    ctx.check(not bad, inst, "FOLLOW", body.path, "after the marker writes, the journal clear precedes the next chunk / Ok return", body.where(un[0]))
    r, ps = A.reach(body, A.succs(body, wj[0]), blocked_nodes=set(un))
    bad = [x for x in cj + oks if x in r]
    ctx.check(not bad, inst, "FOLLOW", body.path, "after the journal write, the marker writes precede the clear / Ok return", body.where(wj[0]))
    # same chunk goes to the journal and to the marker writer
    a = A.origins(body, R.arg_expr(body, body.nodes[wj[0]], 1))
    b = A.origins(body, R.arg_expr(body, body.nodes[un[0]], 1))
    ctx.check(a == b and a, inst, "PROVENANCE", body.path, "journal image and marker writes cover the same chunk", body.where(un[0]),
              {"journal": sorted(map(str, a)), "markers": sorted(map(str, b))})
    # the chunk derives from the function's extents argument
    ctx.check(("arg", 2) in a, inst, "PROVENANCE", body.path, "the chunk derives from the `extents` argument", body.where(wj[0]))


def _synced_before_ok(ctx, name):
    """callee summary: every device write of `name` is followed by an fsync before any Ok return"""
    from rules import C02
    b = ctx.prog.fn(name) if ctx.prog.find(name) else None
    if b is None:
        return False
    ws = V.W_REACHING(b)
    if not ws:
        return False
    ws = [x for x in ws if not C02.call_is_self_synced(b, x)]
    if not ws:
        return True
    ss = set(C02.SYNC(b))
    oks = set(A.ok_nodes(b))
    if not ss:
        return False
    for w in ws:
        r, _ = A.reach(b, A.succs(b, w), blocked_nodes=ss)
        if any(o in r for o in oks):
            return False
    return True


def check_barriers(ctx):
    """ordering, not just durability: the three steps of a retirement transaction (intent journal, marker writes, journal
    clear) are separated by fsync barriers. Without the barrier after the markers, the clear sector and a *tail* marker may reach
    the device while the head marker is lost: the journal then says nothing is in flight, nothing is replayed, and the scan meets a
    record whose head is intact and whose tail is a marker (v3: CorruptedRecord, the file does not reopen). The barrier is either
    part of the step (every device write of the callee is fsynced before its Ok return) or an explicit flush between the calls."""
    from rules import C02
    inst = "C03.bracket/barriers"
    for fn, steps in (("DiskIO::retire_extents", ["DiskIO::write_allocation_journal", "DiskIO::retire_extents_unjournaled", "DiskIO::clear_allocation_journal"]),
                      ("DiskIO::replay_allocation_journal", ["DiskIO::retire_extents_unjournaled", "DiskIO::clear_allocation_journal"])):
        body = ctx.fn(fn, inst)
        if body is None:
            continue
        sites = [ctx.sites(body, R.call(st), inst, exact=1) for st in steps]
        if not all(sites):
            continue
        flushes = set(R.call("DiskIO::flush")(body)) | set(R.call(*V.P_SYNC)(body))
        flushes -= {x for st in sites for x in st}
        for (a_name, a_sites), (b_name, b_sites) in zip(zip(steps, sites), list(zip(steps, sites))[1:]):
            inner = _synced_before_ok(ctx, a_name)
            r, _ = A.reach(body, A.succs(body, a_sites[0]), blocked_nodes=flushes)
            explicit = b_sites[0] not in r
            ctx.check(inner or explicit, inst, "FOLLOW", body.path,
                      "an fsync barrier separates %s from %s (inside the step or as an explicit flush between them)" % (a_name.rsplit("::", 1)[-1], b_name.rsplit("::", 1)[-1]),
                      body.where(a_sites[0]), {"step_syncs_itself": inner, "explicit_flush_between": explicit})
    # the final step is durable before the transaction reports success
    ctx.check(_synced_before_ok(ctx, "DiskIO::clear_allocation_journal"), inst, "FOLLOW", "DiskIO::clear_allocation_journal",
              "the journal clear is fsynced before it returns Ok", None)


def check_recover(ctx):
    inst = "C03.recover"
    body = ctx.fn("FeoxStore::scan_and_rebuild_indexes", inst)
    if body is None:
        return
    scan = ctx.sites(body, R.call("RecoveryScanner::block", "RecoveryScanner::visit_blocks"), inst, floor=3, what="scanner reads")
    rd = ctx.sites(body, R.call("DiskIO::read_allocation_journal"), inst, exact=1)
    rp = ctx.sites(body, R.call("DiskIO::replay_allocation_journal"), inst, exact=1)
    rt = ctx.sites(body, R.call("DiskIO::retire_extents"), inst, exact=2)
    pub = ctx.sites(body, V.PUB_REC, inst, exact=1, what="hash index publication (upsert)")
    R.never_after(ctx, inst, body, scan, rp, "journal replay never happens after a scanner read")
    R.dom(ctx, inst, body, rd, rp, "journal is read (and validated) before it is replayed", a_desc="read_allocation_journal")
    R.guard(ctx, inst, body, rp, R.guard_edges_for_call(body, rd, "Ok"), "replay only on the Ok edge of read_allocation_journal")
    R.never_after(ctx, inst, body, rt, scan, "post-scan retirement never precedes a scanner read")
    R.never_after(ctx, inst, body, rt, pub, "no record is published after the post-scan retirement")
    # replay precedes the scan unless read-only
    ro_true = A.pred_edges(body, lambda e: e.has_field("FeoxStore", "read_only"), "true")
    empty_true = A.pred_edges(body, lambda e: e.k == "call" and path_matches(e.extra, "Vec::is_empty") and
                              (any(c.nid in rd for c in e.calls()) or
                               any(("call", r) in A.origins(body, e) for r in rd)), "true")
    if not ro_true:
        ctx.anchor_missing(inst, "no test of self.read_only in the recovery scan", body.path)
    R.dom(ctx, inst, body, rp, scan, "[read_only = false, journal non-empty] replay dominates every scanner read",
          blocked_edges=frozenset(ro_true) | frozenset(empty_true), a_desc="replay_allocation_journal")
    # v3: the record token is computed and compared before the record is published
    v_lt = version_edges(ctx, inst, body, want_v3=False, floor=5)
    tok = ctx.sites(body, R.call("recovery::record_token"), inst, exact=1)
    R.dom(ctx, inst, body, tok, pub, "[version >= 3] record token computed before publication",
          blocked_edges=frozenset(v_lt), a_desc="record_token")
    def tok_cmp(e):
        return e.k == "bin" and e.extra == "Eq" and any(c.nid in tok for c in e.calls())
    sw = A.pred_switches(body, tok_cmp)
    ctx.check(len(sw) == 1, inst, "GUARD", body.path, "stored token is compared with the computed token", body.where(tok[0]) if tok else None)
    mism = A.pred_edges(body, tok_cmp, "false")
    for (s, l) in mism:
        no_continue_from(ctx, inst, body, s, l, scan + pub, "token mismatch leads to an error exit (no publication, no further scan)")
    # the token compared is the one stored in the header bytes [2..4] of the scanned block
    # retirement markers: the marker token is verified before the extent is skipped
    mt = ctx.sites(body, R.call("format::retirement_marker_token"), inst, exact=1)
    def mt_cmp(e):
        return e.k == "bin" and e.extra == "Eq" and any(c.nid in mt for c in e.calls())
    mm = A.pred_edges(body, mt_cmp, "false")
    ctx.check(len(mm) >= 1, inst, "GUARD", body.path, "marker token is compared", body.where(mt[0]) if mt else None)
    for (s, l) in mm:
        no_continue_from(ctx, inst, body, s, l, scan + pub, "marker token mismatch leads to an error exit")
    # CRC covers the head and every tail block: crc32c continuation inside the visit_blocks closure
    clos = [c for c in ctx.prog.closures_of(body) if R.call("seq_token::crc32c")(c)]
    ctx.check(len(clos) >= 1, inst, "PROVENANCE", body.path, "tail blocks are folded into the record CRC (closure passed to visit_blocks)", None)
    hcs = [(c, R.call("recovery::record_crc_head")(c)) for c in ctx.prog.family(body)]
    hcs = [(c, ns) for (c, ns) in hcs if ns]
    ctx.check(len(hcs) == 1 and len(hcs[0][1]) == 1, inst, "anchor", body.path, "exactly one record_crc_head call in the scan", None)
    if hcs and tok:
        hb, hn = hcs[0][0], hcs[0][1][0]
        # the value fed to record_token originates from the expression that evaluates record_crc_head
        e = R.arg_expr(body, body.nodes[tok[0]], 0)
        o = A.origins(body, e)
        if hb is body:
            linked = ("call", hn) in o
        else:
            carriers = closure_carriers(body, hb)
            linked = any(("call", c) in o for c in carriers)
        ctx.check(linked, inst, "PROVENANCE", body.path, "the token is folded from the CRC started by record_crc_head", body.where(tok[0]),
                  {"origins": sorted(map(str, o))[:8]})
        e = R.arg_expr(hb, hb.nodes[hn], 0)
        nm = names_of(hb, e) | {u for u in upvar_names(hb, e)}
        ctx.check("sector" in nm, inst, "PROVENANCE", hb.path, "the CRC is seeded with the scanned sector", hb.where(hn), {"names": sorted(nm)})


def check_stamp(ctx):
    inst = "C03.token-stamp"
    body = ctx.fn("write_buffer::process_write_batch", inst)
    if body is None:
        return
    st = ctx.sites(body, R.call("seq_token::stamp_seq_token"), inst, exact=1)
    v_ge = version_edges(ctx, inst, body, want_v3=True, floor=1)
    R.guard(ctx, inst, body, st, v_ge, "token stamped only for format version >= SEQ_TOKEN_MIN_VERSION")
    v_lt = version_edges(ctx, inst, body, want_v3=False, floor=1)
    push = ctx.sites(body, R.call("Vec::push").filter(
        lambda b, n: "batch_writes" in names_of(b, R.recv_expr(b, n)), "onto batch_writes"), inst, exact=1)
    R.dom(ctx, inst, body, st, push, "[version >= 3] token stamped before the buffer is queued for writing",
          blocked_edges=frozenset(v_lt), a_desc="stamp_seq_token")
    if st and push:
        s_sector = R.arg_expr(body, body.nodes[st[0]], 1)
        p_tuple = R.arg_expr(body, body.nodes[push[0]], 1)
        ctx.check(p_tuple.k == "agg" and len(p_tuple.a) == 2 and p_tuple.a[0].key() == s_sector.key(), inst, "PROVENANCE", body.path,
                  "the sector stamped into the token is the landing sector paired with the bytes", body.where(push[0]),
                  {"stamp_sector": s_sector.show(), "queued": p_tuple.show()})
        # the bytes queued are the stamped buffer (mem::take of PreparedWrite.data)
        s_data = R.arg_expr(body, body.nodes[st[0]], 0)
        ctx.check(s_data.has_field("PreparedWrite", "data") and p_tuple.k == "agg" and len(p_tuple.a) == 2 and
                  p_tuple.a[1].has_field("PreparedWrite", "data"), inst, "PROVENANCE", body.path,
                  "the stamped buffer is the one queued", body.where(push[0]), {"stamped": s_data.show()})
    # the sector comes from the allocation (or the entry's existing reservation)
    body2 = ctx.fn("seq_token::stamp_seq_token", inst)
    if body2 is not None:
        tk = ctx.sites(body2, R.call("seq_token::record_seq_token"), inst, exact=1)


def check_losers(ctx):
    # clause (c): generations that lost the newest-timestamp-wins rule are queued for the journalled post-scan
    # retirement (otherwise a stale but token-valid record stays on disk and can resurface after the winner is deleted)
    from rules import C04
    C04.check_winner(ctx, "C03.recover/losers")


def check_write_batch_bracket(ctx):
    """the record-batch writer's bracket: intent journal (covering every prepared write, unfiltered) -> data -> fsync/clear ->
    publication; a torn write of an extent that is not listed cannot be retired by replay and fails the strict v3 scan"""
    from rules import C02
    C02.check_order(ctx, "C03.bracket/write_batch")


def check_journal_validity(ctx, inst="C03.journal-validity", position_inst="C03.journal-position"):
    """which journal entries recovery accepts: an intent whose extent ends exactly at the device end must replay (else a torn
    record there has no cover and the strict scan refuses the file), the journal position survives restarts (C04.position)"""
    from rules import C04
    from rules.common import pin_comparisons, closure_ret_cmp
    if position_inst:
        C04.check_position(ctx, position_inst)
    b = ctx.fn("allocation_journal::decode_slot", inst)
    if b is None:
        return
    def entry(e):
        return e.has_call("from_le_bytes") and not e.has_call("checked_add")
    def end(e):
        return e.has_call("checked_add")
    pin_comparisons(ctx, inst, b, [
        ("Lt", entry, lambda e: e.k == "const" and e.has_const(name="FEOX_DATA_START_BLOCK"), "an entry below the data area is refused (`sector < FEOX_DATA_START_BLOCK`)"),
        ("Lt", entry, end, "an entry whose end does not exceed its start is refused (`end <= sector`)"),
    ])
    def nxt_start(e):
        return e.k == "field" and str(e.extra[1]) == "0" and any(x.k == "index" or (x.k == "call" and x.extra.endswith("::index")) for x in e.walk()) and not e.has_call("checked_add")
    def prev_end(e):
        return e.has_call("checked_add") and any(x.k == "index" or (x.k == "call" and x.extra.endswith("::index")) for x in e.walk())
    pin_comparisons(ctx, inst, b, [
        ("Lt", nxt_start, prev_end, "journaled extents that merely touch are valid; only a real overlap (`previous_end > next.start`, strict) rejects the slot"),
    ])
    flt = ctx.sites(b, R.call("Option::filter"), inst, exact=1)
    ok = False
    for c in ctx.prog.closures_of(b):
        x = closure_ret_cmp(c)
        if x and x["rhs_upvars"] == {"total_sectors"} and not x["lhs_upvars"] and x["lhs_e"].has_arg(idx=2):
            ok = x["op"] == "Le"
            ctx.check(ok, inst, "PIN", b.path, "an entry is inside the device iff `end <= total_sectors` (an extent ending exactly at the device end is valid)", None,
                      {"found": "%s %s %s" % (x["lhs"], x["op"], x["rhs"])})
            break
    else:
        ctx.fail(inst, "PIN", b.path, "the device-end bound of a journal entry (`end <= total_sectors`) is not found", None)


def check_token_agreement(ctx):
    """recovery recomputes every v3 record token with its own fold; writer and reader must agree on every input (including the
    reserved-zero remap) or a cleanly written file fails the strict scan at the next open (shared with C10.token)"""
    from rules import C10
    C10.check_token(ctx, "C03.token-agreement")


def check_extent_len(ctx):
    """the v3 token covers the whole padded extent: writer and recovery must derive the same extent length for a record, or every
    such record fails its token after a reopen (same rule as C05.len / C10.extent-len)"""
    from rules import C05
    C05.check_len(ctx, "C03.extent-len")


def check_bounds(ctx):
    """the recovery parser refuses a head block only for the reasons the writer's admission checks know (same comparison pins as
    C10.bounds): a bound that is off by one at the block boundary turns an acknowledged record into CorruptedRecord at reopen"""
    from rules import C10
    C10.check_bounds(ctx, "C03.bounds")


def check_successor(ctx):
    """the last durable generation of a key may be retired only once its replacement is durable (or the key deleted): a crash
    between the retirement and the replacement's write otherwise leaves no generation at all. Same rule as C02.successor
    (verdict, memo timing, and - added after C03-i - which generations may carry the memo)"""
    from rules import C02
    C02.check_successor(ctx, "C03.successor")


def check(ctx):
    check_bounds(ctx)
    check_successor(ctx)
    check_extent_len(ctx)
    check_token_agreement(ctx)
    check_journal_validity(ctx)
    check_losers(ctx)
    check_layer(ctx)
    check_bracket(ctx)
    check_barriers(ctx)
    check_write_batch_bracket(ctx)
    check_recover(ctx)
    check_stamp(ctx)
