"""C09 — I/O failures are reported, contained and never destroy durable data.
Decided: error discipline (no storage error dropped) and the shape of every
failure arm (scrub / quarantine / poison / requeue), poisoned device unwritable,
error propagation worker -> force_flush -> flush_all."""
from feoxlint import analysis as A
from feoxlint import rulekit as R
from feoxlint import vocab as V
from feoxlint.model import path_matches, call_matches
from rules.common import edge_targets, err_edge_unreachable, origin_names, names_of
from rules import C02

EXPLANATION = """
Error discipline and failure-arm shape, decided per call site / per CFG path: no Result<_, FeoxError> produced in the
storage layer, the store or the sweeper is discarded (4 reasoned exceptions keyed by caller+callee); in process_write_batch
every Err edge of journal write / data write / journal clear leads to failed_batch_outcome (the data write may retry), and
IndeterminateWrite errors build BatchFailure{indeterminate: true}; failed_batch_outcome quarantines (never releases) on the
indeterminate arm, scrubs through cleanup_failed_allocations otherwise and poisons the device when the scrub fails, and always
returns every entry for requeueing; each step of retire_extents poisons on error; process_deletions requeues on error;
ensure_writable dominates every raw write / fsync; write_indeterminate is only set by the reviewed functions; the worker's
error reaches force_flush's caller and flush_all. Not decided: the recovered state after a given fault sequence.
"""
DECIDED = ['first-error latches are never overwritten before they were examined / consumed (per-chunk, per-shard, per-batch)', 'every flush round asks every worker, so a failing background batch cannot be missed (shared with C02.ack/force_flush)', "a scrubbed run is released with the sum of its members' own extent lengths", "no discarded storage error", "failure arms reach scrub / quarantine / poison and requeue all entries",
           "poisoned device is unwritable", "errors propagate to flush()",
           'two-slot journal position: every journal writer records its slot; position advances only after write + fsync (shared with C04.position)',
           'every prepared write of a failed batch is requeued (whole drain, whole clean-up)',
           'the retirement gate walks through a superseded never-written generation (shared with C02.successor)',
           'metadata commit order']
NOT_DECIDED = ["the recovered state after a given fault sequence", "that a later flush succeeds once the device works again"]
ASSUMPTIONS = ["ShuttingDown is the only error add_write/add_replacement can return (FIELDW on WriteBuffer.shutdown in C01)"]

FEOX_RESULT = r"^std::result::Result<.*, error::FeoxError>$"

NODISCARD_EXC = [
    ("FeoxStore::drop", "DiskIO::write_store_metadata", "destructor: counters are recomputed by the next recovery"),
    ("ttl_sweep::sample_and_expire_batch", "WriteBuffer::add_write", "only ShuttingDown; recovery drops expired winners itself"),
    ("FreeSpaceManager::allocate_sectors", "FreeSpaceManager::insert_free_space", "restore attempt while already returning the primary error"),
    ("write_buffer::process_write_batch", "write_buffer::release_allocations", "failure retained in the entry's reservation word; entry is requeued"),
]


def in_scope(b):
    f = b.file
    return (f.startswith("src/storage/") or f.startswith("src/core/store/") or f == "src/core/ttl_sweep.rs"
            or f.startswith("src/core/")) and not f.startswith("src/tests")


def check_nodiscard(ctx):
    inst = "C09.nodiscard"
    n, seen = R.nodiscard(ctx, inst, in_scope, FEOX_RESULT, NODISCARD_EXC, "storage error")
    if n < 150:
        ctx.anchor_missing(inst, "FeoxError-producing call sites in scope: expected >= 150, found %d" % n)


def states_at(ps, nid):
    return [env for (n, env) in ps.seen.keys() if n == nid]


def check_arms(ctx):
    inst = "C09.arms"
    body = ctx.fn("write_buffer::process_write_batch", inst)
    if body is None:
        return
    wj = ctx.sites(body, R.call("DiskIO::write_allocation_journal"), inst, exact=1)
    bw = ctx.sites(body, R.call("DiskIO::batch_write_bytes"), inst, exact=1)
    cj = ctx.sites(body, R.call("DiskIO::clear_allocation_journal"), inst, exact=1)
    fbo = ctx.sites(body, R.call("write_buffer::failed_batch_outcome"), inst, floor=3)   # one per failing step at least; the path rules below decide
    rets = body.return_nodes()
    for nm, nodes in (("write_allocation_journal", wj), ("batch_write_bytes", bw), ("clear_allocation_journal", cj)):
        edges = R.guard_edges_for_call(body, nodes, "Err")
        if not edges:
            ctx.fail(inst, "FOLLOW", body.path, "Err outcome of %s is not handled" % nm, body.where(nodes[0]) if nodes else None)
        for (sw, l) in edges:
            # every path from the Err edge to a return passes failed_batch_outcome (or re-passes the call: retry)
            r, ps = A.reach(body, edge_targets(body, sw, l), blocked_nodes=set(fbo) | set(nodes))
            bad = [x for x in rets if x in r]
            ctx.check(not bad, inst, "FOLLOW", body.path, "Err edge of %s leads to failed_batch_outcome" % nm, body.where(sw),
                      None if not bad else {"witness": R.witness(body, ps, r.get(bad[0]))})
    # IndeterminateWrite => BatchFailure{indeterminate: true}
    agg = ctx.sites(body, R.aggregate("write_buffer::BatchFailure"), inst, floor=3)
    for nm, nodes in (("write_allocation_journal", wj), ("batch_write_bytes", bw), ("clear_allocation_journal", cj)):
        keys = A.call_roots(body, nodes)

        def payload_of(e):
            x = e
            d = 0
            while x.k in ("field", "downcast") and x.a and d < 6:
                x = x.a[0]
                d += 1
            return d > 0 and x.key() in keys
        edges = A.pred_edges(body, payload_of, "IndeterminateWrite")
        ctx.check(len(edges) >= 1, inst, "GUARD", body.path, "IndeterminateWrite outcome of %s is distinguished" % nm,
                  body.where(nodes[0]) if nodes else None)
        for (sw, l) in edges:
            ps = A.PathSearch(body)
            ps.run(edge_targets(body, sw, l), stop_at=frozenset(fbo), blocked_nodes=frozenset(nodes))
            n_checked = 0
            for a in agg:
                for env in states_at(ps, a):
                    ev = body.nodes[a].ev
                    op = dict(zip(ev["fields"], ev["ops"])).get("indeterminate")
                    val = None
                    if op and op.get("k") == "const":
                        val = op.get("val")
                    elif op and op.get("k") in ("copy", "move"):
                        te = A.tracer(body, False).operand(op)
                        if te.k == "local":
                            val = dict(env).get(("flag", te.extra))
                        elif te.k == "const":
                            val = (te.extra or {}).get("val")
                    n_checked += 1
                    ctx.check(val == 1, inst, "PIN", body.path,
                              "BatchFailure built on the IndeterminateWrite arm of %s has indeterminate = true" % nm, body.where(a),
                              {"value": val})
            ctx.check(n_checked >= 1, inst, "FOLLOW", body.path, "the IndeterminateWrite arm of %s builds a BatchFailure" % nm, body.where(sw))
    # allocation failure: release_allocations and entries returned
    al = ctx.sites(body, R.call("FreeSpaceManager::allocate_sectors"), inst, exact=1)
    ra = ctx.sites(body, R.call("write_buffer::release_allocations"), inst, exact=1)
    for (sw, l) in R.guard_edges_for_call(body, al, "Err"):
        r, ps = A.reach(body, edge_targets(body, sw, l), blocked_nodes=set(ra))
        bad = [x for x in rets if x in r]
        ctx.check(not bad, inst, "FOLLOW", body.path, "allocation failure passes release_allocations before returning", body.where(sw))
    check_entries_returned(ctx, inst, body)


def check_entries_returned(ctx, inst, body):
    """every BatchOutcome aggregate returns `retry_entries`; on failure paths the prepared writes and the
    delete operations are appended to it first"""
    outs = ctx.sites(body, R.aggregate("write_buffer::BatchOutcome"), inst, floor=2)
    for o in outs:
        ev = body.nodes[o].ev
        op = dict(zip(ev["fields"], ev["ops"])).get("retries")
        e = A.tracer(body).operand(op)
        nm = origin_names(body, e) | names_of(body, e)
        ctx.check("retry_entries" in nm, inst, "PROVENANCE", body.path, "BatchOutcome.retries is the retry_entries accumulator", body.where(o), {"names": sorted(nm)})
        res = dict(zip(ev["fields"], ev["ops"])).get("result")
        re_ = A.tracer(body).operand(res)
        if re_.k == "agg" and (re_.extra or "").endswith("Result::Err"):
            # failure outcome built in place: prepared writes and deletions must have been appended
            ext = R.call("Extend::extend").filter(lambda b, n: "retry_entries" in origin_names(b, R.recv_expr(b, n)), "retry_entries.extend")(body)
            srcs = set()
            for x in ext:
                srcs |= origin_names(body, R.arg_expr(body, body.nodes[x], 1)) | names_of(body, R.arg_expr(body, body.nodes[x], 1))
            R.dom(ctx, inst, body, ext, [o], "failure outcome built only after entries were appended to retry_entries", a_desc="retry_entries.extend")
            ctx.check({"prepared_writes", "delete_operations"} <= srcs, inst, "PROVENANCE", body.path,
                      "both prepared writes and deletions are requeued on failure", body.where(o), {"sources": sorted(srcs)})


def check_contain(ctx):
    inst = "C09.contain/failed_batch_outcome"
    body = ctx.fn("write_buffer::failed_batch_outcome", inst)
    if body is not None:
        q = ctx.sites(body, R.call("write_buffer::quarantine_allocations"), inst, exact=2)
        cl = ctx.sites(body, R.call("write_buffer::cleanup_failed_allocations"), inst, exact=1)
        pw = ctx.sites(body, R.call("DiskIO::poison_writes"), inst, exact=1)
        ind_true = A.pred_edges(body, lambda e: e.has_field("BatchFailure", "indeterminate"), "true")
        ind_false = A.pred_edges(body, lambda e: e.has_field("BatchFailure", "indeterminate"), "false")
        ctx.check(len(ind_true) == 1 and len(ind_false) == 1, inst, "anchor", body.path, "failure.indeterminate is tested exactly once", None)
        rets = body.return_nodes()
        # indeterminate: quarantine before exit, and nothing that releases or scrubs
        for (sw, l) in ind_true:
            r, ps = A.reach(body, edge_targets(body, sw, l), blocked_nodes=set(q))
            bad = [x for x in rets if x in r]
            ctx.check(not bad, inst, "DOM", body.path, "[indeterminate] allocations are quarantined before returning", body.where(sw))
            r, ps = A.reach(body, edge_targets(body, sw, l))
            rel = [n for n in r if body.nodes[n].kind == "call" and any(
                t and (ctx.prog.reaches_name(t, "FreeSpaceManager::release_sectors") or path_matches(t, "FreeSpaceManager::release_sectors"))
                for t in ctx.prog.targets(body.nodes[n].ev))]
            ctx.check(not rel, inst, "FORBID", body.path, "[indeterminate] nothing that can release sectors is called", body.where(sw),
                      None if not rel else {"site": body.where(rel[0])})
            wr = [n for n in r if n in set(V.W_REACHING(body))]
            ctx.check(not wr, inst, "FORBID", body.path, "[indeterminate] no further device write is attempted", body.where(sw))
        for (sw, l) in ind_false:
            r, ps = A.reach(body, edge_targets(body, sw, l), blocked_nodes=set(cl))
            bad = [x for x in rets if x in r]
            ctx.check(not bad, inst, "DOM", body.path, "[determinate] failed allocations are scrubbed (cleanup_failed_allocations) before returning", body.where(sw))
        R.guard(ctx, inst, body, pw, R.guard_edges_for_call(body, cl, "Err"), "device poisoned only when the scrub failed")
        for (sw, l) in R.guard_edges_for_call(body, cl, "Err"):
            r, ps = A.reach(body, edge_targets(body, sw, l), blocked_nodes=set(pw))
            bad = [x for x in rets if x in r]
            ctx.check(not bad, inst, "FOLLOW", body.path, "a failed scrub poisons the device before returning", body.where(sw))
            r, ps = A.reach(body, edge_targets(body, sw, l), blocked_nodes=set(q))
            bad = [x for x in pw if x in r]
            ctx.check(not bad, inst, "DOM", body.path, "a failed scrub quarantines before poisoning", body.where(sw))
        # every path returns all entries: extend(prepared_writes.drain) and extend(delete_operations) dominate the return
        ext = ctx.sites(body, R.call("Extend::extend").filter(lambda b, n: "retry_entries" in origin_names(b, R.recv_expr(b, n)) | names_of(b, R.recv_expr(b, n)), "retry_entries.extend"), inst, exact=2)
        srcs = []
        for x in ext:
            srcs.append(origin_names(body, R.arg_expr(body, body.nodes[x], 1)) | names_of(body, R.arg_expr(body, body.nodes[x], 1)))
        ctx.check(any("prepared_writes" in s for s in srcs) and any("delete_operations" in s for s in srcs), inst, "PROVENANCE", body.path,
                  "prepared writes and deletions are both appended to the returned retries", None, {"sources": [sorted(s) for s in srcs]})
        for x in ext:
            R.dom(ctx, inst, body, [x], rets, "entries appended on every path to return", a_desc="retry_entries.extend")
        outs = ctx.sites(body, R.aggregate("write_buffer::BatchOutcome"), inst, exact=1)
        for o in outs:
            ev = body.nodes[o].ev
            f = dict(zip(ev["fields"], ev["ops"]))
            e = A.tracer(body).operand(f.get("retries"))
            ctx.check("retry_entries" in (origin_names(body, e) | names_of(body, e)), inst, "PROVENANCE", body.path, "returned retries is retry_entries", body.where(o))
            e = A.tracer(body).operand(f.get("result"))
            ctx.check(e.k == "agg" and (e.extra or "").endswith("Result::Err"), inst, "PIN", body.path, "failed_batch_outcome always returns Err", body.where(o))
        # map closure has no filter: every drained write yields its entry
        chain = []
        for x in ext:
            chain += [c.extra for c in R.arg_expr(body, body.nodes[x], 1).calls()]
        bad = [c for c in chain if any(path_matches(c, f) for f in ("Iterator::filter", "Iterator::filter_map", "Iterator::take", "Iterator::skip"))]
        ctx.check(not bad, inst, "PROVENANCE", body.path, "no entry is filtered out while requeueing", None, {"chain": chain})

    from rules.common import whole_collection_loop
    qb = ctx.fn("write_buffer::quarantine_allocations", inst)
    if qb is not None:
        qr = ctx.sites(qb, R.call("write_buffer::quarantine_reservation"), inst, exact=1)
        for q_ in qr:
            ok, nm, det = whole_collection_loop(qb, q_, 0)
            ctx.check(ok, inst, "FOLLOW", qb.path, "every allocation of the failed batch is considered for quarantine (loop over all allocations)", qb.where(q_), det)
        R.guard(ctx, inst, qb, qr, A.pred_edges(qb, lambda e: e.has_field("PreparedWrite", "sector"), "Some"), "exactly the allocations that own sectors are quarantined")
        for (sw, l) in A.pred_edges(qb, lambda e: e.has_field("PreparedWrite", "sector"), "Some"):
            r, ps = A.reach(qb, edge_targets(qb, sw, l), blocked_nodes=set(qr))
            ctx.check(not any(x in r for x in R.call("Iterator::next")(qb) + qb.return_nodes()), inst, "FOLLOW", qb.path, "an allocation that owns sectors is always quarantined", qb.where(sw))
    inst = "C09.contain/retire_extents"
    body = ctx.fn("DiskIO::retire_extents", inst)
    if body is not None:
        pw = R.call("DiskIO::poison_writes")(body)

        def poisoned_by_map_err(sw):
            """`step.map_err(|e| self.poison_writes(e))?`: the error is poisoned inside the closure before it is branched on"""
            raw = A.switch_info(body, sw).raw
            for x in raw.walk():
                if x.k == "call" and path_matches(x.extra, "Result::map_err") and len(x.a) > 1:
                    for y in x.a[1].walk():
                        if y.k == "agg" and y.extra in ctx.prog.bodies and (ctx.prog.reaches_name(y.extra, "DiskIO::poison_writes")):
                            return True
            return False
        n_poison = len(pw)
        for nm in ("DiskIO::write_allocation_journal", "DiskIO::retire_extents_unjournaled", "DiskIO::clear_allocation_journal"):
            nodes = ctx.sites(body, R.call(nm), inst, exact=1)
            edges = R.guard_edges_for_call(body, nodes, "Err")
            ctx.check(len(edges) >= 1, inst, "GUARD", body.path, "Err outcome of %s is handled" % nm.split("::")[-1], body.where(nodes[0]) if nodes else None)
            for (sw, l) in edges:
                if poisoned_by_map_err(sw):
                    n_poison += 1
                    ctx.ok(inst, "FOLLOW", body.path, "a failed %s poisons the device" % nm.split("::")[-1], body.where(sw))
                    continue
                r, ps = A.reach(body, edge_targets(body, sw, l), blocked_nodes=set(pw))
                bad = [x for x in body.return_nodes() if x in r]
                ctx.check(not bad, inst, "FOLLOW", body.path, "a failed %s poisons the device" % nm.split("::")[-1], body.where(sw))
                r, ps = A.reach(body, edge_targets(body, sw, l))
                bad = [x for x in A.ok_nodes(body) + V.W_REACHING(body) if x in r]
                ctx.check(not bad, inst, "GUARD", body.path, "no further write / Ok return after a failed %s" % nm.split("::")[-1], body.where(sw))
        ctx.check(n_poison >= 3, inst, "anchor", body.path, "each of the three steps poisons on failure (found %d)" % n_poison, None)

    inst = "C09.contain/process_deletions"
    body = ctx.fn("write_buffer::process_deletions", inst)
    if body is not None:
        re_ = ctx.sites(body, R.call("DiskIO::retire_extents"), inst, exact=1)
        app = R.call("Vec::append").filter(lambda b, n: "retries" in (origin_names(b, R.recv_expr(b, n)) | names_of(b, R.recv_expr(b, n))), "retries.append")(body)
        for (sw, l) in R.guard_edges_for_call(body, re_, "Err"):
            r, ps = A.reach(body, edge_targets(body, sw, l))
            got = set()
            for a in app:
                if a in r:
                    got |= origin_names(body, R.arg_expr(body, body.nodes[a], 1)) | names_of(body, R.arg_expr(body, body.nodes[a], 1))
            ctx.check({"marker_writes", "release_operations"} <= got, inst, "FOLLOW", body.path,
                      "on retirement failure both pending lists are requeued", body.where(sw), {"requeued": sorted(got)})
            errs = [e for e in A.error_nodes(body) if e in r]
            ctx.check(bool(errs), inst, "FOLLOW", body.path, "retirement failure is returned to the caller", body.where(sw))
            for a in app:
                if a in r:
                    r2, _ = A.reach(body, edge_targets(body, sw, l), blocked_nodes={a})
                    ctx.check(not any(x in r2 for x in body.return_nodes()), inst, "DOM", body.path, "requeue precedes the error return", body.where(a))
    inst = "C09.contain/flush_pending_deletions"
    body = ctx.fn("write_buffer::flush_pending_deletions", inst)
    if body is not None:
        pd = ctx.sites(body, R.call("write_buffer::process_deletions"), inst, exact=1)
        from rules.common import pending_queue_ops
        ext = ctx.sites(body, R.Sel(pending_queue_ops, "pending.extend"), inst, exact=1)
        # retries go back to the pending queue whatever process_deletions returned (no `?` between)
        for p in pd:
            r, ps = A.reach(body, A.succs(body, p), blocked_nodes=set(ext),
                            blocked_edges=set(A.pred_edges(body, lambda e: e.k == "call" and path_matches(e.extra, "Vec::is_empty") and "retries" in (origin_names(body, e) | names_of(body, e)), "true")))
            bad = [x for x in body.return_nodes() if x in r]
            ctx.check(not bad, inst, "FOLLOW", body.path, "[retries non-empty] retries are put back on the pending queue before returning", body.where(p),
                      None if not bad else {"witness": R.witness(body, ps, r.get(bad[0]))})
        # result of process_deletions is what is returned
        rets = [n for n in body.nodes if n.kind in ("call", "assign") and (n.ev.get("dest") or n.ev.get("dst"))["l"] == 0 and not (n.ev.get("dest") or n.ev.get("dst"))["p"]]
        good = False
        for n in rets:
            e = A.tracer(body, False).node_value(n.id)
            if any(c.nid in pd for c in e.calls()):
                good = True
        ctx.check(good, inst, "PROVENANCE", body.path, "the result of process_deletions is returned to the caller", None)


def check_poison(ctx):
    inst = "C09.poison"
    for nm, prims in (("DiskIO::write_sectors_sync", V.P_WRITE), ("DiskIO::flush", V.P_SYNC), ("DiskIO::batch_write_inner", V.P_WRITE)):
        body = ctx.fn(nm, inst)
        if body is None:
            continue
        ew = ctx.sites(body, R.call("DiskIO::ensure_writable"), inst, floor=1)
        pr = ctx.sites(body, R.call(*prims), inst, floor=1, what="raw primitive")
        R.dom(ctx, inst, body, ew, pr, "ensure_writable dominates the raw device primitive", a_desc="ensure_writable")
        R.guard(ctx, inst, body, pr, R.guard_edges_for_call(body, ew, "Ok"), "raw primitive only on the Ok edge of ensure_writable")
    body = ctx.fn("DiskIO::retire_extents_unjournaled", inst)
    if body is not None:
        ew = ctx.sites(body, R.call("DiskIO::ensure_writable"), inst, floor=1)
        dr = ctx.sites(body, R.call("DiskIO::write_retirement_extent_direct"), inst, exact=1)
        R.dom(ctx, inst, body, ew, dr, "ensure_writable dominates the direct marker writer", a_desc="ensure_writable")
        R.guard(ctx, inst, body, dr, R.guard_edges_for_call(body, ew, "Ok"), "direct marker writer only on the Ok edge of ensure_writable")
    # ensure_writable itself: Err when the flag is set
    body = ctx.fn("DiskIO::ensure_writable", inst)
    if body is not None:
        ld = ctx.sites(body, R.field_load("DiskIO", "write_indeterminate"), inst, exact=1)
        oks = A.ok_nodes(body)
        edges = R.guard_edges_for_call(body, ld, "false")
        R.guard(ctx, inst, body, oks, edges, "ensure_writable returns Ok only when write_indeterminate is false")
    R.fieldw_within(ctx, inst + "/flag-writers", "DiskIO", "write_indeterminate",
                    ["DiskIO::new", "DiskIO::new_from_file", "DiskIO::poison_writes", "DiskIO::batch_write_inner"], floor=3)
    # the flag is only ever set to true after construction
    for b in ctx.prog.product_bodies():
        for nid in R.field_write("DiskIO", "write_indeterminate")(b):
            n = b.nodes[nid]
            if n.kind == "call":
                v = n.ev["args"][1] if len(n.ev["args"]) > 1 else {}
                ctx.check(v.get("k") == "const" and v.get("val") == 1, inst, "PIN", b.path, "write_indeterminate is only ever set (never cleared)", b.where(nid))
    body = ctx.fn("DiskIO::new", inst)
    if body is not None:
        fi = ctx.sites(body, R.call("io::file_is_indeterminate"), inst, exact=1)
        oks = A.ok_nodes(body)
        R.guard(ctx, inst, body, oks, R.guard_edges_for_call(body, fi, "false"), "a DiskIO is only handed out for a file that is not registered as indeterminate")
    body = ctx.fn("DiskIO::poison_writes", inst)
    if body is not None:
        st = ctx.sites(body, R.field_write("DiskIO", "write_indeterminate"), inst, exact=1)
        mk = ctx.sites(body, R.call("io::mark_file_indeterminate"), inst, exact=1)
        R.dom(ctx, inst, body, st, body.return_nodes(), "poison_writes sets the flag on every path", a_desc="store to write_indeterminate")
        R.dom(ctx, inst, body, mk, body.return_nodes(), "poison_writes registers the file on every path", a_desc="mark_file_indeterminate")
    # indeterminate io_uring submit error: flag + registry before the error is returned
    body = ctx.fn("DiskIO::batch_write_inner", inst)
    if body is not None:
        ind = ctx.sites(body, R.aggregate("error::FeoxError", "IndeterminateWrite"), inst, exact=1)
        st = ctx.sites(body, R.field_write("DiskIO", "write_indeterminate"), inst, exact=1)
        mk = ctx.sites(body, R.call("io::mark_file_indeterminate"), inst, exact=1)
        for i in ind:
            for tgt, nm in ((st, "write_indeterminate flag"), (mk, "indeterminate-file registry")):
                r, ps = A.reach(body, A.succs(body, i), blocked_nodes=set(tgt))
                bad = [x for x in body.return_nodes() if x in r]
                ctx.check(not bad, inst, "FOLLOW", body.path, "an indeterminate submit error sets the %s before returning" % nm, body.where(i))


def check_propagate(ctx):
    inst = "C09.propagate/force_flush"
    body = ctx.fn("WriteBuffer::force_flush", inst)
    if body is not None:
        recv = ctx.sites(body, R.call("Receiver::recv"), inst, exact=1)
        C02.check_error_absorbed(ctx, inst, body, recv, "first_error")
        # a failure can only reach flush() from a worker that was asked: every round asks every worker (same rule as C02.ack/force_flush)
        C02.check_all_workers(ctx, inst, body)
        oks = A.ok_nodes(body)
        edges = A.pred_edges(body, lambda e: bool(C02._names(body, e) & {"first_error"}), "None")
        R.guard(ctx, inst, body, oks, edges, "Ok(()) only when no worker reported an error")
        # a vanished worker is an error (ChannelError), not silence
        ce = ctx.sites(body, R.aggregate("error::FeoxError", "ChannelError"), inst, floor=1)
    inst = "C09.propagate/worker"
    body = ctx.fn("write_buffer::write_buffer_worker", inst)
    if body is not None:
        fl = ctx.sites(body, R.call("write_buffer::flush_worker_shards"), inst, floor=2)
        snd = ctx.sites(body, R.call("Sender::send"), inst, exact=1)
        if snd:
            e = R.arg_expr(body, body.nodes[snd[0]], 1, transparent=False)
            ctx.check(e.k == "call" and e.nid in fl, inst, "PROVENANCE", body.path,
                      "the worker answers a flush request with the result of flush_worker_shards", body.where(snd[0]), {"expr": e.show()})
            # when the request carries a response channel, the answer is sent
            some_edges = A.pred_edges(body, lambda e: e.has_field("FlushRequest", "response"), "Some")
            R.guard(ctx, inst, body, snd, some_edges, "answer sent exactly when a response channel was supplied")
    inst = "C09.propagate/flush_worker_shards"
    body = ctx.fn("write_buffer::flush_worker_shards", inst)
    if body is not None:
        pwb = ctx.sites(body, R.call("write_buffer::process_write_batch"), inst, exact=1)
        # the result field of the BatchOutcome is inspected and recorded
        def is_result(e):
            x = e
            while x.k in ("field", "downcast") and x.a:
                if x.k == "field" and x.extra[1] == "result":
                    return any(c.nid in pwb for c in x.calls())
                x = x.a[0]
            return e.k == "local" and "Result<(), error::FeoxError>" in (body.local_ty(e.extra) or "") and body.local_name(e.extra) is not None
        edges = A.pred_edges(body, is_result, "Err")
        ctx.check(len(edges) >= 1, inst, "GUARD", body.path, "BatchOutcome.result is inspected", body.where(pwb[0]) if pwb else None)
        from rules import roles
        locs = roles.locals_with_role(body, "first_error")
        sets = []
        for l in locs:
            for d in body.defs.get(l, []):
                v = A.tracer(body, False).node_value(d)
                if v.k == "agg" and (v.extra or "").endswith("Option::Some"):
                    sets.append(d)
        already = A.pred_edges(body, lambda e: e.k == "local" and e.extra in locs, "Some")
        for (sw, l) in edges:
            r, ps = A.reach(body, edge_targets(body, sw, l), blocked_nodes=set(sets), blocked_edges=set(already))
            bad = [x for x in A.ok_nodes(body) + R.call("ShardedWriteBuffer::requeue_entries")(body) if x in r]
            ctx.check(not bad, inst, "FOLLOW", body.path, "a failed batch is recorded in first_error before the shard is requeued", body.where(sw),
                      None if not bad else {"witness": R.witness(body, ps, r.get(bad[0]))})
        # retries of a failed batch and the unprocessed remainder are requeued
        rq = ctx.sites(body, R.call("ShardedWriteBuffer::requeue_entries"), inst, exact=1)
        if rq:
            e = R.arg_expr(body, body.nodes[rq[0]], 1)
            ctx.check("shard_retries" in (origin_names(body, e) | names_of(body, e)), inst, "PROVENANCE", body.path, "requeue_entries receives shard_retries", body.where(rq[0]))
        ext = R.call("Extend::extend").filter(lambda b, n: "shard_retries" in (origin_names(b, R.recv_expr(b, n)) | names_of(b, R.recv_expr(b, n))), "shard_retries.extend")(body)
        ctx.check(len(ext) >= 2, inst, "anchor", body.path, "shard_retries collects both the batch's retries and the unprocessed remainder (%d extends)" % len(ext), None)
        R.follow(ctx, inst, body, pwb, [x for x in ext], "the retries returned by process_write_batch are appended to shard_retries", b_desc="shard_retries.extend")


def check_completion(ctx):
    """an io_uring write completion counts as success only if it is non-negative AND reports exactly the requested length:
    a short write is an error (the caller poisons / retries), never silently accepted"""
    from rules.common import pin_comparisons
    inst = "C09.completion"
    b = ctx.fn("io::validate_write_completion", inst)
    if b is None:
        return
    pin_comparisons(ctx, inst, b, [
        ("Lt", lambda e: e.k == "arg" and e.extra[0] == 1, lambda e: e.k == "const" and (e.extra or {}).get("val") == 0, "a negative completion is an error (`result < 0`)"),
        ("Eq", lambda e: e.k == "arg" and e.extra[0] == 2, lambda e: e.k == "cast" and e.a[0].k == "arg" and e.a[0].extra[0] == 1, "a completion that is not exactly the requested length is an error (`result as usize != expected`)"),
    ])
    oks = A.ok_nodes(b)
    def lt0(e):
        return e.k == "bin" and e.extra == "Lt" and e.a[0].k == "arg" and e.a[0].extra[0] == 1
    def eqlen(e):
        return e.k == "bin" and e.extra == "Eq" and e.has_arg(idx=2) and e.has_arg(idx=1)
    R.guard(ctx, inst, b, oks, A.pred_edges(b, lt0, "false"), "Ok only for a non-negative result")
    R.guard(ctx, inst, b, oks, A.pred_edges(b, eqlen, "true"), "Ok only for a full-length write")
    sites = ctx.prog.call_sites("io::validate_write_completion")
    ctx.check(len(sites) >= 1, inst, "anchor", "-", "completion results are validated (call sites >= 1, found %d)" % len(sites), None)
    for bb, n in sites:
        ctx.check(R.result_is_used(bb, n.id), inst, "NODISCARD", bb.path, "the verdict of validate_write_completion is not dropped", bb.where(n.id))


def check_metadata_commit(ctx):
    """two metadata slots: generation g + 1 always goes to the slot that does not hold the last durable generation g. That
    needs the in-memory generation to advance only once the new copy is written and flushed; a failed attempt must leave
    it untouched so that the retry targets the same (stale) slot"""
    inst = "C09.metadata-commit"
    b = ctx.fn("DiskIO::write_store_metadata", inst)
    if b is None:
        return
    adv = ctx.sites(b, R.call("Metadata::advance_generation"), inst, exact=1)
    ws = ctx.sites(b, R.call("DiskIO::write_sectors_sync"), inst, exact=1)
    fl = ctx.sites(b, R.call("DiskIO::flush"), inst, exact=1)
    for a in adv:
        r = R.recv_expr(b, b.nodes[a], 0)
        ctx.check(not r.has_arg(idx=2), inst, "PROVENANCE", b.path, "the generation is advanced on a local copy, not on the store-wide metadata", b.where(a), {"receiver": r.show()[:80]})
    stores = [n.id for n in b.nodes if n.kind == "assign" and n.ev["dst"]["l"] == 2 and n.ev["dst"]["p"] and n.ev["dst"]["p"][0] == "*"]
    ctx.check(len(stores) == 1, inst, "anchor", b.path, "one commit of the advanced metadata into the caller's copy (found %d)" % len(stores), None)
    R.dom(ctx, inst, b, fl, stores, "the in-memory metadata is committed only after the new copy was flushed", a_desc="flush")
    R.guard(ctx, inst, b, stores, R.guard_edges_for_call(b, fl, "Ok"), "and only on the Ok edge of the flush")
    R.guard(ctx, inst, b, stores, R.guard_edges_for_call(b, ws, "Ok"), "and of the write")
    # slot choice from the *advanced* generation's parity
    for w in ws:
        s_ = R.arg_expr(b, b.nodes[w], 1)
        ok = s_.has_const(name="FEOX_METADATA_BLOCK") or s_.has_const(name="FEOX_METADATA_BACKUP_BLOCK") or s_.k == "local"
        ctx.check(ok, inst, "PIN", b.path, "the slot is FEOX_METADATA_BLOCK or FEOX_METADATA_BACKUP_BLOCK", b.where(w), nontrivial=False)
    par = A.pred_switches(b, lambda e: e.k == "bin" and e.extra == "Eq" and any(x.k == "bin" and x.extra == "BitAnd" for x in e.walk()) and e.has_call("Metadata::generation"))
    ctx.check(len(par) == 1, inst, "PIN", b.path, "the slot is chosen by the parity of the new generation", None)


def check_error_latch(ctx, inst="C09.latch"):
    """first-error latches (`let mut first_error: Option<FeoxError>`, filled as work items fail - directly or by a callee that is
    handed `&mut first_error`): once an error may have been latched, no assignment may replace the latch before it was examined,
    and a latch found to hold an error is never reassigned (the error is returned / handed on). A latch that is re-initialised per
    chunk but only examined after the loop reports the last chunk's outcome: an I/O failure in an earlier chunk is swallowed,
    flush() answers Ok and the failed records never reach the device."""
    import re as _re
    prog = ctx.prog
    n_latches = 0
    for b in prog.product_bodies():
        if not ("storage::" in b.path or "core::store" in b.path):
            continue
        tr = A.tracer(b, transparent=False)
        for l in range(b.argc + 1, len(b.locals)):
            if not b.local_name(l) or not _re.match(r"^std::option::Option<error::FeoxError>$", b.local_ty(l) or ""):
                continue
            defs = list(b.defs.get(l, []))
            if not defs:
                continue

            def is_some(d):
                v = tr.node_value(d)
                return v.k == "agg" and str(v.extra).endswith("Option::Some")
            somes = [d for d in defs if is_some(d)]
            # calls that are handed `&mut latch`
            refs = {n.ev["dst"]["l"] for n in b.nodes if n.kind == "assign" and n.ev.get("rv") == "ref" and n.ev.get("mut") and n.ev["pl"]["l"] == l and not n.ev["pl"]["p"]}
            byref = []
            for n in b.calls():
                for a_ in n.ev["args"]:
                    x = R.op_local(a_)
                    seen = 0
                    while x is not None and x not in refs and seen < 4:
                        ds = b.defs.get(x, [])
                        nx = None
                        if len(ds) == 1 and b.nodes[ds[0]].kind == "assign" and b.nodes[ds[0]].ev.get("rv") in ("use", "ref"):
                            ev = b.nodes[ds[0]].ev
                            nx = R.op_local(ev["a"]) if ev.get("rv") == "use" else (ev["pl"]["l"] if ev["pl"]["p"] == ["*"] else None)
                        x = nx
                        seen += 1
                    if x in refs and not any(R.call_matches(n.ev, t) for t in ("Option::is_none", "Option::is_some", "Option::as_ref", "Option::take", "Option::is_some_and")):
                        byref.append(n.id)
            if not somes and not byref:
                continue
            n_latches += 1
            owner = R.owner_fn(prog, b)
            nm = b.local_name(l)
            tests = [s_ for s_ in A.switches(b) if A.switch_info(b, s_).root.k == "local" and A.switch_info(b, s_).root.extra == l]
            # after a Some-assignment the latch holds an error until its next assignment: the None edges of its tests are infeasible
            none_edges = {(t, lab) for t in tests for lab, v in A.switch_info(b, t).edge_vals.items() if v == "None"}
            for d in somes:
                r, ps = A.reach(b, A.succs(b, d), blocked_edges=none_edges)
                bad = [x for x in defs if x in r]
                ctx.check(not bad, inst, "NEVER-AFTER", owner, "a latched error (`%s`) is never overwritten before it was consumed" % nm, b.where(d),
                          None if not bad else {"overwritten_at": b.where(bad[0]), "witness": R.witness(b, ps, r.get(bad[0]))})
            for c in byref:
                r, ps = A.reach(b, A.succs(b, c), blocked_nodes=set(tests))
                bad = [x for x in defs if x in r]
                ctx.check(not bad, inst, "NEVER-AFTER", owner, "a latch handed to a callee (`&mut %s`) is examined before it is assigned again" % nm, b.where(c),
                          None if not bad else {"overwritten_at": b.where(bad[0]), "witness": R.witness(b, ps, r.get(bad[0]))})
            if byref:
                ctx.check(bool(tests), inst, "anchor", owner, "the latch `%s` is examined" % nm, None)
                for t in tests:
                    info = A.switch_info(b, t)
                    for lab, v in info.edge_vals.items():
                        if v != "Some":
                            continue
                        r, ps = A.reach(b, edge_targets(b, t, lab))
                        bad = [x for x in defs if x in r]
                        ctx.check(not bad, inst, "NEVER-AFTER", owner, "a latch found to hold an error (`%s`) is not reassigned" % nm, b.where(t),
                                  None if not bad else {"overwritten_at": b.where(bad[0])})
    ctx.check(n_latches >= 6, inst, "anchor", "-", "first-error latches examined (>= 6, found %d)" % n_latches, None)


def check_scrub(ctx, prefix="C09.contain"):
    from rules.common import check_scrub_release_clears_group
    check_scrub_release_clears_group(ctx, prefix + "/scrub-release")
    from rules.common import check_scrub_release_extent_sum
    check_scrub_release_extent_sum(ctx, prefix + "/scrub-release")
    # release_allocations (allocation failure path): the reservation cleared is the one just released
    inst = prefix + "/release_allocations"
    b = ctx.fn("write_buffer::release_allocations", inst)
    if b is not None:
        rs = ctx.sites(b, R.call("FreeSpaceManager::release_sectors"), inst, exact=1)
        cr = ctx.sites(b, R.call("write_buffer::clear_reserved_sector"), inst, exact=1)
        for (sw, l) in R.guard_edges_for_call(b, rs, "Ok"):
            r, ps = A.reach(b, edge_targets(b, sw, l), blocked_nodes=set(cr))
            bad = [x for x in b.return_nodes() + R.call("Iterator::next")(b) if x in r]
            ctx.check(not bad, inst, "FOLLOW", b.path, "a released allocation always has its reservation cleared before the next one", b.where(sw))
        if rs and cr:
            a = origin_names(b, R.arg_expr(b, b.nodes[cr[0]], 0)) | names_of(b, R.arg_expr(b, b.nodes[cr[0]], 0))
            c = origin_names(b, R.arg_expr(b, b.nodes[rs[0]], 2)) | names_of(b, R.arg_expr(b, b.nodes[rs[0]], 2))
            ctx.check(bool(a & c), inst, "PROVENANCE", b.path, "the reservation cleared belongs to the allocation that was released", b.where(cr[0]), {"cleared": sorted(a), "released": sorted(c)})


def check_successor(ctx):
    """a failed record write leaves a superseded, never-written generation in the successor chain: the retirement gate must
    walk THROUGH it (it is neither durable nor a delete), or the last durable generation is destroyed while the device is
    failing. Same rule as C02.successor, reported here for the I/O-failure clause 'never destroy durable data'."""
    C02.check_successor(ctx, "C09.successor")


def check_journal_position(ctx):
    """the two-slot journal ping-pongs so that a journal write that fails half-way (torn, short) can only damage the older,
    superseded image: every journal writer - intent *and* clear - records the slot it wrote, the next write goes to the other
    slot, and the in-memory position advances only after write + fsync succeeded. A clear that forgets its slot makes the next
    intent overwrite the newest image in place; if that write tears, decode falls back to the previous batch's stale intent and
    recovery scrubs acknowledged records (same rule as C04.position)."""
    from rules import C04
    C04.check_position(ctx, "C09.journal-position")



def check_requeue(ctx):
    """see rules.common.check_requeue_whole: every prepared write of a failed batch is requeued"""
    from rules import common as _c
    _c.check_requeue_whole(ctx, "C09.requeue")


def check(ctx):
    check_error_latch(ctx)
    check_requeue(ctx)
    check_journal_position(ctx)
    check_successor(ctx)
    check_completion(ctx)
    check_metadata_commit(ctx)
    check_scrub(ctx)
    check_nodiscard(ctx)
    check_arms(ctx)
    check_contain(ctx)
    check_poison(ctx)
    check_propagate(ctx)
