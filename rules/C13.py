"""C13 — memory accounting is exact and the limit is never exceeded by admitted writes.
Decided: reserve/commit/release pairing on every publication and removal; CAS admission."""
from feoxlint import analysis as A
from feoxlint import rulekit as R
from feoxlint import vocab as V
from feoxlint.model import path_matches
from rules import storevocab as S
from rules.common import edge_targets, origin_names, names_of, drop_impl

EXPLANATION = """
Accounting pairing as path facts: every new-key publication is dominated by reserve_memory(calculate_record_size(key,
value)) and followed by MemoryReservation::commit and record_count += 1; every replacement reserves the growth
(new.saturating_sub(old)) before publishing, commits after, and releases the shrink exactly on the old > new branch;
every removal is accompanied, on every path through it, by exactly one record_count -= 1 and one memory_usage -= size
(directly or through note_expired_record); recovery credits memory for every published record, counts a key only when
no generation was indexed, and debits the replaced generation first; with a limit configured admission is a
compare-exchange loop guarded by `next > limit => OutOfMemory` with no plain fetch_add; a reservation dropped without
commit gives its amount back; only the reviewed functions write memory_usage. Not decided: exact equality of the counter
with the live sum (key.capacity() vs key.len() is value-level), the instantaneous bound beyond "admission is a CAS".
"""
DECIDED = ['expiry paths debit the size of the record they remove (identity re-validation, shared with C07.identity)', "recovery debits the displaced generation's size and credits the scanned record's size", "reserve -> publish -> commit (+count) on new keys", "growth reserved before / shrink released after replacement",
           "one count and one byte decrement per removal", "recovery accounting", "CAS admission against the limit; rollback on drop",
           'one definition of the per-record footprint for every debit and credit',
           'admission test re-evaluated on every compare-exchange attempt']
NOT_DECIDED = ["exact equality of memory_usage with the live sum", "instantaneous bound under all interleavings"]
ASSUMPTIONS = ["MemoryReservation is linear by type (commit consumes self; Drop rolls back)"]

MEM_WRITERS = ["FeoxStore::reserve_memory", "FeoxStore::release_memory", "MemoryReservation::drop", "FeoxStore::delete_with_timestamp",
               "FeoxStore::note_expired_record", "FeoxStore::scan_and_rebuild_indexes", "FeoxStore::remove_expired_recovery_winners",
               "Statistics::new", "Statistics::reset"]


def count_on_paths(body, start_nodes, targets, stops):
    """min and max number of `targets` nodes passed on any path from start to a stop node (acyclic approximation:
    BFS over (node, count<=3) states)"""
    from collections import deque
    seen = set()
    dq = deque((s, 0) for s in start_nodes)
    results = set()
    tset = set(targets)
    sset = set(stops)
    while dq:
        n, c = dq.popleft()
        if (n, c) in seen:
            continue
        seen.add((n, c))
        if n in tset:
            c = min(c + 1, 3)
        if n in sset:
            results.add(c)
            continue
        succ = body.nodes[n].succ
        if not succ:
            results.add(c)
        for s, _ in succ:
            dq.append((s, c))
    return results


def check_new(ctx):
    inst = "C13.new"
    for (b, n, kind) in S.pub_sites(ctx, inst, kinds=("new",)):
        rm = ctx.sites(b, R.call("FeoxStore::reserve_memory"), inst, floor=1)
        cm = ctx.sites(b, R.call("MemoryReservation::commit"), inst, floor=1)
        rc = ctx.sites(b, R.field_write("Statistics", "record_count", ops=["fetch_add"]), inst, exact=1)
        R.dom(ctx, inst, b, rm, [n], "new-key publication is dominated by reserve_memory", a_desc="reserve_memory")
        R.follow(ctx, inst, b, [n], cm, "publication is followed by MemoryReservation::commit", exits=b.return_nodes() + R.call("HashMap::entry", "HashMap::read")(b), b_desc="commit")
        R.follow(ctx, inst, b, [n], rc, "publication is followed by record_count += 1", exits=b.return_nodes() + R.call("HashMap::entry", "HashMap::read")(b), b_desc="record_count.fetch_add")
        R.guard(ctx, inst, b, rc, [], "x", require_edges=False) if False else None
        # count only on the publishing path: record_count += 1 is dominated by the publication
        R.dom(ctx, inst, b, [n], rc, "record_count grows only when a new key was published", a_desc="insert_entry")
        # reserved size = calculate_record_size(key.len(), value.len())
        dom_rm = [r for r in rm if _dominates(b, r, n)]
        for r in dom_rm[-1:]:
            e = R.arg_expr(b, b.nodes[r], 1)
            ctx.check(e.has_call("FeoxStore::calculate_record_size"), inst, "PROVENANCE", b.path, "reserved amount is calculate_record_size(key, value)", b.where(r), {"expr": e.show()})
    body = ctx.fn("FeoxStore::calculate_record_size", inst)
    if body is not None:
        v = A.tracer(body).node_value(body.defs[0][0]) if len(body.defs.get(0, [])) == 1 else None
        txt = v.show() if v else ""
        good = v is not None and v.has_arg(idx=2) and v.has_arg(idx=3) and ("size_of" in txt or v.has_const())
        ctx.check(good, inst, "PIN", body.path, "record size = size_of::<Record>() + key_len + value_len", None, {"expr": txt})


def _dominates(body, a, b):
    r, _ = A.reach(body, [body.entry], blocked_nodes={a})
    return b not in r


def check_repl(ctx):
    inst = "C13.repl"
    for (b, n, kind) in S.pub_sites(ctx, inst, kinds=("repl",)):
        rm = ctx.sites(b, R.call("FeoxStore::reserve_memory"), inst, floor=1)
        cm = ctx.sites(b, R.call("MemoryReservation::commit"), inst, floor=1)
        rl = ctx.sites(b, R.call("FeoxStore::release_memory"), inst, exact=1)
        grow = [r for r in rm if R.arg_expr(b, b.nodes[r], 1).has_call("usize::saturating_sub") or R.arg_expr(b, b.nodes[r], 1).has_call("saturating_sub")]
        ctx.check(len(grow) == 1, inst, "PIN", b.path, "growth is reserved as new_size.saturating_sub(old_size)", b.where(n))
        R.dom(ctx, inst, b, grow, [n], "growth reserved before the replacement is published", a_desc="reserve_memory(growth)")
        R.follow(ctx, inst, b, [n], cm, "replacement is followed by commit", exits=b.return_nodes() + R.call("HashMap::entry")(b), b_desc="commit")
        def under_guard(x):
            if x.has_call("HashMap::entry") or any(y.k == "local" and "scc::hash_map::OccupiedEntry" in (b.local_ty(y.extra) or "") for y in x.walk()):
                return True
            for (k, l) in A.origins(b, x):
                if k == "local" and "scc::hash_map::OccupiedEntry" in (b.local_ty(l) or ""):
                    return True
                if k == "call" and path_matches(R.callee_name(b.nodes[l].ev), "HashMap::entry"):
                    return True
            return False
        for g in grow:
            e = R.arg_expr(b, b.nodes[g], 1)
            # saturating_sub(new, old): old = calculate_size() of the record *under the bucket guard* (not of the optimistic read)
            cs = [c for c in e.walk() if c.k == "call" and path_matches(c.extra, "Record::calculate_size")]
            ctx.check(len(cs) >= 1 and all(c.a and under_guard(c.a[0]) for c in cs[-1:]), inst, "PROVENANCE", b.path,
                      "growth is measured against the size of the record found under the bucket guard", b.where(g), {"expr": e.show()})
            sub = [c for c in e.walk() if c.k == "call" and path_matches(c.extra, "saturating_sub")]
            if sub and len(sub[0].a) == 2:
                old = sub[0].a[1]
                ocs = [c for c in old.walk() if c.k == "call" and path_matches(c.extra, "Record::calculate_size")]
                ctx.check(len(ocs) == 1 and ocs[0].a and under_guard(ocs[0].a[0]), inst, "PROVENANCE", b.path,
                          "the size subtracted (old_size) is calculate_size() of the generation being replaced", b.where(g), {"old": old.show()})
        # shrink: release_memory(old - new) exactly on old_size > new_size
        def shrink_cmp(e):
            return e.k == "bin" and e.extra == "Lt" and e.a[1].has_call("Record::calculate_size")
        edges = A.pred_edges(b, shrink_cmp, "true")
        R.guard(ctx, inst, b, rl, edges, "release_memory only when the record shrank (old_size > new_size)")
        R.dom(ctx, inst, b, [n], rl, "shrink is released after the replacement", a_desc="entry.insert")
        for (sw, l) in edges:
            r, ps = A.reach(b, edge_targets(b, sw, l), blocked_nodes=set(rl))
            bad = [x for x in b.return_nodes() if x in r]
            ctx.check(not bad, inst, "FOLLOW", b.path, "a shrinking replacement always releases the difference", b.where(sw))
        for x in rl:
            e = R.arg_expr(b, b.nodes[x], 1)
            ctx.check(e.k == "bin" and e.extra == "Sub" and e.a[0].has_call("Record::calculate_size"), inst, "PIN", b.path, "released amount is old_size - new_size", b.where(x), {"expr": e.show()})
            ocs = [c for c in e.a[0].walk() if c.k == "call" and path_matches(c.extra, "Record::calculate_size")] if e.k == "bin" else []
            ctx.check(len(ocs) == 1 and ocs[0].a and under_guard(ocs[0].a[0]),
                      inst, "PROVENANCE", b.path, "the released old_size is the replaced generation's size (record under the guard)", b.where(x))
    # update_ttl: same key, same value_len by construction
    body = ctx.fn("Record::new_deferred_with_ttl", inst)
    if body is not None:
        aggs = ctx.sites(body, R.aggregate("core::record::Record"), inst, exact=1)
        for a in aggs:
            ev = body.nodes[a].ev
            f = dict(zip(ev["fields"], ev["ops"]))
            v = A.tracer(body).operand(f.get("value_len"))
            ctx.check(v.has_field("Record", "value_len") and v.has_arg(idx=1), inst, "PROVENANCE", body.path, "a TTL-only generation copies predecessor.value_len", body.where(a), {"expr": v.show()})
            k = A.tracer(body).operand(f.get("key"))
            ctx.check(k.has_field("Record", "key") or "key" in names_of(body, k), inst, "PROVENANCE", body.path, "and the predecessor's key", body.where(a))


def check_rem(ctx):
    inst = "C13.rem"
    for (b, n, kind) in S.pub_sites(ctx, inst, kinds=("rem",)):
        cnt = R.field_write("Statistics", "record_count", ops=["fetch_sub"])(b) + R.call("FeoxStore::note_expired_record")(b)
        mem = R.field_write("Statistics", "memory_usage", ops=["fetch_sub"])(b) + R.call("FeoxStore::note_expired_record")(b)
        ctx.check(len(cnt) == 1 and len(mem) == 1, inst, "anchor", b.path, "one count decrement and one byte decrement site (found %d / %d)" % (len(cnt), len(mem)), b.where(n))
        # on every path through the removal: exactly one of each, before the next key / return
        loop_heads = R.call("Iterator::next")(b)
        stops = b.return_nodes() + loop_heads
        for targets, nm in ((cnt, "record_count -= 1"), (mem, "memory_usage -= size")):
            # forward from the removal
            fw = count_on_paths(b, A.succs(b, n), targets, stops)
            # backward: was it already done before the removal on this iteration? (delete / lazy retire decrement first)
            before = set()
            for t in targets:
                r, _ = A.reach(b, A.succs(b, t), blocked_nodes=set(stops))
                if n in r:
                    before.add(t)
            if before:
                # decrement precedes the removal: it must dominate it and not repeat afterwards
                R.dom(ctx, inst, b, list(before), [n], "%s precedes the removal on every path" % nm, a_desc=nm)
                ctx.check(fw <= {0}, inst, "FOLLOW", b.path, "%s happens exactly once per removal" % nm, b.where(n), {"after": sorted(fw)})
            else:
                # path-sensitive: from the removal every path to the next key / return passes the decrement
                R.follow(ctx, inst, b, [n], targets, "removal is followed by %s" % nm, exits=stops, b_desc=nm)
                # and the decrement is only reachable through the removal
                R.dom(ctx, inst, b, [n], targets, "%s only when the key was actually removed" % nm, a_desc="entry.remove")
    body = ctx.fn("FeoxStore::note_expired_record", inst)
    if body is not None:
        ctx.sites(body, R.field_write("Statistics", "record_count", ops=["fetch_sub"]), inst, exact=1)
        ctx.sites(body, R.field_write("Statistics", "memory_usage", ops=["fetch_sub"]), inst, exact=1)
    # sizes: removed size = calculate_size / calculate_record_size of the removed record
    for (b, n, kind) in S.pub_sites(ctx, inst + "/size", kinds=("rem",)):
        ms = R.field_write("Statistics", "memory_usage", ops=["fetch_sub"])(b)
        for m in ms:
            e = R.arg_expr(b, b.nodes[m], 1)
            ctx.check(e.has_call("Record::calculate_size") or e.has_call("FeoxStore::calculate_record_size"), inst + "/size", "PROVENANCE", b.path,
                      "bytes debited are the removed record's size", b.where(m), {"expr": e.show()})
        for m in R.call("FeoxStore::note_expired_record")(b):
            e = R.arg_expr(b, b.nodes[m], 1)
            ctx.check(e.has_call("Record::calculate_size"), inst + "/size", "PROVENANCE", b.path, "note_expired_record receives the removed record's size", b.where(m), {"expr": e.show()})


def check_rec(ctx):
    inst = "C13.rec"
    b = ctx.fn("FeoxStore::scan_and_rebuild_indexes", inst)
    if b is None:
        return
    pub = ctx.sites(b, V.PUB_REC, inst, exact=1)
    ma = ctx.sites(b, R.field_write("Statistics", "memory_usage", ops=["fetch_add"]), inst, exact=1)
    ms = ctx.sites(b, R.field_write("Statistics", "memory_usage", ops=["fetch_sub"]), inst, exact=1)
    rc = ctx.sites(b, R.field_write("Statistics", "record_count", ops=["fetch_add"]), inst, exact=1)
    stops = b.return_nodes() + R.call("RecoveryScanner::block")(b)
    R.follow(ctx, inst, b, pub, ma, "a recovered record is credited to memory_usage", exits=stops, b_desc="memory_usage.fetch_add")
    def existing(e):
        return e.has_call("HashMap::read") and not e.has_call("Option::is_some_and")
    some = A.pred_edges(b, lambda e: e.k == "call" and path_matches(e.extra, "HashMap::read"), "Some")
    none = A.pred_edges(b, lambda e: e.k == "call" and path_matches(e.extra, "HashMap::read"), "None")
    ctx.check(bool(some) and bool(none), inst, "anchor", b.path, "`existing` generation is matched Some / None", None)
    R.guard(ctx, inst, b, rc, none, "a key is counted only when no generation of it was indexed yet")
    R.guard(ctx, inst, b, ms, some, "the replaced generation's bytes are debited only when one existed")
    for (sw, l) in some:
        r, ps = A.reach(b, edge_targets(b, sw, l), blocked_nodes=set(ms))
        bad = [x for x in pub if x in r]
        ctx.check(not bad, inst, "DOM", b.path, "[existing = Some] the old generation is debited before the new one is published", b.where(sw))
    for (sw, l) in none:
        r, ps = A.reach(b, edge_targets(b, sw, l), blocked_nodes=set(rc))
        bad = [x for x in pub if x in r]
        ctx.check(not bad, inst, "DOM", b.path, "[existing = None] the key is counted before it is published", b.where(sw))
    # amounts: what is debited is the size of the *displaced* generation, what is credited is the size of the scanned one
    def base_call(e):
        for _ in range(12):
            if e.k in ("field", "downcast", "cast") and e.a:
                e = e.a[0]
            elif e.k == "call" and e.a and any(path_matches(e.extra, w) for w in ("slice::len", "Vec::len", "Deref::deref", "Arc::deref", "AsRef::as_ref")):
                e = e.a[0]
            else:
                break
        return e.extra if e.k == "call" else None
    def from_existing(e):
        return path_matches(base_call(e) or "", "HashMap::read")
    def from_scanned(e):
        return path_matches(base_call(e) or "", "RecordFormat::parse_record")
    for sites, pred, what in ((ms, from_existing, "the bytes debited are calculate_record_size of the displaced generation (its own key / value length)"),
                              (ma, from_scanned, "the bytes credited are calculate_record_size of the scanned record (parsed key / value length)")):
        for n in sites:
            amt = R.arg_expr(b, b.nodes[n], 1)
            calls = [c for c in amt.walk() if c.k == "call" and path_matches(c.extra, "FeoxStore::calculate_record_size")]
            ok = len(calls) == 1 and len(calls[0].a) == 3 and pred(calls[0].a[1]) and pred(calls[0].a[2])
            ctx.check(ok, inst, "PROVENANCE", b.path, what, b.where(n), {"amount": amt.show()[:160]})
    da = ctx.sites(b, R.field_write("Statistics", "disk_usage", ops=["fetch_add"]), inst, exact=1)
    ds = ctx.sites(b, R.field_write("Statistics", "disk_usage", ops=["fetch_sub"]), inst, exact=1)
    for sites, pred, what in ((ds, from_existing, "the disk bytes debited are the displaced generation's extent"),
                              (da, from_scanned, "the disk bytes credited are the scanned record's extent")):
        for n in sites:
            amt = R.arg_expr(b, b.nodes[n], 1)
            calls = [c for c in amt.walk() if c.k == "call" and path_matches(c.extra, "RecordFormat::total_size")]
            ok = len(calls) == 1 and len(calls[0].a) == 3 and pred(calls[0].a[1]) and pred(calls[0].a[2])
            ctx.check(ok, inst, "PROVENANCE", b.path, what, b.where(n), {"amount": amt.show()[:160]})


def check_record_fields(ctx, inst="C13.fields"):
    """every accounting, extent-length and layout computation reads Record.value_len / key / timestamp: each constructor
    literal must set value_len to the length of the value it stores (a deferred generation: its predecessor's), start unpublished
    state at (sector 0, refcount 1, not retired); the timestamp's source is C12.source's business"""
    n_lit = 0
    for b in ctx.prog.product_bodies():
        if not b.file.endswith("core/record.rs"):
            continue
        for n in b.nodes:
            if not (n.kind == "assign" and n.ev.get("rv") == "agg" and (n.ev.get("adt") or "").endswith("core::record::Record")):
                continue
            n_lit += 1
            tr = A.tracer(b)
            f = dict(zip(n.ev["fields"], [tr.operand(o) for o in n.ev["ops"]]))
            vl, val = f.get("value_len"), f.get("value")
            deferred = path_matches(b.path, "Record::new_deferred_with_ttl")
            if deferred:
                ok = vl is not None and vl.k == "field" and vl.extra[1] == "value_len" and vl.has_arg(idx=1)
                ctx.check(ok, inst, "PIN", b.path, "a deferred generation copies value_len from the predecessor whose bytes it borrows", b.where(n.id), {"value_len": vl.show()[:60] if vl else None})
                vs = f.get("value_source")
                ctx.check(vs is not None and vs.has_call("Arc::downgrade") and vs.has_arg(idx=1), inst, "PIN", b.path, "and links that predecessor as its value source", b.where(n.id))
                k = f.get("key")
                ctx.check(k is not None and k.has_field("Record", "key") and k.has_arg(idx=1), inst, "PIN", b.path, "and keeps its key", b.where(n.id))
            else:
                ok = vl is not None and (vl.has_call("Vec::len") or vl.has_call("Bytes::len") or vl.has_call("slice::len")) and vl.has_arg(idx=2) and \
                    all(any(path_matches(c.extra, w) for w in ("Vec::len", "Bytes::len", "slice::len", "Deref::deref", "AsRef::as_ref")) for c in vl.calls()) and \
                    not any(x.k == "arg" and x.extra[0] != 2 for x in vl.walk()) and not any(x.k == "bin" for x in vl.walk())
                ctx.check(ok, inst, "PIN", b.path, "value_len is the length of the value being stored", b.where(n.id), {"value_len": vl.show()[:60] if vl else None})
            for fld, want in (("sector", 0), ("refcount", 1), ("retired_at", 0), ("extent_state", 0)):
                v = f.get(fld)
                c = [x for x in (v.walk() if v is not None else []) if x.k == "const"]
                ctx.check(bool(c) and (c[0].extra or {}).get("val") == want, inst, "PIN", b.path, "a new generation starts with %s = %d" % (fld, want), b.where(n.id), nontrivial=False)
            ss = f.get("successor_safe")
            c = [x for x in (ss.walk() if ss is not None else []) if x.k == "const"]
            ctx.check(bool(c) and (c[0].extra or {}).get("val") in (0, False), inst, "PIN", b.path, "and with the retirement memo unset", b.where(n.id), nontrivial=False)
    ctx.check(n_lit >= 2, inst, "anchor", "-", "Record literals in record.rs (>= 2: a resident and a deferred constructor; found %d)" % n_lit, None)


def check_size_functions(ctx):
    """what is reserved when a record is created (FeoxStore::calculate_record_size(key.len(), value_len)) and what is released
    when it goes away (Record::calculate_size()) must be the same number: struct size + key bytes + value length, with the
    key bytes taken from the key buffer itself (the u16 key_len field truncates long keys)"""
    inst = "C13.size"
    a = ctx.fn("FeoxStore::calculate_record_size", inst)
    b = ctx.fn("Record::calculate_size", inst)
    if a is not None:
        v = A.tracer(a).node_value(a.defs[0][0]) if len(a.defs.get(0, [])) == 1 else None
        ok = v is not None and v.has_arg(idx=2) and v.has_arg(idx=3) and v.has_call("mem::size_of") and not any(x.k == "bin" and not x.extra.startswith("Add") for x in v.walk())
        ctx.check(ok, inst, "PIN", a.path, "reserved size = size_of::<Record>() + key_len + value_len", None, {"expr": v.show()[:100] if v else None})
    if b is not None:
        v = A.tracer(b).node_value(b.defs[0][0]) if len(b.defs.get(0, [])) == 1 else None
        keyterm = v is not None and any(x.k == "call" and (path_matches(x.extra, "Vec::capacity") or path_matches(x.extra, "Vec::len")) and x.has_field("Record", "key") for x in v.walk())
        ctx.check(keyterm, inst, "SIBLING", b.path, "released size takes the key bytes from the key buffer (capacity / len of Record.key)", None, {"expr": v.show()[:100] if v else None})
        ctx.check(v is not None and not v.has_field("Record", "key_len"), inst, "FORBID", b.path, "the truncating u16 key_len field is not used for memory accounting", None)
        ok = v is not None and v.has_field("Record", "value_len") and v.has_call("mem::size_of") and not any(x.k == "bin" and not x.extra.startswith("Add") for x in v.walk())
        ctx.check(ok, inst, "SIBLING", b.path, "released size = size_of::<Record>() + key bytes + value_len (same shape as the reserved size)", None)


def check_limit(ctx):
    inst = "C13.limit"
    b = ctx.fn("FeoxStore::reserve_memory", inst)
    if b is not None:
        cas = ctx.sites(b, R.call("Atomic::compare_exchange_weak", "Atomic::compare_exchange"), inst, exact=1)
        fa = ctx.sites(b, R.field_write("Statistics", "memory_usage", ops=["fetch_add"]), inst, exact=1)
        lim_none = A.pred_edges(b, lambda e: e.has_field("FeoxStore", "max_memory"), "None")
        lim_some = A.pred_edges(b, lambda e: e.has_field("FeoxStore", "max_memory"), "Some")
        ctx.check(bool(lim_none) and bool(lim_some), inst, "anchor", b.path, "max_memory is matched", None)
        R.guard(ctx, inst, b, fa, lim_none, "the unconditional add is used only when no limit is configured")
        R.guard(ctx, inst, b, cas, lim_some, "with a limit, admission goes through the compare-exchange")
        # next > limit => OutOfMemory, strict
        def lim_cmp(e):
            return e.k == "bin" and e.extra == "Lt" and not any(x.k == "bin" for x in e.a[0].walk()) and not any(x.k == "bin" for x in e.a[1].walk()) and \
                (e.a[0].has_field("FeoxStore", "max_memory") or "limit" in names_of(b, e.a[0])) and \
                (e.a[1].has_call("usize::checked_add") or e.a[1].has_call("checked_add") or "next" in names_of(b, e.a[1]))
        over = A.pred_edges(b, lim_cmp, "true")
        under = A.pred_edges(b, lim_cmp, "false")
        ctx.check(len(A.pred_switches(b, lim_cmp)) == 1, inst, "PIN", b.path, "admission test is `next > limit` (strict) on the checked sum", None)
        R.guard(ctx, inst, b, cas, under, "the compare-exchange is attempted only when current + amount <= limit")
        for (sw, l) in over:
            r, ps = A.reach(b, edge_targets(b, sw, l))
            ctx.check(not any(x in r for x in cas + A.ok_nodes(b)), inst, "GUARD", b.path, "exceeding the limit returns OutOfMemory without touching the counter", b.where(sw))
        # Ok(reservation) only after a successful CAS (or the no-limit add / zero amount)
        oks = A.ok_nodes(b)
        cas_ok = R.guard_edges_for_call(b, cas, "Ok")
        zero = A.pred_edges(b, lambda e: e.k == "bin" and e.extra == "Eq" and e.has_arg(idx=2) and e.has_const(val=0), "true")
        R.guard(ctx, inst, b, oks, list(cas_ok) + list(lim_none) + list(zero), "a reservation is handed out only after the counter was advanced (or for a zero amount)")
        for o in oks:
            v = A.tracer(b).operand(b.nodes[o].ev["ops"][0])
            if v.k == "agg":
                amt = v.a[1] if len(v.a) > 1 else None
                ctx.check(amt is not None and amt.k == "arg" and amt.extra[0] == 2, inst, "PROVENANCE", b.path, "the reservation records exactly the requested amount", b.where(o))
    b = drop_impl(ctx, inst, "MemoryReservation")
    if b is not None:
        fs = ctx.sites(b, R.call("Atomic::fetch_sub"), inst, exact=1)
        nz = A.pred_edges(b, lambda e: e.k == "bin" and e.extra == "Eq" and e.has_field("MemoryReservation", "amount"), "false")
        R.guard(ctx, inst, b, fs, nz, "an uncommitted reservation gives its amount back on drop")
        for (sw, l) in nz:
            r, ps = A.reach(b, edge_targets(b, sw, l), blocked_nodes=set(fs))
            ctx.check(not any(x in r for x in b.return_nodes()), inst, "FOLLOW", b.path, "a non-zero amount is always subtracted", b.where(sw))
        for f in fs:
            e = R.arg_expr(b, b.nodes[f], 1)
            ctx.check(e.has_field("MemoryReservation", "amount"), inst, "PROVENANCE", b.path, "exactly the reserved amount is returned", b.where(f))
    b = ctx.fn("MemoryReservation::commit", inst)
    if b is not None:
        ws = [n for n in b.nodes if n.kind == "assign" and n.ev["dst"]["p"] and isinstance(n.ev["dst"]["p"][-1], dict) and n.ev["dst"]["p"][-1].get("n") == "amount"]
        ctx.check(len(ws) == 1 and ws[0].ev.get("a", {}).get("val") == 0, inst, "PIN", b.path, "commit zeroes the amount so Drop keeps the bytes", None)
    R.fieldw_within(ctx, inst + "/amount", "MemoryReservation", "amount", ["FeoxStore::reserve_memory", "MemoryReservation::commit"], floor=3)
    # who writes memory_usage
    n = 0
    for bb in ctx.prog.product_bodies():
        for nid in R.field_write("Statistics", "memory_usage")(bb):
            n += 1
            o = R.owner_fn(ctx.prog, bb)
            ctx.check(any(path_matches(o, a) for a in MEM_WRITERS), inst + "/writers", "FIELDW", o, "memory_usage is written only by the reviewed functions", bb.where(nid))
    # MemoryReservation::drop writes through its `usage` reference
    if n < 6:
        ctx.anchor_missing(inst + "/writers", "memory_usage writers: expected >= 6, found %d" % n)
    b = ctx.fn("FeoxStore::release_memory", inst)
    if b is not None:
        fs = ctx.sites(b, R.field_write("Statistics", "memory_usage", ops=["fetch_sub"]), inst, exact=1)


def check_rem_identity(ctx):
    """the expiry paths size the debit from the record they sampled *before* taking the bucket guard; the debit matches the record
    removed only because removal is refused unless the record under the guard is that very record (same rule as C07.identity).
    Retiring "whatever is current" debits the sampled generation's size for a generation of another size: memory_usage drifts for
    ever, len() stays right."""
    from rules import C07
    C07.check_identity(ctx, "C13.rem/identity", kinds=("rem",))


def check_rmw(ctx, inst="C13.rmw"):
    """the shared accounting counters are only ever changed by atomic read-modify-write operations (fetch_add / fetch_sub /
    compare_exchange): a plain store - `usage.store(usage.load().saturating_sub(amount))`, a "clamp at zero", a recomputed total -
    loses every update another thread made between the load and the store, and the counter never equals the live sum again.
    Exempt: recovery sets disk_usage once while it owns the store exclusively (&mut self)."""
    counters = [("Statistics", "memory_usage", ()), ("Statistics", "record_count", ()), ("Statistics", "cache_memory", ()), ("Statistics", "keys_with_ttl", ()),
                ("Statistics", "disk_usage", ("FeoxStore::scan_and_rebuild_indexes",)), ("MemoryReservation", "usage", ()), ("Record", "extent_state", ())]
    n_writes = 0
    for b in ctx.prog.product_bodies():
        owner = R.owner_fn(ctx.prog, b)
        if path_matches(owner, "Statistics::reset") or path_matches(owner, "Statistics::new"):
            continue
        for n in b.calls():
            if not R._is_atomic_call(n.ev, R.ATOMIC_WRITES):
                continue
            e = R.recv_expr(b, n)
            for (adt, fld, exempt) in counters:
                if not e.has_field(adt, fld):
                    continue
                n_writes += 1
                op = R.callee_name(n.ev).rsplit("::", 1)[-1]
                plain = op.startswith("store") or op.startswith("swap")
                ok = not plain or any(path_matches(owner, x) for x in exempt)
                ctx.check(ok, inst, "FIELDW", owner, "%s.%s is changed only by atomic read-modify-write operations" % (adt, fld), b.where(n.id), {"op": op})
    ctx.check(n_writes >= 20, inst, "anchor", "-", "writes to the accounting counters examined (>= 20, found %d)" % n_writes, None)


def check(ctx):
    check_rmw(ctx)
    check_rem_identity(ctx)
    check_record_fields(ctx)
    check_size_functions(ctx)
    check_new(ctx)
    check_repl(ctx)
    check_rem(ctx)
    check_rec(ctx)
    check_limit(ctx)
