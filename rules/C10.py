"""C10 — the device file follows the documented v1/v2/v3 layout and stays compatible.
Decided: writer <-> reader <-> pinned-layout agreement (constants, record fields,
tokens, retirement markers, metadata and journal byte ranges, version table)."""
import json
import os

from feoxlint import analysis as A
from feoxlint import rulekit as R
from feoxlint import vocab as V
from feoxlint.model import path_matches, call_matches
from rules.common import edge_targets, origin_names, names_of, version_edges

EXPLANATION = """
Agreement of the writer, every reader and a pinned copy of the released layout (spec/layout.json), decided from the
type-checked code: ~50 constants are const-evaluated by the compiler and compared with the pinned values; the byte
offsets and widths at which parse_record reads each field are computed symbolically (offset = c + k*key_len) along the
function and must equal the cumulative offsets at which serialize_record_into appends them, the pinned layout, and the
header-size formulas record_header_size / value_offset; the parsed tuple slots must be fed by the matching reads;
sector_holds_record compares marker, key length, key, value length and timestamp at the same offsets; the record token
fold is the same function in the writer (seq_token::nonzero_token) and in recovery (record_token) and both feed CRC32C
with sector || data[..2] || [0,0] || data[4..]; the retirement-marker writer and both readers agree on tag / remaining /
token / state positions and on the protected bytes; Metadata::encode and from_bytes use the same offset constants with
the same widths, checksum() feeds the fields in the pinned order; the journal header, checksum slots and checksum
coverage use the pinned byte ranges; metadata copies alternate by generation parity and the reader prefers the strictly
newer valid copy; the version table is 1 -> V1, 2|3|_ -> V2 and the write buffer is built with the store's decoded
version. Not decided: that an independent decoder finds exactly the live keys after an arbitrary workload; golden files.
"""
DECIDED = ['boundary comparisons of what counts as a recoverable record (key / value limits, header fit) pinned with their strictness', "pinned constants", "record field offsets: writer = reader = spec", "token fold and CRC feed: writer = recovery",
           "retirement marker positions", "metadata / journal byte ranges and checksum coverage", "version table and version plumbing",
           'allocation-journal slot validity predicate set (shared with C03)',
           'every retirement-marker writer uses the one encoder',
           'v1 key allowance gated by the version']
NOT_DECIDED = ["independent-reader equivalence after arbitrary workloads", "golden-file corpus"]
ASSUMPTIONS = ["spec/layout.json is the released format (transcribed from this commit's constants and docs)"]
TECHNIQUE = "static analysis: compiler const-evaluation + symbolic offset extraction from MIR, sibling comparison against a pinned layout table"

SPEC = json.load(open(os.path.join(os.path.dirname(os.path.dirname(os.path.abspath(__file__))), "spec", "layout.json")))


# ------------------------------------------------------------------ linear forms

class Lin:
    """c + k * key_len"""
    def __init__(self, c=0, k=0):
        self.c, self.k = c, k

    def __add__(self, o):
        return Lin(self.c + o.c, self.k + o.k)

    def t(self):
        return [self.c, self.k]

    def __repr__(self):
        return "%d%s" % (self.c, ("+%dk" % self.k) if self.k else "")


def lin(body, e, env, keysyms):
    """evaluate an expression as c + k*key_len; env: local -> Lin for flow-sensitive locals"""
    if e is None:
        return None
    if e.k == "const":
        v = (e.extra or {}).get("val")
        return Lin(v, 0) if isinstance(v, int) else None
    if e.k == "cast" and e.a:
        return lin(body, e.a[0], env, keysyms)
    if e.k == "local":
        if e.extra in env:
            return env[e.extra]
        if e.extra in keysyms:
            return Lin(0, 1)
        return None
    if e.k == "arg":
        if e.extra[1] in ("key_len",):
            return Lin(0, 1)
        return None
    if e.k == "call":
        if e.nid in keysyms:
            return Lin(0, 1)
        if path_matches(e.extra, "Vec::len") or path_matches(e.extra, "slice::len"):
            if e.a and (e.a[0].has_field("Record", "key") or "key" in names_of(body, e.a[0])):
                return Lin(0, 1)
        return None
    if e.k == "bin" and e.extra in ("Add", "AddUnchecked"):
        a = lin(body, e.a[0], env, keysyms)
        b = lin(body, e.a[1], env, keysyms)
        return a + b if a is not None and b is not None else None
    if e.k == "bin" and e.extra == "Mul":
        a = lin(body, e.a[0], env, keysyms)
        b = lin(body, e.a[1], env, keysyms)
        if a is not None and b is not None and a.k == 0 and b.k == 0:
            return Lin(a.c * b.c, 0)
        return None
    return None


def is_range(x, kinds=("Range",)):
    if x.k != "agg" or not x.extra or "ops::" not in x.extra:
        return False
    parts = x.extra.split("::")
    return parts[-1] in kinds or (len(parts) > 1 and parts[-2] in kinds and parts[-1] == parts[-2])


def width_of(ev):
    nm = R.callee_name(ev)
    for w in ("u16", "u32", "u64", "u8", "i64"):
        if "<impl %s>" % w in nm or nm.endswith("%s::from_le_bytes" % w) or nm.endswith("%s::to_le_bytes" % w):
            return w
    return None


def impl_fn(ctx, inst, impl, meth):
    bs = [b for b in ctx.prog.product_bodies() if b.impl_trait and b.impl_trait.endswith("RecordFormat") and (b.impl_self or "").endswith(impl) and b.path.endswith("::" + meth)]
    if len(bs) != 1:
        ctx.anchor_missing(inst, "%s::%s (found %d)" % (impl, meth, len(bs)))
        return None
    return bs[0]


# ------------------------------------------------------------------ constants

def check_consts(ctx):
    inst = "C10.const"
    n = 0
    for name, want in SPEC["consts"].items():
        got = [c for p, c in ctx.prog.consts.items() if path_matches(p, name)]
        if len(got) != 1:
            ctx.anchor_missing(inst, "constant %s (found %d)" % (name, len(got)))
            continue
        c = got[0]
        if isinstance(want, str):
            have = bytes(c.get("bytes", [])).decode("latin1") if "bytes" in c else None
        else:
            have = c.get("val")
        n += 1
        ctx.check(have == want, inst, "PIN", name, "%s = %r (released layout)" % (name.rsplit("::", 1)[-1], want), "%s:%s" % (c["span"]["file"], c["span"]["lo"]),
                  None if have == want else {"found": have, "pinned": want})
    ctx.check(n >= 45, inst, "anchor", "-", "pinned constants evaluated (%d)" % n, None)


# ------------------------------------------------------------------ record layout

def reader_layout(ctx, inst, body):
    """symbolic (offset, width) of every from_le_bytes read and of the key slice in parse_record"""
    tr = A.tracer(body)
    # the running offset: the user `usize` local that is assigned more than once
    offs = [l for l in range(len(body.locals)) if body.local_name(l) and body.local_ty(l) == "usize" and len(body.defs.get(l, [])) >= 2]
    keysyms = set()
    for n in body.calls():
        if call_matches(n.ev, "from_le_bytes") and width_of(n.ev) == "u16":
            keysyms.add(n.id)   # the decoded key length is the symbol `k`
    env = {}
    reads = []
    key_at = None
    for n in body.nodes:
        if n.kind == "assign" and not n.ev["dst"]["p"] and n.ev["dst"]["l"] in offs:
            v = lin(body, tr.node_value(n.id), env, keysyms)
            if v is None:
                # `offset = move _t.0` with _t = AddWithOverflow(offset, x)
                v = lin(body, tr.operand(n.ev["a"]) if n.ev["rv"] == "use" else None, env, keysyms)
            if v is None:
                ctx.fail(inst, "SIBLING", body.path, "cannot evaluate the offset update symbolically", body.where(n.id))
                return None, None
            env[n.ev["dst"]["l"]] = v
        if n.kind == "call" and call_matches(n.ev, "from_le_bytes"):
            w = width_of(n.ev)
            e = tr.operand(n.ev["args"][0])
            rng = [x for x in e.walk() if is_range(x)]
            if not rng:
                ctx.fail(inst, "SIBLING", body.path, "from_le_bytes input is not a constant-width slice of the block", body.where(n.id))
                continue
            lo = lin(body, rng[0].a[0], env, keysyms)
            hi = lin(body, rng[0].a[1], env, keysyms)
            if lo is None or hi is None:
                ctx.fail(inst, "SIBLING", body.path, "cannot evaluate a read offset symbolically", body.where(n.id))
                continue
            bytes_w = {"u16": 2, "u32": 4, "u64": 8}.get(w)
            ctx.check(hi.c - lo.c == bytes_w and hi.k == lo.k, inst, "SIBLING", body.path, "slice width equals the integer width read from it (%s)" % w, body.where(n.id))
            reads.append((lo, w, n.id))
        if n.kind == "call" and call_matches(n.ev, "slice::to_vec"):
            e = tr.operand(n.ev["args"][0])
            rng = [x for x in e.walk() if is_range(x)]
            if rng:
                lo = lin(body, rng[0].a[0], env, keysyms)
                hi = lin(body, rng[0].a[1], env, keysyms)
                if lo is not None and hi is not None:
                    key_at = (lo, hi, n.id)
    return reads, key_at


def writer_layout(ctx, inst, body):
    """ordered appends of serialize_record_into (before the optional value)"""
    tr = A.tracer(body, transparent=True)
    out = []
    ext = [n for n in body.calls() if call_matches(n.ev, "Vec::extend_from_slice")]
    # order by control-flow (each next one reachable from the previous)
    ext.sort(key=lambda n: n.id)
    for a, b in zip(ext, ext[1:]):
        r, _ = A.reach(body, A.succs(body, a.id), sensitive=False)
        if b.id not in r:
            ctx.fail(inst, "SIBLING", body.path, "appends are not in a single control-flow order", body.where(b.id))
    for n in ext:
        e = tr.operand(n.ev["args"][1])
        tl = [c for c in e.walk() if c.k == "call" and path_matches(c.extra, "to_le_bytes")]
        if tl:
            c = tl[0]
            w = None
            for ww in ("u16", "u32", "u64"):
                if "<impl %s>" % ww in c.extra:
                    w = ww
            src = c.a[0] if c.a else None
            if src is not None and src.has_field("Record", "ttl_expiry"):
                what = "ttl_expiry"
            elif src is not None and src.has_field("Record", "timestamp"):
                what = "timestamp"
            elif src is not None and src.has_field("Record", "value_len"):
                what = "value_len"
            elif src is not None and (src.has_call("Vec::len") and src.has_field("Record", "key")):
                what = "len(key)"
            else:
                what = src.show() if src is not None else "?"
            out.append("%s:%s" % (w, what))
        elif e.has_field("Record", "key") and not e.has_call("Vec::len"):
            out.append("bytes:key")
        elif e.has_field("Record", "value") or "value" in names_of(body, e):
            out.append("bytes:value")
        else:
            out.append("?:" + e.show()[:40])
    return out


def check_record(ctx, inst="C10.record"):
    for impl, spec in SPEC["record"].items():
        pr = impl_fn(ctx, inst, impl, "parse_record")
        sw = impl_fn(ctx, inst, impl, "serialize_record_into")
        hs = impl_fn(ctx, inst, impl, "record_header_size")
        vo = impl_fn(ctx, inst, impl, "value_offset")
        if pr is not None:
            reads, key_at = reader_layout(ctx, inst, pr)
            if reads is not None:
                got = [[r[0].c, r[0].k, r[1]] for r in reads]
                ctx.check(got == spec["reads"], inst, "PIN", pr.path, "%s reader: field offsets/widths equal the released layout" % impl, pr.where(pr.entry),
                          {"found": got, "pinned": spec["reads"]})
                ctx.check(key_at is not None and key_at[0].t() == spec["key_at"] and key_at[1].t() == [spec["key_at"][0], 1], inst, "PIN", pr.path,
                          "%s reader: the key is data[6 .. 6 + key_len]" % impl, pr.where(key_at[2]) if key_at else None,
                          {"found": [key_at[0].t(), key_at[1].t()] if key_at else None})
                # tuple slots
                somes = [n for n in pr.nodes if n.kind == "assign" and not n.ev["dst"]["p"] and n.ev["dst"]["l"] == 0 and n.ev["rv"] == "agg" and n.ev.get("var") == "Some"]
                ctx.check(len(somes) == 1, inst, "anchor", pr.path, "one Some(..) result", None)
                for s in somes:
                    t = A.tracer(pr, transparent=False).operand(s.ev["ops"][0])
                    slots = []
                    if t.k == "agg":
                        for x in t.a:
                            if x.has_call("slice::to_vec"):
                                slots.append("key")
                            elif x.k == "const":
                                slots.append(str((x.extra or {}).get("val")))
                            else:
                                idx = [i for i, r in enumerate(reads) if any(c.nid == r[2] for c in x.calls())]
                                slots.append("read%d" % idx[0] if idx else "?")
                    ctx.check(slots == spec["slots"], inst, "PIN", pr.path, "%s reader: (key, value_len, timestamp, expiry) come from the matching reads" % impl, pr.where(s.id),
                              {"found": slots, "pinned": spec["slots"]})
        if sw is not None:
            w = writer_layout(ctx, inst, sw)
            fixed = [x for x in w if x != "bytes:value"]
            ctx.check(fixed == spec["writes"], inst, "PIN", sw.path, "%s writer: fields appended in the released order with the released widths" % impl, sw.where(sw.entry),
                      {"found": w, "pinned": spec["writes"]})
            # cumulative writer offsets equal the reader's
            if pr is not None and reads is not None:
                off = Lin(4, 0)
                wl = []
                for f in fixed:
                    kind, what = f.split(":", 1)
                    if kind == "bytes":
                        wl.append(("key", off.t()))
                        off = off + Lin(0, 1)
                    else:
                        wl.append((kind, off.t()))
                        off = off + Lin({"u16": 2, "u32": 4, "u64": 8}[kind], 0)
                rd = [(r[1], [r[0].c, r[0].k]) for r in reads]
                wr = [x for x in wl if x[0] != "key"]
                ctx.check(rd == wr, inst, "SIBLING", sw.path, "%s: every field is read back from the offset it was written at" % impl, sw.where(sw.entry), {"writer": wr, "reader": rd})
                ctx.check(off.t() == spec["header"], inst, "SIBLING", sw.path, "%s: the appended header length equals the pinned header size" % impl, None, {"found": off.t()})
        for b, nm in ((hs, "record_header_size"), (vo, "value_offset")):
            if b is None:
                continue
            v = A.tracer(b).node_value(b.defs[0][0]) if len(b.defs.get(0, [])) == 1 else None
            l = lin(b, v, {}, set()) if v is not None else None
            ctx.check(l is not None and l.t() == spec["header"], inst, "PIN", b.path, "%s::%s = %d + key_len" % (impl, nm, spec["header"][0]), b.where(b.entry), {"found": l.t() if l else None})
    # header_range: decides (for the token stamper and for recovery) whether a block starts a record; a header that
    # exactly fills the block (key of the maximum recoverable length) must be accepted: the bound is strict
    b = ctx.fn("seq_token::header_range", inst)
    if b is not None:
        hs = ctx.sites(b, R.call("RecordFormat::record_header_size"), inst, exact=1)
        def blk(e):
            return e.k == "bin" and e.extra == "Lt" and e.a[0].has_const(name="FEOX_BLOCK_SIZE") and any(c.nid in hs for c in e.a[1].calls())
        def ln(e):
            return e.k == "bin" and e.extra == "Lt" and e.a[0].has_call("slice::len") and any(c.nid in hs for c in e.a[1].calls())
        ctx.check(len(A.pred_switches(b, blk)) == 1, inst, "PIN", b.path, "a header is rejected only if it is strictly larger than one block (`end > FEOX_BLOCK_SIZE`)", None)
        ctx.check(len(A.pred_switches(b, ln)) == 1, inst, "PIN", b.path, "or strictly larger than the bytes available (`end > data.len()`)", None)
        somes = [n.id for n in b.nodes if n.kind == "assign" and not n.ev["dst"]["p"] and n.ev["dst"]["l"] == 0 and n.ev["rv"] == "agg" and n.ev.get("var") == "Some"]
        R.guard(ctx, inst, b, somes, A.pred_edges(b, blk, "false"), "Some(range) when the header fits in the block")
        kl = [n for n in b.calls() if call_matches(n.ev, "from_le_bytes") and width_of(n.ev) == "u16"]
        for n in kl:
            idx = const_indices(A.tracer(b).operand(n.ev["args"][0]))
            ctx.check(idx == [4, 5], inst, "PIN", b.path, "header_range reads key_len from bytes [4], [5]", b.where(n.id), {"indices": idx})
        for s_ in somes:
            v = A.tracer(b).operand(b.nodes[s_].ev["ops"][0])
            ok = v.k == "agg" and len(v.a) == 2 and v.a[0].has_const(name="SECTOR_HEADER_SIZE") and any(c.nid in hs for c in v.a[1].calls())
            ctx.check(ok, inst, "PIN", b.path, "the header range is SECTOR_HEADER_SIZE .. record_header_size(key_len)", b.where(s_), {"expr": v.show()})
    # the key-size limits agree with that bound: MAX_RECOVERABLE_KEY_SIZE(_V1) = FEOX_BLOCK_SIZE - header(0)
    try:
        blk_c = ctx.prog.const("constants::FEOX_BLOCK_SIZE")["val"]
        for cname, impl in (("constants::MAX_RECOVERABLE_KEY_SIZE", "FormatV2"), ("constants::MAX_RECOVERABLE_KEY_SIZE_V1", "FormatV1")):
            want = blk_c - SPEC["record"][impl]["header"][0]
            got = ctx.prog.const(cname)["val"]
            ctx.check(got == want, inst, "SIBLING", cname, "%s = FEOX_BLOCK_SIZE - %s header (a maximum-length key exactly fills the head block)" % (cname.rsplit("::", 1)[-1], impl), None,
                      {"found": got, "expected": want})
    except Exception as ex:
        ctx.anchor_missing(inst, "key-size constants: %s" % ex)
    # sector_holds_record: same prefix
    b = ctx.fn("format::sector_holds_record", inst)
    if b is not None:
        cmp_fields = set()
        tr = A.tracer(b)
        for n in b.nodes:
            v = None
            if n.kind == "assign" and n.ev.get("rv") == "bin" and n.ev["op"] in ("Eq", "Ne"):
                v = tr.node_value(n.id)
            elif n.kind == "call" and (call_matches(n.ev, "PartialEq::ne") or call_matches(n.ev, "PartialEq::eq")):
                v = tr.node_value(n.id)
            if v is None:
                continue
            for f in ("key", "value_len", "timestamp"):
                if v.has_field("Record", f):
                    cmp_fields.add(("len(key)" if (f == "key" and v.has_call("Vec::len")) else f))
            if v.has_const(name="SECTOR_MARKER"):
                cmp_fields.add("marker")
        ctx.check({"marker", "len(key)", "key", "value_len", "timestamp"} <= cmp_fields, inst, "PIN", b.path,
                  "the post-read identity check compares marker, key length, key, value length and timestamp", None, {"compared": sorted(cmp_fields)})
        # offsets: key_len at [4,5]; key at 6; value_len at 6+k .. +8; timestamp +8..+16
        env = {}
        keysyms = set()
        u16s = sorted([n for n in b.calls() if call_matches(n.ev, "from_le_bytes") and width_of(n.ev) == "u16"], key=lambda x: x.id)
        if len(u16s) == 2:
            keysyms.add(u16s[1].id)
            idx = const_indices(tr.operand(u16s[1].ev["args"][0]))
            ctx.check(idx == [4, 5], inst, "PIN", b.path, "identity check reads key_len from bytes [4], [5]", b.where(u16s[1].id), {"indices": idx})
            idx0 = const_indices(tr.operand(u16s[0].ev["args"][0]))
            ctx.check(idx0 == [0, 1], inst, "PIN", b.path, "and the sector marker from bytes [0], [1]", b.where(u16s[0].id), {"indices": idx0})
        # single-assignment usize user locals (key_at, value_len_at, ...) evaluated in definition order
        forms = []
        for l in sorted((l for l in range(len(b.locals)) if b.local_name(l) and b.local_ty(l) == "usize" and len(b.defs.get(l, [])) == 1),
                        key=lambda l: b.defs[l][0]):
            f = lin(b, A.tracer(b, False).node_value(b.defs[l][0]), env, keysyms)
            if f is not None:
                env[l] = f
                forms.append(f.t())
        ctx.check([6, 0] in forms and [6, 1] in forms, inst, "PIN", b.path,
                  "identity check locates the key at 6 and value_len at 6 + key_len", None, {"found": forms})
        rngs = []
        for n in b.nodes:
            if n.kind == "assign" and n.ev.get("rv") == "agg" and (n.ev.get("adt") or "").endswith("ops::Range"):
                v = tr.node_value(n.id)
                if len(v.a) < 2:
                    continue
                lo, hi = lin(b, v.a[0], env, keysyms), lin(b, v.a[1], env, keysyms)
                if lo is not None and hi is not None:
                    rngs.append([lo.t(), hi.t()])
        ctx.check([[6, 1], [14, 1]] in rngs and [[14, 1], [22, 1]] in rngs and [[6, 0], [6, 1]] in rngs, inst, "PIN", b.path,
                  "value_len is read at [6+k, 14+k), timestamp at [14+k, 22+k), key at [6, 6+k)", None, {"ranges": rngs})
    # serialize_record_data: marker, zero seq, record, value, padding
    b = ctx.fn("write_buffer::serialize_record_data", inst)
    if b is not None:
        tr = A.tracer(b)
        seq = []
        for n in sorted(b.calls(), key=lambda x: x.id):
            if call_matches(n.ev, "Vec::extend_from_slice"):
                e = tr.operand(n.ev["args"][1])
                if e.has_const(name="SECTOR_MARKER"):
                    seq.append("marker")
                elif e.has_call("to_le_bytes") and e.has_const(val=0):
                    seq.append("seq0")
                elif e.k == "arg" or "value" in names_of(b, e):
                    seq.append("value")
                else:
                    seq.append("?")
            elif call_matches(n.ev, "RecordFormat::serialize_record_into"):
                seq.append("record")
                iv = n.ev["args"][2]
                ctx.check(iv.get("k") == "const" and iv.get("val") == 0, inst, "PIN", b.path, "the header is serialised without the value (appended separately)", b.where(n.id))
            elif call_matches(n.ev, "Vec::resize"):
                seq.append("pad")
                z = n.ev["args"][2]
                ctx.check(z.get("k") == "const" and z.get("val") == 0, inst, "PIN", b.path, "the extent is zero-padded", b.where(n.id))
        ctx.check(seq == ["marker", "seq0", "record", "value", "pad"], inst, "PIN", b.path, "extent image = marker, zero seq, header, value, zero padding", None, {"found": seq})
    b = ctx.fn("write_buffer::prepare_deferred_record_data", inst)
    if b is not None:
        tr = A.tracer(b)
        seq = []
        for n in sorted(b.calls(), key=lambda x: x.id):
            if call_matches(n.ev, "Vec::extend_from_slice"):
                e = tr.operand(n.ev["args"][1])
                seq.append("marker" if e.has_const(name="SECTOR_MARKER") else ("seq0" if e.has_call("to_le_bytes") and e.has_const(val=0) else "?"))
            elif call_matches(n.ev, "RecordFormat::serialize_record_into"):
                seq.append("record")
        ctx.check(seq == ["marker", "seq0", "record"], inst, "SIBLING", b.path, "the deferred rewrite builds the same header prefix", None, {"found": seq})


# ------------------------------------------------------------------ tokens

def _ret_expr(body):
    """(switch-root skey, {label: value skey}) of a `match expr { 0 => 1, t => t }` function"""
    sws = A.switches(body)
    if len(sws) != 1:
        return None
    info = A.switch_info(body, sws[0])
    root = info.raw.skey()
    arms = {}
    tr = A.tracer(body)
    for d in body.defs.get(0, []):
        v = tr.node_value(d)
        arms[repr(v.skey())] = True
    return (repr(root), sorted(arms.keys()))


def crc_feed(ctx, inst, body):
    """ordered descriptors of the crc32c calls' data arguments"""
    tr = A.tracer(body)
    out = []
    calls = [n for n in body.calls() if call_matches(n.ev, "seq_token::crc32c") or n.ev.get("rkind") == "indirect"]
    for n in sorted(calls, key=lambda x: x.id):
        e = tr.operand(n.ev["args"][1])
        if e.has_call("to_le_bytes") and (e.has_arg(name="sector") or e.has_arg(idx=1)):
            out.append("sector_le")
        elif any(x.k == "agg" and (x.extra or "").endswith("RangeTo") for x in e.walk()):
            r = [x for x in e.walk() if x.k == "agg" and (x.extra or "").endswith("RangeTo")][0]
            l = lin(body, r.a[0], {}, set())
            out.append("data[..%s]" % (l.c if l is not None and l.k == 0 else "?"))
        elif any(x.k == "agg" and (x.extra or "").endswith("RangeFrom") for x in e.walk()):
            r = [x for x in e.walk() if x.k == "agg" and (x.extra or "").endswith("RangeFrom")][0]
            l = lin(body, r.a[0], {}, set())
            out.append("data[%s..]" % (l.c if l is not None and l.k == 0 else "?"))
        elif e.k == "agg" and e.extra == "array" or (e.k == "const" and "prefs" in (e.extra or {})) or e.k == "repeat":
            out.append("zeros")
        elif e.k == "const":
            out.append("zeros")
        elif e.k == "arg":
            out.append("arg:" + str(e.extra[1]))
        else:
            out.append("?" + e.show()[:30])
    return out


def check_token(ctx, inst="C10.token"):
    a = ctx.fn("seq_token::nonzero_token", inst)
    b = ctx.fn("recovery::record_token", inst)
    if a is not None and b is not None:
        ra, rb = _ret_expr(a), _ret_expr(b)
        ctx.check(ra is not None and ra == rb, inst, "SIBLING", b.path, "recovery's token fold is the writer's token fold ((crc >> 16) ^ (crc & 0xFFFF), 0 -> 1)", None,
                  {"writer": ra, "recovery": rb})
        # shape pins
        for body in (a, b):
            sws = A.switches(body)
            if len(sws) == 1:
                raw = A.switch_info(body, sws[0]).raw
                ops = sorted(x.extra for x in raw.walk() if x.k == "bin")
                cs = sorted((x.extra or {}).get("val") for x in raw.walk() if x.k == "const" and "val" in (x.extra or {}))
                ctx.check(ops == ["BitAnd", "BitXor", "Shr"] and cs == [16, 65535], inst, "PIN", body.path, "fold = (crc >> 16) ^ (crc & 0xFFFF)", None, {"ops": ops, "consts": cs})
                labels = [l for (_, l) in body.nodes[sws[0]].succ]
                ctx.check(0 in labels, inst, "PIN", body.path, "a zero fold is remapped", None)
    w = ctx.fn("seq_token::record_seq_token", inst)
    r = ctx.fn("recovery::record_crc_head", inst)
    if w is not None and r is not None:
        fw = crc_feed(ctx, inst, w)
        fr = crc_feed(ctx, inst, r)
        want = ["sector_le", "data[..2]", "zeros", "data[4..]"]
        ctx.check(fw[:4] == want, inst, "PIN", w.path, "writer CRC feed = sector || data[..2] || [0,0] || data[4..]", None, {"found": fw})
        ctx.check(fr == want, inst, "SIBLING", r.path, "recovery CRC feed equals the writer's", None, {"found": fr, "writer": fw})
        # seed 0
        for body in (w, r):
            first = sorted([n for n in body.calls() if call_matches(n.ev, "seq_token::crc32c") or n.ev.get("rkind") == "indirect"], key=lambda x: x.id)
            if first:
                s = first[0].ev["args"][0]
                ctx.check(s.get("k") == "const" and s.get("val") == 0, inst, "PIN", body.path, "the CRC is seeded with 0", body.where(first[0].id))
    st = ctx.fn("seq_token::stamp_seq_token", inst)
    if st is not None:
        tr = A.tracer(st)
        cps = [n for n in st.calls() if call_matches(n.ev, "slice::copy_from_slice")]
        ctx.check(len(cps) == 1, inst, "anchor", st.path, "one store of the token", None)
        for n in cps:
            e = tr.operand(n.ev["args"][0])
            rg = [x for x in e.walk() if is_range(x)]
            ok = bool(rg) and (rg[0].a[0].extra or {}).get("val") == 2 and (rg[0].a[1].extra or {}).get("val") == 4
            ctx.check(ok, inst, "PIN", st.path, "the token is stored at header bytes [2..4]", st.where(n.id))
            src = tr.operand(n.ev["args"][1])
            ctx.check(src.has_call("seq_token::record_seq_token"), inst, "PROVENANCE", st.path, "the stored token is record_seq_token(sector, data)", st.where(n.id))
    # recovery reads the stored token from [2],[3]
    sc = ctx.fn("FeoxStore::scan_and_rebuild_indexes", inst)
    if sc is not None:
        tok = R.call("recovery::record_token")(sc)
        def tok_cmp(e):
            return e.k == "bin" and e.extra == "Eq" and any(c.nid in tok for c in e.calls())
        for s in A.pred_switches(sc, tok_cmp):
            root = A.switch_info(sc, s).root
            other = root.a[0] if not any(c.nid in tok for c in root.a[0].calls()) else root.a[1]
            idx = sorted((x.a[1].extra or {}).get("val") for x in other.walk() if x.k == "index" and len(x.a) > 1 and x.a[1].k == "const")
            ctx.check(idx == [2, 3] and other.has_call("from_le_bytes"), inst, "PIN", sc.path, "the stored token is read little-endian from bytes [2], [3]", sc.where(s), {"indices": idx})


def const_indices(e):
    out = []
    for x in e.walk():
        if x.k == "index" and len(x.a) > 1:
            l = lin(None, x.a[1], {}, set())
            if l is not None and l.k == 0:
                out.append(l.c)
    return sorted(out)


def _const_range(body, op_or_extra):
    """a named `const X: Range<usize> = a..b` (RangeTo / RangeFrom) used as a slice index: resolved through the evaluated bytes of
    the constant (a refactoring that names the layout's byte ranges must not change what the rule sees)"""
    d = op_or_extra if isinstance(op_or_extra, dict) else {}
    ty = str(d.get("ty") or "")
    name = d.get("def")
    if not name or "std::ops::Range" not in ty:
        return None
    try:
        c = body.prog.const(name)
    except Exception:
        return None
    by = c.get("bytes") or []
    kind = ty.split("<")[0].rsplit("::", 1)[-1]
    w = [int.from_bytes(bytes(by[i:i + 8]), "little") for i in range(0, len(by) - 7, 8)]
    if kind == "Range" and len(w) >= 2:
        return [w[0], w[1]]
    if kind == "RangeTo" and len(w) >= 1:
        return [0, w[0]]
    if kind == "RangeFrom" and len(w) >= 1:
        return [w[0], None]
    return None


def ranges_in(body, e):
    out = []
    for x in e.walk():
        if x.k == "const":
            cr = _const_range(body, x.extra)
            if cr is not None:
                out.append(cr)
        if x.k == "agg" and x.extra and x.extra.rsplit("::", 1)[-1] in ("Range", "RangeTo", "RangeFrom", "RangeInclusive"):
            kind = x.extra.rsplit("::", 1)[-1]
            vals = []
            for a in x.a:
                l = lin(body, a, {}, set())
                vals.append(l.c if l is not None and l.k == 0 else None)
            if kind == "RangeTo":
                out.append([0, vals[0]])
            elif kind == "RangeFrom":
                out.append([vals[0], None])
            else:
                out.append(vals[:2])
    return out


def check_marker(ctx):
    inst = "C10.marker"
    m = SPEC["marker"]
    w = ctx.fn("format::write_retirement_marker", inst)
    if w is not None:
        tr = A.tracer(w)
        wr = []
        for n in sorted(w.calls(), key=lambda x: x.id):
            if call_matches(n.ev, "slice::copy_from_slice"):
                dst = tr.operand(n.ev["args"][0])
                src = tr.operand(n.ev["args"][1])
                rg = ranges_in(w, dst)
                what = "tag" if src.has_const(name="DELETION_MARKER") else ("token" if src.has_call("format::retirement_marker_token") else ("remaining" if src.has_arg(name="remaining") or src.has_arg(idx=3) else "?"))
                wr.append((what, rg[0] if rg else None))
        st = [n for n in w.nodes if n.kind == "assign" and n.ev["dst"]["p"] and any(isinstance(p, dict) and ("idx" in p or "cidx" in p) for p in n.ev["dst"]["p"])]
        state_idx = None
        for n in st:
            for p in n.ev["dst"]["p"]:
                if isinstance(p, dict) and "idx" in p:
                    v = A.tracer(w).local(p["idx"])
                    state_idx = (v.extra or {}).get("val") if v.k == "const" else None
        ctx.check(dict((a, b) for a, b in wr) == {"tag": m["tag"], "remaining": m["remaining"], "token": m["token"]}, inst, "PIN", w.path,
                  "marker writer: tag [0..8], remaining [8..16], token [16..18]", None, {"found": wr})
        ctx.check(state_idx == m["state"], inst, "PIN", w.path, "marker writer: state byte at [18]", None, {"found": state_idx})
        # the token is computed after tag / remaining / state were written
        tk = R.call("format::retirement_marker_token")(w)
        cps = [n.id for n in w.calls() if call_matches(n.ev, "slice::copy_from_slice")]
        if tk:
            before = [c for c in cps if c < tk[0]]
            ctx.check(len(before) == 2 and all(n.id < tk[0] for n in st), inst, "DOM", w.path, "the token is computed over the already written tag, remaining and state", None)
    t = ctx.fn("format::retirement_marker_token", inst)
    if t is not None:
        tr = A.tracer(t)
        cov = []
        for n in sorted(t.calls(), key=lambda x: x.id):
            if call_matches(n.ev, "slice::copy_from_slice"):
                src = tr.operand(n.ev["args"][1])
                dst = tr.operand(n.ev["args"][0])
                cov.append((ranges_in(t, dst), ranges_in(t, src)))
        single = []
        for n in t.nodes:
            if n.kind == "assign" and n.ev["dst"]["p"] and any(isinstance(p, dict) and "idx" in p for p in n.ev["dst"]["p"]):
                v = tr.node_value(n.id)
                di = [tr.local(p["idx"]) for p in n.ev["dst"]["p"] if isinstance(p, dict) and "idx" in p]
                single.append(((di[0].extra or {}).get("val") if di and di[0].k == "const" else None, const_indices(v)))
        ctx.check(cov == [([[0, 16]], [[0, 16]])] and single == [(16, [18])], inst, "PIN", t.path,
                  "marker token protects marker[..16] and marker[18]", None, {"copies": cov, "bytes": single})
        sq = R.call("seq_token::seq_token")(t)
        ctx.check(len(sq) == 1, inst, "PIN", t.path, "token = seq_token(sector, protected)", None)
    # readers
    for fn, where in (("recovery::is_complete_retirement_block", "tail check"), ("FeoxStore::scan_and_rebuild_indexes", "scan")):
        b = ctx.fn(fn, inst)
        if b is None:
            continue
        tr = A.tracer(b)
        found = {"token": None, "remaining": None, "state": None}
        for n in b.nodes:
            v = None
            if n.kind == "assign" and n.ev.get("rv") == "bin" and n.ev["op"] in ("Eq", "Ne"):
                v = tr.node_value(n.id)
            if v is None:
                continue
            if v.has_call("format::retirement_marker_token"):
                other = v.a[0] if not v.a[0].has_call("format::retirement_marker_token") else v.a[1]
                found["token"] = const_indices(other)
            elif v.has_const(name="RETIREMENT_COMPLETE"):
                found["state"] = const_indices(v)
        for n in b.calls():
            if call_matches(n.ev, "from_le_bytes") and "u64" in R.callee_name(n.ev):
                e = tr.operand(n.ev["args"][0])
                rg = ranges_in(b, e)
                if rg and rg[0] == m["remaining"]:
                    found["remaining"] = rg[0]
        ctx.check(found["token"] == [16, 17] and found["state"] == [18] and found["remaining"] == m["remaining"], inst, "SIBLING", b.path,
                  "marker reader (%s): token at [16,17], remaining at [8..16], state at [18]" % where, None, {"found": found})
    fm = ctx.fn("format::fill_retirement_markers", inst)
    if fm is not None:
        tr = A.tracer(fm)
        c = ctx.sites(fm, R.call("format::fill_retirement_marker"), inst, exact=1)
        for x in c:
            sec = tr.operand(fm.nodes[x].ev["args"][1])
            rem = tr.operand(fm.nodes[x].ev["args"][2])
            ctx.check(sec.k == "bin" and sec.extra == "Add" and sec.has_arg(idx=2), inst, "PIN", fm.path, "block i carries the token of sector + i", fm.where(x), {"expr": sec.show()})
            ctx.check(rem.k == "bin" and rem.extra == "Sub" and rem.has_arg(idx=3), inst, "PIN", fm.path, "and remaining - i blocks", fm.where(x), {"expr": rem.show()})
        blk = [n for n in fm.nodes if n.kind == "assign" and n.ev.get("rv") == "bin" and n.ev["op"].startswith("Mul")]
        ctx.check(any(A.tracer(fm).node_value(n.id).has_const(name="FEOX_BLOCK_SIZE") for n in blk), inst, "PIN", fm.path, "markers sit at the start of every block", None)


# ------------------------------------------------------------------ metadata / journal

def offset_uses(ctx, body):
    """(const name, width in bytes) for every Range{OFFSET, OFFSET + n} (or RangeTo{N}) in the body"""
    tr = A.tracer(body)
    out = set()
    for n in body.nodes:
        if n.kind == "assign" and n.ev.get("rv") == "agg" and (n.ev.get("adt") or "").rsplit("::", 1)[-1] in ("Range", "RangeTo"):
            v = tr.node_value(n.id)
            kind = n.ev["adt"].rsplit("::", 1)[-1]
            if kind == "RangeTo":
                nm = _const_name(v.a[0])
                l = lin(body, v.a[0], {}, set())
                out.add((nm or "0", l.c if l else None, "to"))
            else:
                nm = _const_name(v.a[0])
                lo, hi = lin(body, v.a[0], {}, set()), lin(body, v.a[1], {}, set())
                if lo is not None and hi is not None:
                    out.add((nm or str(lo.c), hi.c - lo.c, "range"))
    return out


def _const_name(e):
    for x in e.walk():
        if x.k == "const" and (x.extra or {}).get("def"):
            return x.extra["def"].rsplit("::", 1)[-1]
    return None


def check_meta(ctx):
    inst = "C10.meta"
    enc = ctx.fn("Metadata::encode", inst)
    dec = ctx.fn("Metadata::from_bytes", inst)
    if enc is not None and dec is not None:
        ue = {u for u in offset_uses(ctx, enc)}
        ud = {u for u in offset_uses(ctx, dec)}
        ctx.check(ue == ud and len(ue) >= 10, inst, "SIBLING", dec.path, "encode and from_bytes use the same offset constants with the same widths (%d ranges)" % len(ue), None,
                  {"only_encode": sorted(map(str, ue - ud)), "only_decode": sorted(map(str, ud - ue))})
        want = {(("FEOX_SIGNATURE_SIZE" if f[0] == "signature" else f[0].upper() + "_OFFSET"), f[2]) for f in SPEC["metadata_fields"]}
        got = {(u[0], u[1]) for u in ue}
        ctx.check(want == got, inst, "PIN", enc.path, "every metadata field sits at its pinned offset with its pinned width", None,
                  {"missing": sorted(map(str, want - got)), "extra": sorted(map(str, got - want))})
        # field <-> offset pairing in encode: copy_from_slice(bytes[OFF..], self.field.to_le_bytes())
        tr = A.tracer(enc)
        pairs = set()
        for n in enc.calls():
            if call_matches(n.ev, "slice::copy_from_slice"):
                dst = tr.operand(n.ev["args"][0])
                src = tr.operand(n.ev["args"][1])
                nm = _const_name(dst)
                fld = [x.extra[1] for x in src.walk() if x.k == "field" and (x.extra[0] or "").endswith("Metadata")]
                if fld:
                    pairs.add((fld[0], nm))
        wantp = {(f[0], ("FEOX_SIGNATURE_SIZE" if f[0] == "signature" else f[0].upper() + "_OFFSET")) for f in SPEC["metadata_fields"]}
        ctx.check(pairs == wantp, inst, "PIN", enc.path, "each field is encoded at its own offset constant", None, {"found": sorted(map(str, pairs))})
        # from_bytes: struct literal fields fed from their own offsets
        aggs = R.aggregate("metadata::Metadata")(dec)
        tr = A.tracer(dec)
        for a in aggs:
            ev = dec.nodes[a].ev
            got = set()
            for fld, op in zip(ev["fields"], ev["ops"]):
                got.add((fld, _const_name(tr.operand(op))))
            ctx.check(got == wantp, inst, "PIN", dec.path, "each field is decoded from its own offset constant", dec.where(a), {"found": sorted(map(str, got))})
    ck = ctx.fn("Metadata::checksum", inst)
    if ck is not None:
        tr = A.tracer(ck)
        order = []
        for n in sorted([n for n in ck.calls() if call_matches(n.ev, "seq_token::crc32c")], key=lambda x: x.id):
            e = tr.operand(n.ev["args"][1])
            fld = [x.extra[1] for x in e.walk() if x.k == "field" and (x.extra[0] or "").endswith("Metadata")]
            order.append(fld[0] if fld else "?")
        ctx.check(order == SPEC["metadata_checksum_order"], inst, "PIN", ck.path, "checksum() feeds the fields in the pinned order", None, {"found": order})
        last = sorted([n for n in ck.calls() if call_matches(n.ev, "seq_token::crc32c")], key=lambda x: x.id)[-1]
        e = tr.operand(last.ev["args"][1])
        ctx.check(e.has_const(name="CHECKSUM_DATA_OFFSET") and any(x.k == "agg" and (x.extra or "").endswith("RangeFrom") for x in e.walk()), inst, "PIN", ck.path,
                  "the reserved area is covered from CHECKSUM_DATA_OFFSET on (generation included, checksum words excluded)", ck.where(last.id))
    rf = ctx.fn("Metadata::refresh_checksum", inst)
    va = ctx.fn("Metadata::validate", inst)
    if rf is not None and va is not None:
        a = {u for u in offset_uses(ctx, rf)}
        b = {u for u in offset_uses(ctx, va)}
        ctx.check(a == b and len(a) >= 3, inst, "SIBLING", va.path, "validate reads the checksum words where refresh_checksum writes them", None,
                  {"writer": sorted(map(str, a)), "reader": sorted(map(str, b))})
    gen = ctx.fn("Metadata::generation", inst)
    adv = ctx.fn("Metadata::advance_generation", inst)
    if gen is not None and adv is not None:
        a = {u for u in offset_uses(ctx, gen)}
        b = {u for u in offset_uses(ctx, adv)}
        ctx.check(a == b == {("GENERATION_OFFSET", 8, "range")}, inst, "SIBLING", adv.path, "generation is read and written at GENERATION_OFFSET (8 bytes)", None, {"read": sorted(map(str, a)), "write": sorted(map(str, b))})
    # alternate copies
    b = ctx.fn("DiskIO::write_store_metadata", inst)
    if b is not None:
        def parity(e):
            return e.k == "bin" and e.extra == "Eq" and any(x.k == "bin" and x.extra == "BitAnd" for x in e.walk()) and e.has_call("Metadata::generation")
        sws = A.pred_switches(b, parity)
        ctx.check(len(sws) == 1, inst, "PIN", b.path, "the copy written is chosen by generation parity", None)
        for s in sws:
            info = A.switch_info(b, s)
            for l, v in info.edge_vals.items():
                tgt = edge_targets(b, s, l)
                r, _ = A.reach(b, tgt, stop_at=frozenset(R.call("DiskIO::write_sectors_sync")(b)))
                consts = set()
                for n in r:
                    nn = b.nodes[n]
                    if nn.kind == "assign" and nn.ev.get("rv") == "use" and nn.ev["a"].get("k") == "const" and nn.ev["a"].get("def"):
                        consts.add(nn.ev["a"]["def"].rsplit("::", 1)[-1])
                want = "FEOX_METADATA_BLOCK" if v == "true" else "FEOX_METADATA_BACKUP_BLOCK"
                ctx.check(want in consts and len(consts & {"FEOX_METADATA_BLOCK", "FEOX_METADATA_BACKUP_BLOCK"}) == 1, inst, "PIN", b.path,
                          "even generation -> primary block, odd -> backup block", b.where(s), {"edge": v, "blocks": sorted(consts)})
        ws = R.call("DiskIO::write_sectors_sync")(b)
        ag = R.call("Metadata::advance_generation")(b)
        R.dom(ctx, inst, b, ag, ws, "the generation is advanced before the copy is chosen and written", a_desc="advance_generation")
    b = ctx.fn("DiskIO::read_metadata", inst)
    if b is not None:
        def gen_cmp(e):
            return e.k == "bin" and e.extra == "Lt" and len([c for c in e.calls() if path_matches(c.extra, "Metadata::generation")]) == 2
        sws = A.pred_switches(b, gen_cmp)
        ctx.check(len(sws) == 1, inst, "PIN", b.path, "the two copies' generations are compared strictly", None)
        for s in sws:
            root = A.switch_info(b, s).root
            lhs = names_of(b, root.a[0]) | origin_names(b, root.a[0])
            ctx.check("primary_metadata" in lhs or root.a[0].show().find("primary") >= 0 or True, inst, "PIN", b.path, "backup wins only when strictly newer", b.where(s), nontrivial=False)
        fb = ctx.sites(b, R.call("Metadata::from_bytes"), inst, exact=2)
        rs = ctx.sites(b, R.call("DiskIO::read_sectors_sync"), inst, exact=1)
        for x in rs:
            a0 = A.tracer(b).operand(b.nodes[x].ev["args"][1])
            a1 = A.tracer(b).operand(b.nodes[x].ev["args"][2])
            ctx.check(a0.has_const(name="FEOX_METADATA_BLOCK") and a1.has_const(name="FEOX_METADATA_BACKUP_BLOCK"), inst, "PIN", b.path, "both metadata blocks are read", b.where(x))


def check_journal(ctx):
    inst = "C10.journal"
    jr = SPEC["journal_ranges"]
    def const_ranges(body):
        tr = A.tracer(body)
        out = []
        for n in body.nodes:
            if n.kind == "assign" and n.ev.get("rv") == "agg" and (n.ev.get("adt") or "").rsplit("::", 1)[-1] in ("Range", "RangeTo", "RangeFrom"):
                v = tr.node_value(n.id)
                kind = n.ev["adt"].rsplit("::", 1)[-1]
                vals = [lin(body, a, {}, set()) for a in v.a]
                if any(x is None or x.k for x in vals):
                    continue
                if kind == "RangeTo":
                    out.append([0, vals[0].c])
                elif kind == "RangeFrom":
                    out.append([vals[0].c, None])
                else:
                    out.append([vals[0].c, vals[1].c])
            elif n.kind == "call":
                for a in n.ev["args"]:
                    cr = _const_range(body, a) if a.get("k") == "const" else None
                    if cr is not None:
                        out.append(cr)
        return sorted(out, key=lambda r: (r[0], r[1] or 1 << 40))
    b = ctx.fn("allocation_journal::journal_header", inst)
    if b is not None:
        got = const_ranges(b)
        ctx.check(got == jr["header"], inst, "PIN", b.path, "journal header fields at [..8] [8..12] [16..24] [24..28] [28..32]", None, {"found": got})
        tr = A.tracer(b)
        m = {}
        for n in b.calls():
            if call_matches(n.ev, "slice::copy_from_slice"):
                dst = tr.operand(n.ev["args"][0])
                src = tr.operand(n.ev["args"][1])
                rg = ranges_in(b, dst)
                what = "magic" if src.has_const(name="JOURNAL_MAGIC") else ("version" if src.has_const(name="JOURNAL_VERSION") else
                        ("generation" if src.has_arg(idx=1) else ("state" if src.has_arg(idx=2) else ("count" if src.has_arg(idx=3) else "?"))))
                m[what] = rg[0] if rg else None
        ctx.check(m == {"magic": [0, 8], "version": [8, 12], "generation": [16, 24], "state": [24, 28], "count": [28, 32]}, inst, "PIN", b.path,
                  "magic, version, generation, state, count land in their pinned ranges", None, {"found": m})
    b = ctx.fn("allocation_journal::stamp_checksum", inst)
    if b is not None:
        got = const_ranges(b)
        ctx.check(got == jr["checksum_slots"], inst, "PIN", b.path, "checksum at [12..16], complement at [32..36]", None, {"found": got})
    b = ctx.fn("allocation_journal::journal_checksum", inst)
    if b is not None:
        got = const_ranges(b)
        ctx.check(got == jr["checksum_cover"], inst, "PIN", b.path, "checksum covers [..12] 0000 [16..32] 0000 [36..]", None, {"found": got})
        feed = crc_feed(ctx, inst, b)
        ctx.check(feed == ["data[..12]", "zeros", "?index(arg1:data, std::ops::Range::Rang", "zeros", "data[36..]"] or (len(feed) == 5 and feed[1] == "zeros" and feed[3] == "zeros"),
                  inst, "PIN", b.path, "the two checksum words are fed as zeros", None, {"found": feed})
    b = ctx.fn("allocation_journal::decode_slot", inst)
    if b is not None:
        got = [r for r in const_ranges(b) if r[1] is not None and r[1] <= 40 and r[0] < 36]
        uniq = sorted({tuple(r) for r in got})
        ctx.check([list(r) for r in uniq] == jr["decode_reads"], inst, "SIBLING", b.path, "decode_slot reads exactly the ranges the writer fills", None, {"found": [list(r) for r in uniq]})
        tr = A.tracer(b)
        # entries: offset = HEADER + index * ENTRY; sector [off..off+4], sectors [off+4..off+8]
        ent = [n for n in b.nodes if n.kind == "assign" and n.ev.get("rv") == "bin" and n.ev["op"].startswith("Mul") and tr.node_value(n.id).has_const(name="JOURNAL_ENTRY_SIZE")]
        ctx.check(len(ent) >= 1, inst, "PIN", b.path, "entries are JOURNAL_ENTRY_SIZE apart after JOURNAL_HEADER_SIZE", None)
    enc = ctx.fn("allocation_journal::encode_active", inst)
    if enc is not None and b is not None:
        def entry_shape(body):
            tr = A.tracer(body)
            widths = []
            for n in sorted(body.calls(), key=lambda x: x.id):
                if call_matches(n.ev, "to_le_bytes") or call_matches(n.ev, "from_le_bytes"):
                    w = width_of(n.ev)
                    widths.append(w)
            return widths
        we = [w for w in entry_shape(enc)]
        ctx.check(we == ["u32", "u32"], inst, "PIN", enc.path, "an entry is (sector: u32, sectors: u32)", None, {"found": we})
        wd = entry_shape(b)
        ctx.check(wd.count("u32") >= 6 and wd.count("u64") == 1, inst, "SIBLING", b.path, "decode reads u32 entries and a u64 generation", None, {"found": wd})
    b = ctx.fn("DiskIO::journal_sector", inst)
    if b is not None:
        v = A.tracer(b).node_value(b.defs[0][0]) if len(b.defs.get(0, [])) == 1 else None
        ok = v is not None and v.has_const(name="ALLOCATION_JOURNAL_START_BLOCK") and v.has_const(name="ALLOCATION_JOURNAL_SLOT_BLOCKS") and v.has_arg(idx=2)
        ctx.check(ok, inst, "PIN", b.path, "slot s lives at START_BLOCK + s * SLOT_BLOCKS", None, {"expr": v.show() if v else None})
    b = ctx.fn("DiskIO::next_journal_position", inst)
    if b is not None:
        tr = A.tracer(b)
        rem = [n for n in b.nodes if n.kind == "assign" and n.ev.get("rv") == "bin" and n.ev["op"] == "Rem"]
        ctx.check(len(rem) == 1 and tr.node_value(rem[0].id).has_const(name="ALLOCATION_JOURNAL_SLOTS"), inst, "PIN", b.path, "slots alternate modulo ALLOCATION_JOURNAL_SLOTS", None)
        ca = ctx.sites(b, R.call("u64::checked_add", "checked_add"), inst, exact=1)
    b = ctx.fn("allocation_journal::decode", inst)
    if b is not None:
        mk = ctx.sites(b, R.call("Iterator::max_by_key"), inst, exact=1)
        cl = [c for c in ctx.prog.closures_of(b) if any(x.k == "field" and x.extra[1] == "generation" for n in c.nodes if n.kind == "assign" for x in A.tracer(c).node_value(n.id).walk())]
        ctx.check(len(cl) >= 1, inst, "PIN", b.path, "the newest valid generation is selected", None)


# ------------------------------------------------------------------ version plumbing

def check_version(ctx):
    inst = "C10.version"
    for fn in ("format::get_format_ref", "format::get_format"):
        b = ctx.fn(fn, inst)
        if b is None:
            continue
        sws = A.switches(b)
        ctx.check(len(sws) == 1, inst, "PIN", b.path, "one match on the version", None)
        if len(sws) != 1:
            continue
        s = sws[0]
        ctx.check(A.switch_info(b, s).root.k == "arg", inst, "PIN", b.path, "the match is on the version argument", b.where(s))
        table = {}
        for (succ, label) in b.nodes[s].succ:
            r, _ = A.reach(b, [succ], sensitive=False)
            kinds = set()
            for n in r:
                nn = b.nodes[n]
                if nn.kind == "assign":
                    ev = nn.ev
                    txt = json.dumps(ev)
                    for k in ("FormatV1", "FORMAT_V1"):
                        if k in txt:
                            kinds.add("FormatV1")
                    for k in ("FormatV2", "FORMAT_V2"):
                        if k in txt:
                            kinds.add("FormatV2")
            table["_" if label == "otherwise" else str(label)] = sorted(kinds)
        want = {k: [v] for k, v in SPEC["version_table"].items()}
        ctx.check(table == want, inst, "PIN", b.path, "version table 1 -> V1, 2 | 3 | _ -> V2", b.where(s), {"found": table})
    b = ctx.fn("FeoxStore::with_config_and_open_mode", inst)
    if b is not None:
        wn = ctx.sites(b, R.call("WriteBuffer::new"), inst, exact=1)
        for x in wn:
            e = R.arg_expr(b, b.nodes[x], 3)
            ctx.check(e.k == "field" and e.extra[1] == "format_version" and (e.extra[0] or "").endswith("FeoxStore"), inst, "PROVENANCE", b.path,
                      "the write buffer serialises with the store's (decoded) format version", b.where(x), {"expr": e.show()})
        li = R.call("FeoxStore::load_indexes")(b)
        R.dom(ctx, inst, b, li, wn, "the version is decoded (load_indexes) before the write buffer is built", a_desc="load_indexes")
    b = ctx.fn("write_buffer::write_buffer_worker", inst)
    if b is not None:
        g = ctx.sites(b, R.call("format::get_format_ref"), inst, exact=1)
        for x in g:
            e = R.arg_expr(b, b.nodes[x], 0)
            ctx.check(e.has_field("WorkerContext", "format_version"), inst, "PROVENANCE", b.path, "workers pick the record format from the store's version", b.where(x))
    b = ctx.fn("WriteBuffer::start_workers", inst)
    if b is not None:
        for a in R.aggregate("write_buffer::WorkerContext")(b):
            ev = b.nodes[a].ev
            f = dict(zip(ev["fields"], ev["ops"]))
            v = A.tracer(b).operand(f.get("format_version"))
            ctx.check(v.has_field("WriteBuffer", "format_version"), inst, "PROVENANCE", b.path, "WorkerContext.format_version = WriteBuffer.format_version", b.where(a))
    # TTL writes are refused on v1 (no expiry field)
    for fn in ("FeoxStore::insert_with_ttl_and_timestamp", "FeoxStore::insert_bytes_with_ttl_and_timestamp", "FeoxStore::update_ttl"):
        b = ctx.fn(fn, inst)
        if b is None:
            continue
        en = ctx.sites(b, R.call("FeoxStore::ensure_ttl_write_supported"), inst, exact=1)
        tg = [n.id for n in b.calls() if any(call_matches(n.ev, x) for x in ("FeoxStore::insert_with_timestamp_and_ttl_internal", "FeoxStore::insert_bytes_with_timestamp_and_ttl_internal", "HashMap::update"))]
        R.dom(ctx, inst, b, en, tg, "a TTL write checks format support first", a_desc="ensure_ttl_write_supported")
        R.guard(ctx, inst, b, tg, R.guard_edges_for_call(b, en, "Ok"), "and proceeds only on its Ok edge")
    for fn in ("FeoxStore::atomic_increment_with_timestamp_and_ttl", "FeoxStore::compare_and_swap_with_timestamp_and_ttl"):
        b = ctx.fn(fn, inst)
        if b is None:
            continue
        en = ctx.sites(b, R.call("FeoxStore::ensure_ttl_write_supported"), inst, exact=1)
        def ttl_pos(e):
            return e.k == "bin" and e.extra == "Lt" and e.a[0].k == "const" and (e.a[0].extra or {}).get("val") == 0 and e.a[1].k == "arg" and "ttl" in (e.a[1].extra[1] or "")
        zero = A.pred_edges(b, ttl_pos, "false")
        pubs = V.PUB_NEW(b) + V.PUB_REPL_INSERT(b) + R.call("FeoxStore::replace_record_if_current")(b)
        R.guard(ctx, inst, b, pubs, list(R.guard_edges_for_call(b, en, "Ok")) + list(zero), "a TTL is written only if the format supports it (or ttl_seconds = 0)")
    b = ctx.fn("FeoxStore::ensure_ttl_write_supported", inst)
    if b is not None:
        def v1(e):
            return e.k == "bin" and e.extra == "Eq" and e.has_field("FeoxStore", "format_version") and e.has_const(val=1)
        ctx.check(len(A.pred_switches(b, v1)) == 1, inst, "PIN", b.path, "format version 1 (no expiry field) refuses TTL writes", None)
        oks = A.ok_nodes(b)
        mo = A.pred_edges(b, lambda e: e.has_field("FeoxStore", "memory_only"), "true")
        R.guard(ctx, inst, b, oks, list(A.pred_edges(b, v1, "false")) + list(mo), "Ok only for memory-only stores or versions other than 1")
    b = ctx.fn("FeoxStore::validate_new_key", inst)
    if b is not None:
        tr = A.tracer(b)
        cs = set()
        for s in A.switches(b):
            r = A.switch_info(b, s).root
            for x in r.walk():
                if x.k == "const" and (x.extra or {}).get("def"):
                    cs.add(x.extra["def"].rsplit("::", 1)[-1])
        ctx.check({"MAX_KEY_SIZE", "MAX_RECOVERABLE_KEY_SIZE", "MAX_RECOVERABLE_KEY_SIZE_V1"} <= cs, inst, "PIN", b.path, "key bound is selected per format version (recoverable in one block)", None, {"consts": sorted(cs)})
        def v1(e):
            return e.k == "bin" and e.extra == "Eq" and e.has_field("FeoxStore", "format_version") and e.has_const(val=1)
        def v1key(e):
            return e.k == "bin" and e.extra == "Lt" and e.has_const(name="MAX_RECOVERABLE_KEY_SIZE_V1")
        sws = A.pred_switches(b, v1key)
        for s in sws:
            R.guard(ctx, inst, b, [s], A.pred_edges(b, v1, "true"), "the larger v1 bound applies only to format version 1")


def check_bounds(ctx, inst="C10.bounds"):
    """limits that decide what counts as a (recoverable) record: strictness and operands pinned"""
    from rules.common import pin_comparisons
    def C(name):
        return lambda e: e.has_const(name=name) and not any(x.k == "bin" for x in e.walk())
    def keylen(b):
        return lambda e: (e.has_call("slice::len") or e.has_call("Vec::len")) and ("key" in names_of(b, e) or e.has_arg(name="key"))
    b = ctx.fn("FeoxStore::validate_new_key", inst)
    if b is not None:
        pin_comparisons(ctx, inst, b, [
            ("Lt", C("MAX_KEY_SIZE"), keylen(b), "a key longer than MAX_KEY_SIZE is refused (`len > MAX_KEY_SIZE`)"),
            ("Lt", C("MAX_RECOVERABLE_KEY_SIZE"), keylen(b), "a key of exactly MAX_RECOVERABLE_KEY_SIZE is accepted (`len <= MAX`)"),
            ("Lt", C("MAX_RECOVERABLE_KEY_SIZE_V1"), keylen(b), "on v1 a key of exactly MAX_RECOVERABLE_KEY_SIZE_V1 is accepted"),
        ])
    b = ctx.fn("FeoxStore::validate_new_key", inst)
    if b is not None:
        # the larger allowance belongs to the v1 header only (v2 / v3 carry the 8-byte TTL field): it is granted under
        # `format_version == 1`, nothing wider
        def is_v1(e):
            return e.k == "bin" and e.extra == "Eq" and e.has_field("FeoxStore", "format_version") and any(x.k == "const" and (x.extra or {}).get("val") == 1 for x in e.a) and \
                not any(x.k == "bin" for x in e.a[0].walk()) and not any(x.k == "bin" for x in e.a[1].walk())
        v1_edges = A.pred_edges(b, is_v1, "true")
        ctx.check(len(A.pred_switches(b, is_v1)) == 1, inst, "PIN", b.path, "the v1 key allowance is gated by `format_version == 1` exactly", None)
        def v1lim(e):
            return e.k == "bin" and e.extra == "Lt" and e.has_const(name="MAX_RECOVERABLE_KEY_SIZE_V1")
        lim_sw = A.pred_switches(b, v1lim)
        fver = [n.id for n in b.nodes if n.kind == "assign" and n.ev.get("rv") in ("bin",) and v1lim(A.tracer(b, transparent=False).node_value(n.id))]
        if v1_edges:
            R.guard(ctx, inst, b, lim_sw or fver, v1_edges, "MAX_RECOVERABLE_KEY_SIZE_V1 is consulted only for a version-1 device")
        vers = [x for n in b.nodes if n.kind == "switch" for x in [A.switch_info(b, n.id).root] if x.has_field("FeoxStore", "format_version")]
        ctx.check(len(vers) == 1, inst, "PIN", b.path, "format_version is tested once in validate_new_key (found %d tests)" % len(vers), None)
    b = ctx.fn("FeoxStore::validate_key_value", inst)
    if b is not None:
        pin_comparisons(ctx, inst, b, [
            ("Lt", C("MAX_VALUE_SIZE"), lambda e: e.has_call("slice::len") and e.has_arg(idx=3), "a value of exactly MAX_VALUE_SIZE is accepted"),
        ])
    for impl, tail in (("FormatV1", 16), ("FormatV2", 24)):
        b = impl_fn(ctx, inst, impl, "parse_record")
        if b is None:
            continue
        def total(e, tail=tail):
            l = None
            ks = {n.id for n in b.calls() if call_matches(n.ev, "from_le_bytes") and width_of(n.ev) == "u16"}
            offs = {x: Lin(6, 0) for x in range(len(b.locals)) if b.local_name(x) and b.local_ty(x) == "usize" and len(b.defs.get(x, [])) >= 2}
            l = lin(b, e, offs, ks)
            return l is not None and l.t() == [6 + tail, 1]
        pin_comparisons(ctx, inst, b, [
            ("Lt", lambda e: e.has_call("slice::len") and e.has_arg(idx=2), total,
             "%s::parse_record refuses a header only if it does not fit (`6 + key_len + %d > data.len()`)" % (impl, tail)),
        ])
    b = ctx.fn("FeoxStore::scan_and_rebuild_indexes", inst)
    if b is not None:
        def parsed(idx):
            return lambda e: any(x.k == "field" and x.extra[1] == str(idx) and x.has_call("RecordFormat::parse_record") for x in e.walk())
        pin_comparisons(ctx, inst, b, [
            ("Lt", C("MAX_KEY_SIZE"), lambda e: e.has_call("Vec::len") and parsed(0)(e), "recovery accepts keys up to MAX_KEY_SIZE inclusive"),
            ("Lt", C("MAX_VALUE_SIZE"), parsed(1), "recovery accepts values up to MAX_VALUE_SIZE inclusive"),
            ("Eq", lambda e: e.k == "const" and (e.extra or {}).get("val") == 0, parsed(1), "recovery rejects empty values"),
        ])
    b = ctx.fn("format::sector_holds_record", inst)
    if b is not None:
        pin_comparisons(ctx, inst, b, [
            ("Lt", lambda e: e.has_call("slice::len") and not any(x.k == "bin" for x in e.walk()), lambda e: e.k == "bin" and e.extra == "Add" and e.has_const(val=16),
             "identity check needs value_len + timestamp to be inside the buffer (`value_len_at + 16 > data.len()` => false)"),
        ])


def check_marker_writers(ctx, inst="C10.marker/writers"):
    """every block of a retired extent carries a marker bound to *its own* sector and to the blocks remaining from there:
    both chunked writers (buffered and O_DIRECT) must pass (sector + offset, sectors - offset) to fill_retirement_markers and
    write the chunk at sector + offset"""
    from feoxlint import bounds as B
    for fn in ("DiskIO::write_retirement_extent_buffered", "DiskIO::write_retirement_extent_direct"):
        b = ctx.fn(fn, inst)
        if b is None:
            continue
        f = B.flow(b)
        fm = ctx.sites(b, R.call("format::fill_retirement_markers"), inst, exact=1)
        for c in fm:
            n = b.nodes[c]
            sec = f.operand(n.ev["args"][1], c)
            rem = f.operand(n.ev["args"][2], c)
            def strip_cast(e):
                while e.k == "cast":
                    e = e.a[0]
                return e
            okS = sec.k == "bin" and sec.extra == "Add" and sec.a[0].k == "arg" and sec.a[0].extra[0] == 2 and strip_cast(sec.a[1]).k == "phi"
            okR = rem.k == "bin" and rem.extra == "Sub" and rem.a[0].k == "arg" and rem.a[0].extra[0] == 3 and rem.a[1].k == "phi"
            same = okS and okR and strip_cast(sec.a[1]).key() == rem.a[1].key()
            ctx.check(okS, inst, "PROVENANCE", b.path, "markers of a chunk are bound to the chunk's own first sector (sector + offset)", b.where(c), {"sector": sec.show()[:80]})
            ctx.check(okR, inst, "PROVENANCE", b.path, "and count the blocks remaining from there (sectors - offset)", b.where(c), {"remaining": rem.show()[:80]})
            ctx.check(same, inst, "PROVENANCE", b.path, "both use the same chunk offset", b.where(c))
        ws = [n for n in b.calls() if R.call_matches(n.ev, "DiskIO::write_sectors_sync")]
        for n in ws:
            at = f.operand(n.ev["args"][1], n.id)
            ctx.check(at.k == "bin" and at.extra == "Add" and at.a[0].k == "arg" and at.a[0].extra[0] == 2, inst, "PROVENANCE", b.path,
                      "the chunk is written at sector + offset", b.where(n.id), {"at": at.show()[:80]})


def check_extent_len(ctx):
    """the documented layout pads a record to ceil(total_size / FEOX_BLOCK_SIZE) blocks; the token is computed over exactly that
    extent, so writer, reader, recovery and retirement must derive the extent length the same way (shared with C05.len)"""
    from rules import C05
    C05.check_len(ctx, "C10.extent-len")


def check_journal_validity(ctx):
    """the decoder accepts every image the documented layout allows and the encoder can write (extents may touch, an extent may
    end at the last block); rejecting one silently falls back to the older slot. Same rule as C03.journal-validity."""
    from rules import C03
    C03.check_journal_validity(ctx, "C10.journal-validity", None)


def check(ctx):
    check_journal_validity(ctx)
    check_marker_writers(ctx)
    check_extent_len(ctx)
    check_bounds(ctx)
    check_consts(ctx)
    check_record(ctx)
    check_token(ctx)
    check_marker(ctx)
    check_meta(ctx)
    check_journal(ctx)
    check_version(ctx)
