"""Vocabulary of the store layer (DESIGN §4.2): publication / removal sites of
the hash index and the ordered index, the bodies that contain them, and the
per-site helpers shared by C01, C07, C11, C12, C13, C14, C16."""
from feoxlint import analysis as A
from feoxlint import locks as L
from feoxlint import rulekit as R
from feoxlint import vocab as V
from feoxlint.model import path_matches

PUB_NEW_FNS = ["FeoxStore::insert_with_timestamp_and_ttl_internal", "FeoxStore::insert_bytes_with_expiry",
               "FeoxStore::atomic_increment_with_timestamp_and_ttl", "FeoxStore::insert_if_absent"]
PUB_REPL_FNS = ["FeoxStore::update_record_with_ttl", "FeoxStore::update_record_with_ttl_bytes",
                "FeoxStore::atomic_increment_with_timestamp_and_ttl", "FeoxStore::replace_record_if_current"]
REM_FNS = ["FeoxStore::delete_with_timestamp", "FeoxStore::retire_expired_if_current",
           "FeoxStore::remove_expired_recovery_winners", "ttl_sweep::sample_and_expire_batch"]
UPDATE_TTL = "FeoxStore::update_ttl"

API_ENTRY_POINTS = ["FeoxStore::insert_with_timestamp_and_ttl_internal", "FeoxStore::insert_bytes_with_timestamp_and_ttl_internal",
                    "FeoxStore::insert_migrated_bytes", "FeoxStore::delete_with_timestamp",
                    "FeoxStore::atomic_increment_with_timestamp_and_ttl", "FeoxStore::insert_if_absent",
                    "FeoxStore::compare_and_swap_with_timestamp_and_ttl", "FeoxStore::json_patch_with_timestamp",
                    "FeoxStore::update_ttl"]


def deref_store_sites(body):
    """`*current = ..` inside a closure passed to HashMap::update: assignment through the
    `&mut Arc<Record>` closure parameter"""
    out = []
    for n in body.nodes:
        if n.kind == "assign" and n.ev["dst"]["p"] == ["*"]:
            l = n.ev["dst"]["l"]
            if "Arc<core::record::Record>" in body.local_ty(l) and body.local_ty(l).startswith("&mut"):
                out.append(n.id)
    return out


def update_ttl_closure(ctx, inst):
    """the closure passed to hash_table.update in update_ttl"""
    body = ctx.fn(UPDATE_TTL, inst)
    if body is None:
        return None, None
    cl = [c for c in ctx.prog.closures_of(body) if deref_store_sites(c)]
    if len(cl) != 1:
        ctx.anchor_missing(inst, "update_ttl: closure that replaces `*current` (found %d)" % len(cl), body.path)
        return body, None
    return body, cl[0]


def pub_sites(ctx, inst, kinds=("new", "repl", "ttl", "rem", "rec")):
    """list of (body, node id, kind)"""
    out = []
    if "new" in kinds:
        for fn in PUB_NEW_FNS:
            b = ctx.fn(fn, inst)
            if b is not None:
                for n in ctx.sites(b, V.PUB_NEW, inst, exact=1):
                    out.append((b, n, "new"))
    if "repl" in kinds:
        for fn in PUB_REPL_FNS:
            b = ctx.fn(fn, inst)
            if b is not None:
                for n in ctx.sites(b, V.PUB_REPL_INSERT, inst, exact=1):
                    out.append((b, n, "repl"))
    if "ttl" in kinds:
        _, c = update_ttl_closure(ctx, inst)
        if c is not None:
            for n in deref_store_sites(c):
                out.append((c, n, "ttl"))
    if "rem" in kinds:
        for fn in REM_FNS:
            b = ctx.fn(fn, inst)
            if b is not None:
                for n in ctx.sites(b, V.REM, inst, exact=1):
                    out.append((b, n, "rem"))
    if "rec" in kinds:
        b = ctx.fn("FeoxStore::scan_and_rebuild_indexes", inst)
        if b is not None:
            for n in ctx.sites(b, V.PUB_REC, inst, exact=1):
                out.append((b, n, "rec"))
    return out


def check_no_other_pub_sites(ctx, inst):
    """the hash index is mutated only at the reviewed sites: any other product call that takes the
    record map / an entry of it mutably is reported"""
    allowed = PUB_NEW_FNS + PUB_REPL_FNS + REM_FNS + [UPDATE_TTL, "FeoxStore::scan_and_rebuild_indexes"]
    mut = ["VacantEntry::insert_entry", "OccupiedEntry::insert", "OccupiedEntry::remove", "OccupiedEntry::remove_entry",
           "HashMap::upsert", "HashMap::insert", "HashMap::remove", "HashMap::remove_if", "HashMap::update", "HashMap::retain",
           "HashMap::clear", "HashMap::prune", "OccupiedEntry::get_mut", "HashMap::get", "Entry::or_insert", "Entry::or_insert_with",
           "Entry::and_modify", "HashMap::insert_async", "OccupiedEntry::update"]
    n = 0
    for b in ctx.prog.product_bodies():
        for node in b.calls():
            tys = node.ev.get("arg_tys", [])
            if not tys or "Arc<core::record::Record>" not in tys[0] or "scc::" not in tys[0]:
                continue
            if not any(R.call_matches(node.ev, m) for m in mut):
                continue
            n += 1
            o = R.owner_fn(ctx.prog, b)
            ctx.check(any(path_matches(o, a) for a in allowed), inst, "CALLERS", o,
                      "the hash index is mutated only in the reviewed publication / removal functions", b.where(node.id),
                      {"callee": R.callee_name(node.ev)})
    if n < 13:
        ctx.anchor_missing(inst, "hash index mutation sites: expected >= 13, found %d" % n)


def held_classes(ctx, body, nid):
    g = L.lock_graph(ctx.prog)
    bl = g.bl.get(body.path)
    if bl is None:
        return set()
    return bl.must_classes(nid)


def check_held(ctx, inst, body, nid, cls, what):
    held = held_classes(ctx, body, nid)
    ctx.check(cls in held, inst, "HELD", body.path, what, body.where(nid), {"held": sorted(held)})


def ts_gate_edges(body, want_accept=True, under_guard=True):
    """edges of the last-writer-wins gate `ts <= current.timestamp` (canonical Lt(current.timestamp, ts)).
    accept <=> Lt(current.timestamp, ts) is true. under_guard: `current` comes from the entry guard."""
    out = []
    sws = []
    for s in A.switches(body):
        info = A.switch_info(body, s)
        r = info.root
        if r.k != "bin" or r.extra != "Lt":
            continue
        a, b = r.a
        if not (a.k == "field" and a.extra[1] == "timestamp" and (a.extra[0] or "").endswith("Record")):
            continue
        if b.k == "field" and b.extra[1] == "timestamp" and (b.extra[0] or "").endswith("Record"):
            continue
        from_entry = a.has_call("HashMap::entry") or any(x.k == "local" and "scc::hash_map::OccupiedEntry" in (body.local_ty(x.extra) or "") for x in a.walk())
        if under_guard and not from_entry:
            continue
        if not under_guard and from_entry:
            continue
        sws.append(s)
        for l, v in info.edge_vals.items():
            if v == ("true" if want_accept else "false"):
                out.append((s, l))
    return out, sws


def ptr_eq_edges(body, value="true"):
    """edges on which Arc::ptr_eq / ptr::eq between the entry's current record and an observed record has `value`"""
    def m(e):
        return e.k == "call" and (path_matches(e.extra, "Arc::ptr_eq") or path_matches(e.extra, "ptr::eq"))
    return A.pred_edges(body, m, value), A.pred_switches(body, m)
