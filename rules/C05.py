"""C05 — each data block has exactly one owner or is free; freed space is reusable.
Decided: who allocates / releases; release only after durable markers and with
no reader; dirty reservations released only after a scrub; one extent-length
function everywhere; disk_usage moves with every allocate / release."""
from feoxlint import analysis as A
from feoxlint import rulekit as R
from feoxlint import vocab as V
from feoxlint.model import path_matches, call_matches
from rules.common import edge_targets, err_edge_unreachable, origin_names, names_of, closure_carriers, drop_impl

EXPLANATION = """
Ownership discipline of data blocks as call-graph and path facts: only process_write_batch allocates and only five
reviewed functions release; in process_deletions an extent reaches the release list only from the DELETE_MARKER_DURABLE
test or from the Ok arm of the journalled marker write, never from its Err arm, and both the marker list and the release
list are guarded by extent_has_readers() == false (checked twice); the durable-marker flag is stored only on that Ok arm;
a dirty failed-write reservation is never released directly (release_allocations skips it) and is released after a scrub
only on the scrub's Ok edge; every result of RecordFormat::total_size flows into div_ceil(FEOX_BLOCK_SIZE) (one
extent-length function for writer, reader, retirement, recovery and migration); every successful allocate_sectors is
followed by reserve_sector and disk_usage += and every release of an owned extent by disk_usage -=; flush_all / Drop
persist loads of record_count / disk_usage. Not decided: the partition invariant itself at quiescent points.
"""
DECIDED = ['every accepted mutation is handed to the write buffer (a replacement together with the generation it replaced) unless store configuration says there is no device; no record state is consulted at enqueue time (shared with C19.handoff)', 'a retirement that could not finish is put back; the shared retirement queue is only added to (shared with C19.retire)', 'journal slots alternate on every journal record so a torn write falls back to the record before it (shared with C04.position)', "a scrubbed run is released with the sum of its members' own extent lengths", "(a) who allocates / releases", "(b,c) release after durable marker and with no reader; dirty reservations only after scrub",
           "(d) one extent-length function", "(e) disk_usage accounting and what is persisted",
           'reservation word: sector bits below the flag bits for every accepted device size; flag helpers touch one bit; closed writer set',
           'allocator size index and start index are mutated for the same run (shared with C06.pair)',
           "recovery frees an owned extent with that generation's own length",
           'recovery gap bookkeeping (last_end cursor) and coalescing of releases']
NOT_DECIDED = ["(f) the data area is exactly partitioned at every quiescent point", "no leak over unbounded workloads"]
ASSUMPTIONS = ["exclusive access to FreeSpaceManager is by type (&mut self behind RwLock)"]

RELEASERS = ["write_buffer::release_allocations", "write_buffer::release_scrubbed_allocations",
             "write_buffer::release_retirement_group", "FeoxStore::scan_and_rebuild_indexes",
             "FeoxStore::remove_expired_recovery_winners"]


def pushes_onto(body, name):
    return R.call("Vec::push", "Vec::append", "Extend::extend").filter(
        lambda b, n: name in names_of(b, R.recv_expr(b, n)), "onto " + name)(body)


def check_who(ctx):
    R.callers_within(ctx, "C05.who/allocate", "FreeSpaceManager::allocate_sectors", ["write_buffer::process_write_batch"], floor=1)
    R.callers_within(ctx, "C05.who/release", "FreeSpaceManager::release_sectors", RELEASERS, floor=7)
    R.callers_within(ctx, "C05.who/initialize", "FreeSpaceManager::initialize",
                     ["FeoxStore::open_device", "FeoxStore::initialize_fresh_device"], floor=2)
    R.callers_within(ctx, "C05.who/insert_free_space", "FreeSpaceManager::insert_free_space",
                     ["FreeSpaceManager::initialize", "FreeSpaceManager::allocate_sectors", "FreeSpaceManager::release_sectors"], floor=3)


def check_after_marker(ctx):
    inst = "C05.after-marker"
    body = ctx.fn("write_buffer::process_deletions", inst)
    if body is None:
        return
    re_ = ctx.sites(body, R.call("DiskIO::retire_extents"), inst, exact=1)
    rel = ctx.sites(body, R.call("write_buffer::release_retirement_group"), inst, floor=2)
    err_edge_unreachable(ctx, inst, body, re_, rel, "space is never released on the Err arm of the marker write", repass=False)
    # release_operations is fed only by the durable-flag test or the Ok arm
    ro = pushes_onto(body, "release_operations")
    ctx.check(len(ro) == 2, inst, "anchor", body.path, "release_operations has exactly two feeders (found %d)" % len(ro), None)
    def durable_test(e):
        return e.k == "bin" and e.extra == "Eq" and e.has_const(name="DELETE_MARKER_DURABLE") and e.has_field("WriteEntry", "work_status")
    dur_true = A.pred_edges(body, durable_test, "true")
    ok_edges = R.guard_edges_for_call(body, re_, "Ok")
    R.guard(ctx, inst, body, ro, list(dur_true) + list(ok_edges), "an entry becomes releasable only if its marker is durable (flag) or was just written (Ok arm)")
    # reader checks
    hr = ctx.sites(body, R.call("Record::extent_has_readers"), inst, exact=2)
    mw = pushes_onto(body, "marker_writes")
    me = pushes_onto(body, "marker_extents")
    rl = pushes_onto(body, "releasable")
    ctx.check(len(mw) >= 1 and len(me) >= 1 and len(rl) >= 1, inst, "anchor", body.path, "marker / releasable pushes present", None)
    if len(hr) == 2:
        first, second = sorted(hr)
        R.guard(ctx, inst, body, mw + me, R.guard_edges_for_call(body, [first], "false"), "markers are written only for extents without readers")
        R.guard(ctx, inst, body, rl, R.guard_edges_for_call(body, [second], "false"), "space is released only for extents without readers (second check)")
    rt = ctx.sites(body, R.call("Record::retire_extent"), inst, exact=1)
    if rt and hr:
        R.dom(ctx, inst, body, rt, [min(hr)], "the retired bit is set before readers are counted", a_desc="retire_extent")
    # durable flag only on the Ok arm
    st = ctx.sites(body, R.field_write("WriteEntry", "work_status").filter(
        lambda b, n: n.kind == "call" and len(n.ev["args"]) > 1 and A.tracer(b).operand(n.ev["args"][1]).has_const(name="DELETE_MARKER_DURABLE"),
        "= DELETE_MARKER_DURABLE"), inst, exact=1)
    R.guard(ctx, inst, body, st, ok_edges, "DELETE_MARKER_DURABLE is recorded only after the journalled marker write succeeded")
    from rules.common import whole_collection_loop
    for s_ in st:
        ok, nm, det = whole_collection_loop(body, s_, 0)
        ctx.check(ok and "marker_writes" in nm, inst, "FOLLOW", body.path, "every entry whose marker was written is flagged durable (loop over all of marker_writes)", body.where(s_), det)
    # data flow release_operations -> releasable -> group -> release_retirement_group
    gp = pushes_onto(body, "group")
    for p in rl:
        src = origin_names(body, R.arg_expr(body, body.nodes[p], 1))
        ctx.check("release_operations" in src, inst, "PROVENANCE", body.path, "releasable is filled from release_operations", body.where(p), {"src": sorted(src)})
    for p in gp:
        src = origin_names(body, R.arg_expr(body, body.nodes[p], 1))
        ctx.check("releasable" in src, inst, "PROVENANCE", body.path, "release groups are filled from releasable", body.where(p), {"src": sorted(src)})
    for r in rel:
        src = origin_names(body, R.arg_expr(body, body.nodes[r], 0)) | names_of(body, R.arg_expr(body, body.nodes[r], 0))
        ctx.check("group" in src, inst, "PROVENANCE", body.path, "release_retirement_group receives the group", body.where(r))
    # the extents written as markers pair (sector, format_extent_size(entry)) of the same entry
    for p in me:
        t = R.arg_expr(body, body.nodes[p], 1)
        good = t.k == "agg" and len(t.a) == 2 and t.a[0].has_field("Record", "sector") and t.a[1].has_call("write_buffer::format_extent_size")
        ctx.check(good, inst, "PROVENANCE", body.path, "marker extent is (record.sector, format_extent_size(entry))", body.where(p), {"expr": t.show()})
    # release_retirement_group releases (first.sector, sum of extent sizes)
    b2 = ctx.fn("write_buffer::release_retirement_group", inst)
    if b2 is not None:
        rs = ctx.sites(b2, R.call("FreeSpaceManager::release_sectors"), inst, exact=1)
        if rs:
            st_ = R.arg_expr(b2, b2.nodes[rs[0]], 1)
            ctx.check(st_.has_field("Record", "sector"), inst, "PROVENANCE", b2.path, "released range starts at the first record's sector", b2.where(rs[0]), {"expr": st_.show()})
            cnt = R.arg_expr(b2, b2.nodes[rs[0]], 2)
            cl = [c for c in ctx.prog.closures_of(b2) if R.call("write_buffer::format_extent_size")(c)]
            ctx.check(cnt.has_call("Iterator::sum") and len(cl) >= 1, inst, "PROVENANCE", b2.path, "released length is the sum of format_extent_size over the group", b2.where(rs[0]), {"expr": cnt.show()})
        # entries leave the group only on Ok; on Err they are requeued
        clr = ctx.sites(b2, R.call("Vec::clear"), inst, exact=1)
        R.guard(ctx, inst, b2, clr, R.guard_edges_for_call(b2, rs, "Ok"), "the group is consumed only when release_sectors succeeded")
        app = R.call("Vec::append").filter(lambda b, n: "retries" in (origin_names(b, R.recv_expr(b, n)) | names_of(b, R.recv_expr(b, n))), "retries.append")(b2)
        for (sw, l) in R.guard_edges_for_call(b2, rs, "Err"):
            r, ps = A.reach(b2, edge_targets(b2, sw, l), blocked_nodes=set(app))
            bad = [x for x in b2.return_nodes() if x in r]
            ctx.check(not bad, inst, "FOLLOW", b2.path, "a failed release requeues the group", b2.where(sw))


def check_failed_write(ctx):
    inst = "C05.failed-write"
    body = ctx.fn("write_buffer::release_allocations", inst)
    if body is not None:
        rs = ctx.sites(body, R.call("FreeSpaceManager::release_sectors"), inst, exact=1)
        R.guard_call(ctx, inst, body, rs, R.call("write_buffer::reservation_is_dirty"), "false",
                     "a reservation that may have been written (dirty) is never released without a scrub")
        cr = ctx.sites(body, R.call("write_buffer::clear_reserved_sector"), inst, exact=1)
        R.guard(ctx, inst, body, cr, R.guard_edges_for_call(body, rs, "Ok"), "the reservation word is cleared only after the release succeeded")
    body = ctx.fn("write_buffer::cleanup_failed_allocations", inst)
    if body is not None:
        re_ = ctx.sites(body, R.call("DiskIO::retire_extents"), inst, exact=1)
        cj = ctx.sites(body, R.call("DiskIO::clear_allocation_journal"), inst, exact=1)
        rsa = ctx.sites(body, R.call("write_buffer::release_scrubbed_allocations"), inst, exact=1)
        err_edge_unreachable(ctx, inst, body, re_, rsa, "scrubbed allocations are released only if the scrub succeeded", repass=False)
        err_edge_unreachable(ctx, inst, body, cj, rsa, "allocations are released only if the journal clear succeeded", repass=False)
        R.dom(ctx, inst, body, re_ + cj, rsa, "[extents non-empty or clear_journal] release is preceded by the scrub / journal clear",
              blocked_edges=frozenset(A.pred_edges(body, lambda e: e.has_arg(name="clear_journal"), "false")), a_desc="retire_extents | clear_allocation_journal")
        # the scrub covers every non-quarantined allocation: same filter as the release
        fl = R.call("Iterator::filter")(body)
        ctx.check(len(fl) == 1, inst, "anchor", body.path, "one quarantine filter over the allocations", None)
    body = ctx.fn("write_buffer::release_scrubbed_allocations", inst)
    if body is not None:
        rs = ctx.sites(body, R.call("FreeSpaceManager::release_sectors"), inst, exact=1)
        fl = ctx.sites(body, R.call("Iterator::filter"), inst, exact=1)
        qc = [c for c in ctx.prog.closures_of(body) if R.call("write_buffer::reservation_is_quarantined")(c)]
        ctx.check(len(qc) == 1, inst, "GUARD", body.path, "quarantined reservations are filtered out before release", None)
        for c in qc:
            v = A.tracer(c, False).node_value(c.defs.get(0, [None])[0]) if len(c.defs.get(0, [])) == 1 else None
            ctx.check(v is not None and v.k == "un" and v.extra == "Not" and v.a[0].k == "call" and path_matches(v.a[0].extra, "reservation_is_quarantined"),
                      inst, "PIN", c.path, "the filter keeps exactly the non-quarantined reservations", c.where(c.entry))
        if rs:
            o = origin_names(body, R.arg_expr(body, body.nodes[rs[0]], 1))
            ctx.check("ordered" in o, inst, "PROVENANCE", body.path, "released ranges come from the filtered, sorted list", body.where(rs[0]), {"src": sorted(o)})
        from rules.common import flag_op_sel
        mc = ctx.sites(body, flag_op_sel("clean"), inst, exact=1)
        R.guard(ctx, inst, body, mc, R.guard_edges_for_call(body, rs, "Ok"), "reservations are marked clean only after their space was released")
    body = ctx.fn("write_buffer::failed_batch_outcome", inst)
    if body is not None:
        ind_true = A.pred_edges(body, lambda e: e.has_field("BatchFailure", "indeterminate"), "true")
        ctx.check(len(ind_true) == 1, inst, "anchor", body.path, "indeterminate flag tested", None)
        for (sw, l) in ind_true:
            r, ps = A.reach(body, edge_targets(body, sw, l))
            rel = [n for n in r if body.nodes[n].kind == "call" and any(
                t and (path_matches(t, "FreeSpaceManager::release_sectors") or ctx.prog.reaches_name(t, "FreeSpaceManager::release_sectors")) for t in ctx.prog.targets(body.nodes[n].ev))]
            ctx.check(not rel, inst, "FORBID", body.path, "an indeterminate failure never releases the touched extents", body.where(sw))
    # dirty marking precedes the first device write of a batch
    body = ctx.fn("write_buffer::process_write_batch", inst)
    if body is not None:
        md = ctx.sites(body, R.call("write_buffer::mark_reservation_dirty"), inst, exact=1)
        wj = ctx.sites(body, R.call("DiskIO::write_allocation_journal"), inst, exact=1)
        bw = ctx.sites(body, R.call("DiskIO::batch_write_bytes"), inst, exact=1)
        R.never_after(ctx, inst, body, wj + bw, md, "reservations are marked dirty before the first device write of the batch, never after")
        from rules.common import whole_collection_loop
        for m in md:
            ok, nm, det = whole_collection_loop(body, m, 0)
            ctx.check(ok and "prepared_writes" in nm, inst, "PROVENANCE", body.path, "every prepared write is marked dirty (loop over all of prepared_writes)", body.where(m), det)


def _is_release(name):
    return path_matches(name, "FreeSpaceManager::release_sectors")


LEN_FLOOR = 8
LEN_EXEMPT = ["format::serialization_buffer", "Record::calculate_disk_size"]


def check_len(ctx, inst="C05.len"):
    n_ok = 0
    for b in ctx.prog.product_bodies():
        ts = R.call("RecordFormat::total_size")(b)
        if not ts:
            continue
        owner = R.owner_fn(ctx.prog, b)
        if any(path_matches(owner, x) for x in LEN_EXEMPT):
            ctx.ok(inst, "SIBLING", owner, "exempt (capacity hint)", b.where(ts[0]), nontrivial=False)
            continue
        dcs = R.call("usize::div_ceil", "div_ceil")(b)
        for t in ts:
            good = False
            for d in dcs:
                a0 = R.arg_expr(b, b.nodes[d], 0, transparent=False)
                a1 = R.arg_expr(b, b.nodes[d], 1, transparent=False)
                if a0.k == "call" and a0.nid == t and a1.has_const(name="FEOX_BLOCK_SIZE"):
                    good = True
            ctx.check(good, inst, "SIBLING", owner, "extent length is total_size(key_len, value_len).div_ceil(FEOX_BLOCK_SIZE)", b.where(t))
            n_ok += 1 if good else 0
            # arguments: (key length, value_len) of one record
            k = R.arg_expr(b, b.nodes[t], 1)
            v = R.arg_expr(b, b.nodes[t], 2)
            kg = k.has_call("Vec::len") or k.has_call("slice::len") or "key" in str(k.show()).lower() or k.k in ("arg", "local", "const")
            ctx.check(kg, inst, "SIBLING", owner, "first argument of total_size is a key length", b.where(t), {"expr": k.show()})
    if n_ok < LEN_FLOOR:
        ctx.anchor_missing(inst, "extent-length sites: expected >= %d, found %d" % (LEN_FLOOR, n_ok))
    # the two implementations: header size + value_len
    for impl in ("FormatV1", "FormatV2"):
        bs = [b for b in ctx.prog.product_bodies() if b.impl_trait and b.impl_trait.endswith("RecordFormat") and (b.impl_self or "").endswith(impl) and b.path.endswith("::total_size")]
        if len(bs) != 1:
            ctx.anchor_missing(inst, "%s::total_size" % impl)
            continue
        b = bs[0]
        v = A.tracer(b).node_value(b.defs[0][0]) if len(b.defs.get(0, [])) == 1 else None
        good = v is not None and v.k == "bin" and v.extra == "Add" and v.a[0].has_call("RecordFormat::record_header_size") and v.a[1].k == "arg" and v.a[1].extra[0] == 3
        ctx.check(good, inst, "SIBLING", b.path, "total_size = record_header_size(key_len) + value_len", b.where(b.entry), {"expr": v.show() if v else None})


def check_usage(ctx):
    inst = "C05.usage"
    body = ctx.fn("write_buffer::process_write_batch", inst)
    if body is not None:
        al = ctx.sites(body, R.call("FreeSpaceManager::allocate_sectors"), inst, exact=1)
        rv = ctx.sites(body, R.call("write_buffer::reserve_sector"), inst, exact=1)
        du = ctx.sites(body, R.field_write("Statistics", "disk_usage", ops=["fetch_add"]), inst, exact=1)
        ok_edges = R.guard_edges_for_call(body, al, "Ok")
        for (sw, l) in ok_edges:
            for tgt, nm in ((rv, "reserve_sector"), (du, "disk_usage.fetch_add")):
                r, ps = A.reach(body, edge_targets(body, sw, l), blocked_nodes=set(tgt))
                bad = [x for x in body.return_nodes() + al + V.W_REACHING(body) if x in r]
                ctx.check(not bad, inst, "FOLLOW", body.path, "a successful allocation is followed by %s before anything can fail" % nm, body.where(sw),
                          None if not bad else {"witness": R.witness(body, ps, r.get(bad[0]))})
        if rv and al:
            e = R.arg_expr(body, body.nodes[rv[0]], 1, transparent=False)
            ctx.check(any(c.nid == al[0] for c in e.calls()), inst, "PROVENANCE", body.path, "the sector recorded on the entry is the one allocate_sectors returned", body.where(rv[0]), {"expr": e.show()})
        if du:
            e = R.arg_expr(body, body.nodes[du[0]], 1)
            ctx.check(e.has_const(name="FEOX_BLOCK_SIZE") and "sectors_needed" in (names_of(body, e) | {x.extra[1] for x in e.walk() if x.k == "field"}),
                      inst, "PROVENANCE", body.path, "disk_usage grows by sectors_needed * FEOX_BLOCK_SIZE", body.where(du[0]), {"expr": e.show()})
    # releases of owned extents are paired with disk_usage -=
    for fn, n_rel in (("write_buffer::release_allocations", 1), ("write_buffer::release_scrubbed_allocations", 1),
                      ("write_buffer::release_retirement_group", 1)):
        b = ctx.fn(fn, inst)
        if b is None:
            continue
        rs = ctx.sites(b, R.call("FreeSpaceManager::release_sectors"), inst, exact=n_rel)
        ds = ctx.sites(b, R.field_write("Statistics", "disk_usage", ops=["fetch_sub"]), inst, exact=n_rel)
        for (sw, l) in R.guard_edges_for_call(b, rs, "Ok"):
            r, ps = A.reach(b, edge_targets(b, sw, l), blocked_nodes=set(ds))
            bad = [x for x in b.return_nodes() + rs if x in r]
            ctx.check(not bad, inst, "FOLLOW", b.path, "a successful release is followed by disk_usage -=", b.where(sw))
        R.guard(ctx, inst, b, ds, R.guard_edges_for_call(b, rs, "Ok"), "disk_usage is debited only when the release succeeded")
    for fn in ("FeoxStore::scan_and_rebuild_indexes", "FeoxStore::remove_expired_recovery_winners"):
        b = ctx.fn(fn, inst)
        if b is None:
            continue
        rs = R.call("FreeSpaceManager::release_sectors")(b)
        ds = R.field_write("Statistics", "disk_usage", ops=["fetch_sub"])(b)
        owned = [r for r in rs if R.arg_expr(b, b.nodes[r], 1).has_field("Record", "sector")]
        ctx.check(len(owned) == 1, inst, "anchor", b.path, "one release of an owned extent (start from Record.sector) (found %d of %d)" % (len(owned), len(rs)), None)
        for o in owned:
            R.follow(ctx, inst, b, [o], ds, "release of an owned extent during recovery is followed by disk_usage -=", exits=b.return_nodes() + [x for x in rs if x != o] + V.PUB_REC(b), b_desc="disk_usage.fetch_sub")
    b = ctx.fn("FeoxStore::scan_and_rebuild_indexes", inst)
    if b is not None:
        pub = V.PUB_REC(b)
        da = ctx.sites(b, R.field_write("Statistics", "disk_usage", ops=["fetch_add"]), inst, exact=1)
        R.follow(ctx, inst, b, pub, da, "a recovered record is counted in disk_usage", exits=b.return_nodes() + R.call("RecoveryScanner::block")(b), b_desc="disk_usage.fetch_add")
        z = ctx.sites(b, R.field_write("Statistics", "disk_usage", ops=["store"]), inst, exact=1)
        R.dom(ctx, inst, b, z, pub, "disk_usage is reset before the scan counts records", a_desc="disk_usage.store(0)")
    # what is persisted
    for nm, body in (("FeoxStore::flush_all", ctx.fn("FeoxStore::flush_all", inst)), ("impl Drop for FeoxStore", drop_impl(ctx, inst, "FeoxStore"))):
        if body is None:
            continue
        # the place where the metadata is stamped and written: this body, or the helper it delegates to
        from rules.common import locate_call
        body, _wm = locate_call(ctx.prog, body, "DiskIO::write_store_metadata")
        ctx.check(bool(_wm), inst, "anchor", body.path, "%s reaches the metadata write (write_store_metadata site found: %d)" % (nm, len(_wm)), None)
        for field, stat in (("total_records", "record_count"), ("total_size", "disk_usage")):
            ws = [n for n in body.nodes if n.kind == "assign" and n.ev["dst"]["p"] and isinstance(n.ev["dst"]["p"][-1], dict)
                  and n.ev["dst"]["p"][-1].get("n") == field and (n.ev["dst"]["p"][-1].get("adt") or "").endswith("Metadata")]
            ctx.check(len(ws) == 1, inst, "anchor", body.path, "metadata.%s assigned once" % field, None)
            for w in ws:
                v = A.tracer(body).node_value(w.id)
                ctx.check(v.has_field("Statistics", stat) and v.has_call("Atomic::load"), inst, "PROVENANCE", body.path,
                          "persisted %s is a load of Statistics.%s" % (field, stat), body.where(w.id), {"expr": v.show()})
            wm = R.call("DiskIO::write_store_metadata")(body)
            R.dom(ctx, inst, body, [w.id for w in ws], wm, "metadata.%s refreshed before it is written" % field, a_desc="metadata." + field)


def check_scrub(ctx):
    from rules.common import check_scrub_release_clears_group
    check_scrub_release_clears_group(ctx, "C05.failed-write/scrub-release")
    from rules.common import check_scrub_release_extent_sum
    check_scrub_release_extent_sum(ctx, "C05.failed-write/scrub-release")


def check_coalesce(ctx):
    """retirement hands the device sorted, merged, non-overlapping extents: coalesce_extents sorts by start, merges exactly
    adjacent neighbours (`sector == previous_end`), refuses overlap (`sector < previous_end`) and empty extents, and grows a
    merged run to `end - previous.start`"""
    from rules.common import pin_comparisons, closure_carriers
    inst = "C05.coalesce"
    b = ctx.fn("io::coalesce_extents", inst)
    if b is None:
        return
    def elem(i):
        return lambda e: e.k == "field" and str(e.extra[1]) == str(i) and e.has_call("Iterator::next") and not e.has_call("checked_add")
    def prev_end(e):
        return e.has_call("checked_add") and e.has_call("slice::last_mut")
    pin_comparisons(ctx, inst, b, [
        ("Eq", lambda e: e.k == "const" and (e.extra or {}).get("val") == 0, elem(1), "an empty extent is refused"),
        ("Lt", elem(0), prev_end, "an extent starting inside the previous one is refused (`sector < previous_end`, strict)"),
        ("Eq", prev_end, elem(0), "an extent is merged only when it starts exactly at the previous end"),
    ])
    srt = ctx.sites(b, R.call("slice::sort_unstable_by_key", "slice::sort_by_key"), inst, exact=1)
    for s_ in srt:
        ok = False
        for c in ctx.prog.closures_of(b):
            if s_ in closure_carriers(b, c):
                ds = c.defs.get(0, [])
                v = A.tracer(c).node_value(ds[0]) if len(ds) == 1 else None
                ok = v is not None and v.k == "field" and str(v.extra[1]) == "0"
        ctx.check(ok, inst, "PIN", b.path, "extents are sorted by start sector before merging", b.where(s_))
    pushes = R.call("Vec::push")(b)
    ctx.check(len(pushes) == 2, inst, "anchor", b.path, "two push sites (first extent, non-adjacent extent)", None)
    R.dom(ctx, inst, b, srt, pushes, "merging walks the sorted copy", a_desc="sort_unstable_by_key")
    # callers: every journalled retirement and the replay coalesce first
    for fn in ("DiskIO::retire_extents", "DiskIO::replay_allocation_journal"):
        bb = ctx.fn(fn, inst)
        if bb is None:
            continue
        co = ctx.sites(bb, R.call("io::coalesce_extents"), inst, exact=1)
        un = ctx.sites(bb, R.call("DiskIO::retire_extents_unjournaled"), inst, exact=1)
        R.dom(ctx, inst, bb, co, un, "marker writes only see coalesced extents", a_desc="coalesce_extents")
        for u in un:
            e = R.arg_expr(bb, bb.nodes[u], 1)
            from rules.common import range_indexed_iteration
            ok = any(c.nid in co for c in e.calls())
            if not ok and e.has_call("Iterator::next"):
                # a chunk of the coalesced vector: the iterator is slice::chunks(coalesced, N)
                for n2 in bb.calls():
                    if R.call_matches(n2.ev, "slice::chunks"):
                        src = R.recv_expr(bb, n2)
                        ok = ok or any(c.nid in co for c in src.calls()) or "coalesced" in names_of(bb, src)
            ctx.check(ok, inst, "PROVENANCE", bb.path, "the extents written are (chunks of) the coalesced ones", bb.where(u), {"arg": e.show()[:80]})


def check_recovery_gaps(ctx):
    """recovery rebuilds the free pool as the gaps between *accepted* records: `last_end` starts at the data area, is advanced
    only for a record that is being indexed (never for a loser, a marker or a skipped block), every gap [last_end, sector) in
    front of an accepted record and the tail gap behind the last one are released, and a displaced older generation's own
    extent is released at once"""
    from feoxlint import bounds as B
    from rules import roles
    inst = "C05.recovery-gaps"
    b = ctx.fn("FeoxStore::scan_and_rebuild_indexes", inst)
    if b is None:
        return
    f = B.flow(b)
    pub = ctx.sites(b, V.PUB_REC, inst, exact=1)
    rel = ctx.sites(b, R.call("FreeSpaceManager::release_sectors"), inst, exact=3)
    blk = ctx.sites(b, R.call("RecoveryScanner::block"), inst, exact=1)
    if not (pub and blk and len(rel) == 3):
        return
    # the scan position: argument of scanner.block(sector)
    sec = f.operand(b.nodes[blk[0]].ev["args"][1], blk[0])
    sec_local = roles.recv_local(b, b.nodes[blk[0]], 1)
    # last_end: the multi-def u64 local that is the *start* argument of a release whose length is `x - start`
    gap, tail, displaced = None, None, None
    for r in rel:
        a1 = f.operand(b.nodes[r].ev["args"][1], r)
        a2 = f.operand(b.nodes[r].ev["args"][2], r)
        if a1.k == "phi" and a2.k == "bin" and a2.extra == "Sub" and a2.a[1].key() == a1.key():
            if a2.a[0].k == "phi" and a2.a[0].extra[0] == sec_local:
                gap = (r, a1, a2)
            else:
                tail = (r, a1, a2)
        else:
            displaced = (r, a1, a2)
    ctx.check(gap is not None, inst, "PIN", b.path, "the gap in front of an accepted record is released as (last_end, sector - last_end)", None)
    ctx.check(tail is not None, inst, "PIN", b.path, "the tail gap is released as (last_end, total_sectors - last_end)", None)
    ctx.check(displaced is not None, inst, "PIN", b.path, "a displaced older generation's own extent is released", None)
    if gap is None or tail is None:
        return
    le_local = gap[1].extra[0]
    ctx.check(tail[1].extra[0] == le_local, inst, "PROVENANCE", b.path, "both gap releases start at the same cursor (last_end)", b.where(tail[0]))
    tot = [f.operand(n.ev["args"][1], n.id) for n in b.calls() if R.call_matches(n.ev, "DiskIO::read_allocation_journal")]
    ctx.check(bool(tot) and tail[2].a[0].key() == tot[0].key(), inst, "PROVENANCE", b.path, "the tail gap ends at total_sectors", b.where(tail[0]), {"end": tail[2].a[0].show()[:80]})
    # definitions of last_end: the initial data-area start and exactly one advance = end of the accepted record's extent
    defs = b.defs.get(le_local, [])
    init = [d for d in defs if f.nodeval(d).has_const(name="FEOX_DATA_START_BLOCK") and f.nodeval(d).k == "const"]
    adv = [d for d in defs if d not in init]
    ctx.check(len(init) == 1 and len(adv) == 1, inst, "PIN", b.path, "last_end is initialised to FEOX_DATA_START_BLOCK and advanced at exactly one place (found %d + %d)" % (len(init), len(adv)), None)
    if len(adv) != 1:
        return
    v = f.nodeval(adv[0])
    ok = v.k == "bin" and v.extra == "Add" and any(x.k == "phi" and x.extra[0] == sec_local for x in v.a) and v.has_call("RecordFormat::total_size") and v.has_call("div_ceil")
    ctx.check(ok, inst, "PIN", b.path, "the advance is sector + blocks of the record being indexed", b.where(adv[0]), {"value": v.show()[:120]})
    # only for an accepted record: never on the loser path, and every published record has advanced the cursor
    loser = R.call("Option::is_some_and").filter(lambda bb, n: R.recv_expr(bb, n).has_call("HashMap::read"), "loser test")(b)
    ctx.check(len(loser) == 1, inst, "anchor", b.path, "one loser test (existing generation newer than the scanned one)", None)
    R.guard(ctx, inst, b, adv, R.guard_edges_for_call(b, loser, "false"), "the cursor is advanced only for a record that is not a loser (a loser's blocks stay in the next gap)")
    R.dom(ctx, inst, b, adv, pub, "a record is indexed only after its extent was taken out of the gap bookkeeping", a_desc="last_end = sector + blocks")
    # the gap release is guarded by `sector > last_end` and sits on the accept path too
    def gt(e):
        return e.k == "bin" and e.extra == "Lt" and e.a[0].k == "local" and e.a[0].extra == le_local and e.a[1].k == "local" and e.a[1].extra == sec_local
    R.guard(ctx, inst, b, [gap[0]], A.pred_edges(b, gt, "true"), "a gap is released only when it is non-empty (`sector > last_end`)")
    R.guard(ctx, inst, b, [gap[0]], R.guard_edges_for_call(b, loser, "false"), "a gap is released in front of accepted records only")
    r, _ = A.reach(b, A.succs(b, gap[0]), blocked_nodes=set(adv))
    ctx.check(not any(x in r for x in pub), inst, "FOLLOW", b.path, "after releasing the gap the cursor is moved past the record before it is indexed", b.where(gap[0]))
    # the tail gap comes after the loop and after the post-scan retirements were queued
    def lt_tot(e):
        return e.k == "bin" and e.extra == "Lt" and e.a[0].k == "local" and e.a[0].extra == le_local and e.a[1].has_field("FeoxStore", "device_size") and \
            not any(x.k == "bin" and x.extra != "Div" for x in e.a[1].walk())
    R.guard(ctx, inst, b, [tail[0]], A.pred_edges(b, lt_tot, "true"), "the tail gap is released only when it is non-empty")
    r2, _ = A.reach(b, A.succs(b, tail[0]))
    ctx.check(not any(x in r2 for x in blk), inst, "NEVER-AFTER", b.path, "no block is scanned after the tail gap was released", b.where(tail[0]))


def check_reservation_bits(ctx):
    """a queued write remembers the extent it was given in WriteEntry.work_status: the sector number in the low bits, the
    dirty / quarantined flags above them. The failure paths give exactly that extent back (reserved_sector), so a block has one
    owner only if (1) every sector number an accepted device can produce stays below the lowest flag bit
    (MAX_DEVICE_SIZE / FEOX_BLOCK_SIZE <= lowest flag), (2) the flags are distinct single bits and RESERVATION_FLAGS is their
    union, (3) the reader masks with exactly !RESERVATION_FLAGS, (4) the writer stores the sector it was handed (no flag bits),
    and (5) nothing else writes the word."""
    inst = "C05.reservation-bits"
    vals = {}
    for name in ("constants::MAX_DEVICE_SIZE", "constants::FEOX_BLOCK_SIZE", "write_buffer::RESERVATION_DIRTY",
                 "write_buffer::RESERVATION_QUARANTINED", "write_buffer::RESERVATION_FLAGS"):
        got = [c for p, c in ctx.prog.consts.items() if path_matches(p, name)]
        if len(got) != 1 or not isinstance(got[0].get("val"), int):
            ctx.anchor_missing(inst, "constant %s (found %d)" % (name, len(got)))
            return
        vals[name.rsplit("::", 1)[-1]] = got[0]["val"]
    d, q, fl = vals["RESERVATION_DIRTY"], vals["RESERVATION_QUARANTINED"], vals["RESERVATION_FLAGS"]
    single = all(x > 0 and x & (x - 1) == 0 for x in (d, q))
    ctx.check(single and d != q and fl == d | q, inst, "PIN", "write_buffer::RESERVATION_FLAGS",
              "the reservation flags are two distinct single bits and RESERVATION_FLAGS is their union", None, {"dirty": d, "quarantined": q, "flags": fl})
    low = fl & -fl if fl else 0
    max_sectors = vals["MAX_DEVICE_SIZE"] // vals["FEOX_BLOCK_SIZE"]
    ctx.check(max_sectors <= low, inst, "PIN", "constants::MAX_DEVICE_SIZE",
              "every sector number of an accepted device fits below the lowest reservation flag "
              "(MAX_DEVICE_SIZE / FEOX_BLOCK_SIZE = %d <= %d)" % (max_sectors, low), None)
    b = ctx.fn("write_buffer::reserved_sector", inst)
    if b is not None:
        rets = [n.id for n in b.nodes if n.kind == "call" and call_matches(n.ev, "bool::then_some")]
        ctx.check(len(rets) == 1, inst, "anchor", b.path, "reserved_sector yields Some(sector) through then_some (found %d)" % len(rets), None)
        for r in rets:
            v = R.arg_expr(b, b.nodes[r], 1)
            masks = [x for x in v.walk() if x.k == "bin" and x.extra == "BitAnd"]
            ok = len(masks) == 1 and any(y.k == "un" and y.extra == "Not" and y.a[0].has_const(name="RESERVATION_FLAGS") and y.a[0].k == "const" for y in masks[0].a) \
                and any(y.has_field("WriteEntry", "work_status") for y in masks[0].a)
            ctx.check(ok, inst, "PIN", b.path, "the reserved sector is `work_status & !RESERVATION_FLAGS`", b.where(r), {"expr": v.show()})
    b = ctx.fn("write_buffer::reserve_sector", inst)
    if b is not None:
        st = ctx.sites(b, R.field_write("WriteEntry", "work_status", ops=["store"]), inst, exact=1)
        for x in st:
            v = R.arg_expr(b, b.nodes[x], 1)
            ok = v.has_arg(idx=2) and not any(y.k == "bin" for y in v.walk()) and (v.has_call("TryFrom::try_from") or v.has_call("u32::try_from") or v.has_call("try_from"))
            ctx.check(ok, inst, "PROVENANCE", b.path, "the word stored is the sector handed in, checked to fit (try_from), with no arithmetic or flag bits", b.where(x), {"expr": v.show()})
    from rules.common import FLAG_OPS, flag_mask_ok
    inline_sites = tuple(x for v in FLAG_OPS.values() for x in v[4])
    R.fieldw_within(ctx, inst + "/writers", "WriteEntry", "work_status",
                    ["write_buffer::reserve_sector", "write_buffer::mark_reservation_dirty", "write_buffer::mark_reservation_clean",
                     "write_buffer::quarantine_reservation", "write_buffer::clear_reserved_sector", "WriteEntry::new", "write_buffer::process_deletions"] + list(inline_sites), floor=5)
    for kind, (fn, op, const, neg, sites) in sorted(FLAG_OPS.items()):
        # the one-bit helper, or - when it was inlined - the same operation at its reviewed call site
        bodies = [ctx.prog.fn(fn)] if ctx.prog.find(fn) else []
        where = "helper"
        if not bodies:
            bodies = [ctx.prog.fn(x) for x in sites if ctx.prog.find(x)]
            where = "inlined"
        n_ops = 0
        for b in bodies:
            for x in R.field_write("WriteEntry", "work_status", ops=[op])(b):
                n_ops += 1
                v = R.arg_expr(b, b.nodes[x], 1)
                ctx.check(flag_mask_ok(v, const, neg), inst, "PIN", b.path, "%s touches only the %s bit (the sector bits are preserved)" % (fn.rsplit("::", 1)[-1], const), b.where(x), {"expr": v.show()})
        ctx.check(n_ops >= 1, inst, "anchor", "-", "the %s operation on WriteEntry.work_status exists (%s; found %d)" % (kind, where, n_ops), None)
    # a reviewed inline site may change work_status only by one of those single-flag operations
    for x in inline_sites:
        if not ctx.prog.find(x):
            continue
        b = ctx.prog.fn(x)
        for n in R.field_write("WriteEntry", "work_status")(b):
            v = R.arg_expr(b, b.nodes[n], 1)
            ok = any(flag_mask_ok(v, c_, ng) and R.call_matches(b.nodes[n].ev, "Atomic::" + o_) for (_f, o_, c_, ng, st) in FLAG_OPS.values() if x in st)
            ctx.check(ok, inst, "PIN", b.path, "a flag operation written out at a call site of its helper is that helper's single-flag operation", b.where(n), {"expr": v.show()})


def check_release_len(ctx):
    """see rules.common.check_recovery_release_len: recovery frees an owned extent with the length of that very generation"""
    from rules import common as _c
    _c.check_recovery_release_len(ctx, "C05.release-len")


def check_allocator_pair(ctx):
    """a block has one owner only if the allocator's two views of the free set stay the same set: every mutation of `by_start`
    is paired with the mutation of `by_size` for the *same* (size, start) run. A stale entry left in the size index is handed out
    while the blocks still lie inside a merged free run, and the next allocation from that run hands them out again (same rule as
    C06.pair)."""
    from rules import C06
    C06.check_pair(ctx, "C05.allocator-pair")


def check_journal_position(ctx):
    """a torn journal write must fall back to the record just before it: the two slots alternate on every journal record (intent
    and clear alike). A stale *active* intent left in the other slot makes replay mark and free extents that were reused by
    acknowledged records since (same rule as C04.position)"""
    from rules import C04
    C04.check_position(ctx, "C05.journal-position")


def check_retire_queue(ctx):
    """a superseded extent is given back only by the retirement pass that finds its Delete entry in RetirementQueue.pending: an
    entry that is dropped from the queue (not put back after a pass that could not finish, overwritten or swapped away while
    another worker was adding) leaves blocks that belong neither to a live record nor to the free pool (same rules as C19.retire)"""
    from rules import C19
    C19.check_retire(ctx, "C05.retire-queue")
    C19.check_queue_writers(ctx, "C05.retire-queue/ops")


def check_handoff(ctx):
    """a replaced generation whose write is in flight still gets its Delete entry: the extent it is about to own is retired and released, not leaked (rules.common.check_handoff, shared with C19.handoff)"""
    from rules.common import check_handoff as ch
    ch(ctx, "C05.handoff")


def check(ctx):
    check_handoff(ctx)
    check_retire_queue(ctx)
    check_journal_position(ctx)
    check_allocator_pair(ctx)
    check_release_len(ctx)
    check_reservation_bits(ctx)
    check_coalesce(ctx)
    check_recovery_gaps(ctx)
    check_scrub(ctx)
    check_who(ctx)
    check_after_marker(ctx)
    check_failed_write(ctx)
    check_len(ctx)
    check_usage(ctx)
