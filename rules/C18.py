"""C18 — calls, flush and close always terminate (no deadlock, no lost wake-up).
Decided: absence of lock-order cycles, of waits-under-lock cycles and of self-join;
shutdown order; polling workers."""
from feoxlint import analysis as A
from feoxlint import locks as L
from feoxlint import rulekit as R
from feoxlint.model import path_matches, call_matches
from rules.common import drop_impl, edge_targets
from rules import common as S

EXPLANATION = """
A may-hold -> acquire graph over lock classes (parking_lot / std guards, scc bucket entries, closures run under a bucket
lock, RecordCacheEntry) plus thread-wait pseudo-locks (join / blocking recv / blocking send, W(group) -> everything the
waited thread group's entry closure may acquire) is built from the held-guard dataflow of every product body and the
transitive acquire summaries of callees; it must be acyclic with no self edge, and must rediscover the reviewed reference
edges (so the analysis is not vacuously empty). Stated mechanisms are reported individually: the free-space guard is dead
before the device lock is taken in process_write_batch; thread entries never block on an un-timed recv / condvar wait;
TtlSweeper::stop joins only when the caller is not the sweeper thread; FeoxStore::drop stops the sweeper, flags shutdown,
joins workers and only then shuts the device down. Not decided: progress of retry loops (fairness/timing).
"""
DECIDED = ['every compare-exchange retry loop refreshes the expected value after a lost exchange', 'the out-of-space branch asks to be re-run only if sectors were released since a snapshot taken at entry', "lock-order + wait graph acyclic, no self edge", "no self-join", "shutdown order", "workers poll with timeouts",
           "the final flush loop and the sweeper's loops are structurally bounded; the sweeper polls the flag stop() raises and never pins the store",
           'the reader count of an extent always comes back down (no phantom reader)',
           'every prepared write of a failed batch is requeued, so no retirement waits for a successor that was dropped']
NOT_DECIDED = ["progress of retry loops and of force_flush's outer loop", "behaviour when a reader never leaves"]
ASSUMPTIONS = ["destructors reached only through the last Arc<FeoxStore> dropped on the sweeper thread are not followed "
               "(made safe by the thread-id test in TtlSweeper::stop, checked as C18.selfjoin)",
               "read and write acquisitions are not distinguished; try_lock adds no incoming edge"]

REFERENCE_EDGES = [
    ("L_sweeper", "W(sweeper)"), ("L_ph", "W(periodic)"), ("W(periodic)", "L_rpend"),
    ("L_meta", "L_fs"), ("L_meta", "L_dev"), ("L_rflush", "L_rpend"), ("L_rflush", "L_dev"), ("L_rflush", "L_fs"),
    ("L_dev", "L_fs"), ("L_dev", "L_indet"), ("L_dev", "L_val"), ("L_hb", "L_cb"), ("L_hb", "L_val"), ("L_evict", "L_cb"),
    ("W(workers)", "L_shard"), ("W(workers)", "L_dev"), ("W(workers)", "L_fs"), ("W(sweeper)", "L_hb"),
]

WAIT_TABLE = [
    # (function, callee, group waited on)
    ("WriteBuffer::force_flush", "Sender::send", "workers"),
    ("WriteBuffer::force_flush", "Receiver::recv", "workers"),
    ("WriteBuffer::finish_shutdown", "JoinHandle::join", None),   # group decided by provenance below
    ("TtlSweeper::stop", "JoinHandle::join", "sweeper"),
]


def classify_threads(ctx, inst):
    """group -> entry closure paths"""
    groups = {"workers": [], "periodic": [], "sweeper": []}
    ents = L.thread_entries(ctx.prog)
    for (clo, fn, site) in ents:
        b = ctx.prog.bodies[clo]
        if ctx.prog.reaches_name(clo, "write_buffer::write_buffer_worker"):
            groups["workers"].append(clo)
        elif ctx.prog.reaches_name(clo, "ttl_sweep::run_sweeper_loop"):
            groups["sweeper"].append(clo)
        elif path_matches(fn, "WriteBuffer::start_workers"):
            groups["periodic"].append(clo)
        else:
            ctx.fail(inst, "anchor", fn, "unclassified thread entry (update the thread-group table)", site)
    for g, v in groups.items():
        ctx.check(len(v) == 1, inst, "anchor", "-", "thread group `%s` has exactly one entry closure (found %d)" % (g, len(v)), None)
    return groups


def join_group(body, n):
    """which thread group does this JoinHandle::join wait for (by provenance of the handle)"""
    e = R.recv_expr(body, n)
    o = A.origins(body, e)
    for x in e.walk():
        pass
    txt = set()
    tr = A.tracer(body)
    for (k, l) in o:
        if k == "local":
            for d in body.defs.get(l, []):
                v = tr.node_value(d)
                for y in v.walk():
                    if y.k == "field":
                        txt.add(y.extra[1])
    for x in e.walk():
        if x.k == "field":
            txt.add(x.extra[1])
    if "periodic_flush_handle" in txt:
        return "periodic"
    if "worker_handles" in txt:
        return "workers"
    if "handle" in txt:
        return "sweeper"
    return None


def check_lockorder(ctx):
    inst = "C18.lockorder"
    prog = ctx.prog
    groups = classify_threads(ctx, inst + "/threads")
    g = L.LockGraph(prog, thread_groups=groups, wait_table=[])
    g.build()
    # waits
    n_waits = 0
    for b in prog.product_bodies():
        bl = g.bl[b.path]
        for n in b.calls():
            grp = None
            kind = None
            if call_matches(n.ev, "JoinHandle::join"):
                grp = join_group(b, n)
                kind = "join"
                if grp is None:
                    ctx.fail(inst, "anchor", b.path, "JoinHandle::join on a handle of unknown thread group", b.where(n.id))
                    continue
            elif call_matches(n.ev, "Receiver::recv") or call_matches(n.ev, "Sender::send"):
                owner = R.owner_fn(prog, b)
                if path_matches(owner, "WriteBuffer::force_flush"):
                    grp = "workers"
                    kind = "channel"
                elif path_matches(owner, "write_buffer::write_buffer_worker"):
                    # the worker's answer on a bounded(1) per-request channel never blocks (capacity pinned below)
                    continue
                else:
                    ctx.fail(inst, "anchor", b.path, "blocking channel operation outside the reviewed wait table", b.where(n.id))
                    continue
            elif call_matches(n.ev, "Condvar::wait") or call_matches(n.ev, "Condvar::wait_while") or call_matches(n.ev, "Barrier::wait"):
                ctx.fail(inst, "anchor", b.path, "condition-variable wait outside the reviewed wait table", b.where(n.id))
                continue
            if grp is None:
                continue
            n_waits += 1
            held = {c for c in bl.may_classes(n.id) if c not in L.NOT_LOCKS}
            g.waits.append({"fn": b.path, "site": b.where(n.id), "group": grp, "held": sorted(held), "kind": kind})
            for h in held:
                g.edges.setdefault((h, "W(%s)" % grp), {"fn": b.path, "site": b.where(n.id), "call": R.callee_name(n.ev)})
    # waits performed by callees while the caller holds a guard
    direct_w = {}
    for w in g.waits:
        direct_w.setdefault(w["fn"], set()).add(w["group"])
    summ = {p: set(direct_w.get(p, ())) for p in g.bl}
    outs = {p: [o for o in prog.edges_out(prog.bodies[p]) if o in g.bl] for p in g.bl}
    changed = True
    while changed:
        changed = False
        for p in g.bl:
            for o in outs[p]:
                if not summ[o] <= summ[p]:
                    summ[p] |= summ[o]
                    changed = True
    for p, bl in g.bl.items():
        b = prog.bodies[p]
        for n in b.calls():
            held = {c for c in bl.may_classes(n.id) if c not in L.NOT_LOCKS}
            if not held:
                continue
            grps = set()
            for t in prog.targets(n.ev):
                grps |= summ.get(t, set())
            for grp in grps:
                g.waits.append({"fn": p, "site": b.where(n.id), "group": grp, "held": sorted(held), "kind": "via " + R.callee_name(n.ev)})
                for h in held:
                    g.edges.setdefault((h, "W(%s)" % grp), {"fn": p, "site": b.where(n.id), "call": R.callee_name(n.ev)})
    g.add_wait_edges()
    ctx.check(n_waits >= 5, inst, "anchor", "-", "thread-wait sites found (>= 5 expected, found %d)" % n_waits, None)
    edges = g.edges
    for (a, b) in sorted(edges):
        w = edges[(a, b)]
        ctx.ok(inst, "LOCKORDER", w["fn"], "edge %s -> %s" % (a, b), w["site"], nontrivial=True, detail=w.get("call"))
    missing = [e for e in REFERENCE_EDGES if e not in edges]
    ctx.check(not missing, inst, "anchor", "-", "reference lock-order edges rediscovered (%d of %d)" % (len(REFERENCE_EDGES) - len(missing), len(REFERENCE_EDGES)),
              None, {"missing": [list(m) for m in missing]})
    cyc = g.cycles()
    for comp in cyc:
        wit = []
        for a in comp:
            for b in comp:
                if (a, b) in edges:
                    wit.append("%s -> %s at %s in %s (%s)" % (a, b, edges[(a, b)]["site"], edges[(a, b)]["fn"], edges[(a, b)].get("call")))
        ctx.fail(inst, "LOCKORDER", "-", "lock-order / wait cycle: " + " , ".join(comp), None, {"edges": wit[:12]})
    ctx.check(not cyc, inst, "LOCKORDER", "-", "lock-order + wait graph is acyclic (%d classes, %d edges)" % (
        len({x for e in edges for x in e}), len(edges)), None)
    ctx.note("lock classes: " + ", ".join(sorted({x for e in edges for x in e})))
    # stated mechanism: free-space guard is not held when the device lock is taken
    body = ctx.fn("write_buffer::process_write_batch", inst)
    if body is not None:
        bl = g.bl[body.path]
        dev = [n for n, c in bl.acq.items() if c == "L_dev"]
        ctx.check(len(dev) >= 1, inst, "anchor", body.path, "device lock acquisition in process_write_batch", None)
        for d in dev:
            ctx.check("L_fs" not in bl.may_classes(d), inst, "HELD", body.path, "free-space guard is dead before the device lock is taken", body.where(d))
    ctx.check(("L_fs", "L_dev") not in edges, inst, "LOCKORDER", "-", "no free_space -> disk_io nesting anywhere", None,
              edges.get(("L_fs", "L_dev")))
    return g, groups


def check_wait(ctx, g, groups):
    inst = "C18.wait"
    prog = ctx.prog
    # per-request response channel has capacity >= 1 so the worker's answer never blocks
    body = ctx.fn("WriteBuffer::force_flush", inst)
    if body is not None:
        bd = ctx.sites(body, R.call("crossbeam_channel::bounded", "channel::bounded"), inst, exact=1)
        for n in bd:
            a = body.nodes[n].ev["args"][0]
            ctx.check(a.get("k") == "const" and a.get("val", 0) >= 1, inst, "PIN", body.path, "per-request response channel has capacity >= 1", body.where(n))
    # only force_flush uses a blocking send on worker channels; everyone else pokes with try_send
    for b, n in prog.call_sites("Sender::send"):
        o = R.owner_fn(prog, b)
        ctx.check(any(path_matches(o, a) for a in ("WriteBuffer::force_flush", "write_buffer::write_buffer_worker")), inst, "CALLERS", o,
                  "blocking Sender::send only in force_flush (request) and the worker (answer on its private channel)", b.where(n.id))
    for w in g.waits:
        grp = w["group"]
        acq = set()
        for e in groups.get(grp, []):
            acq |= g.acquires.get(e, set())
        inter = sorted(set(w["held"]) & acq)
        ctx.check(not inter, inst, "LOCKORDER", w["fn"], "wait on thread group `%s` holds nothing that group may acquire" % grp, w["site"],
                  {"held": w["held"], "conflict": inter})


def check_poll(ctx, groups):
    inst = "C18.poll"
    prog = ctx.prog
    blocking = ["Receiver::recv", "Condvar::wait", "Condvar::wait_while", "Barrier::wait", "Receiver::iter", "mpsc::Receiver::recv"]
    for grp, ents in groups.items():
        for e in ents:
            seen = set()
            stack = [e]
            n_calls = 0
            while stack:
                p = stack.pop()
                if p in seen or p not in prog.bodies:
                    continue
                seen.add(p)
                b = prog.bodies[p]
                for n in b.calls():
                    n_calls += 1
                    for bl in blocking:
                        if call_matches(n.ev, bl):
                            ctx.fail(inst, "FORBID", p, "thread `%s` blocks without a timeout (%s)" % (grp, bl), b.where(n.id))
                for o in prog.edges_out(b):
                    stack.append(o)
            ctx.ok(inst, "FORBID", e, "thread group `%s`: no un-timed blocking wait in %d reachable bodies (%d calls)" % (grp, len(seen), n_calls), None)
    body = ctx.fn("write_buffer::write_buffer_worker", inst)
    if body is not None:
        rt = ctx.sites(body, R.call("Receiver::recv_timeout"), inst, exact=1)
        sh = A.pred_switches(body, lambda e: e.has_field("WorkerContext", "shutdown"))
        ctx.check(len(sh) >= 2, inst, "GUARD", body.path, "worker re-tests the shutdown flag (in the loop and after it)", None)
        # the loop head tests shutdown before every receive
        if rt and sh:
            sh_false = A.pred_edges(body, lambda e: e.has_field("WorkerContext", "shutdown"), "false")
            R.guard(ctx, inst, body, rt, sh_false, "recv_timeout is reached only after the shutdown flag tested false")
        # Disconnected ends the loop
    # periodic loop tests the same flag
    per = groups.get("periodic", [])
    for p in per:
        b = prog.bodies[p]
        lds = [n for n in b.calls() if call_matches(n.ev, "Atomic::load") or call_matches(n.ev, "AtomicBool::load")]
        sl = R.call("thread::sleep")(b)
        ctx.check(bool(lds) and bool(sl), inst, "GUARD", p, "periodic coordinator polls a flag and sleeps", None)
        ts = R.call("Sender::try_send")(b)
        ctx.check(len(ts) >= 1 and not R.call("Sender::send")(b), inst, "FORBID", p, "periodic coordinator only uses try_send", None)


def check_selfjoin(ctx):
    inst = "C18.selfjoin"
    body = ctx.fn("TtlSweeper::stop", inst)
    if body is None:
        return
    j = ctx.sites(body, R.call("JoinHandle::join"), inst, exact=1)
    def id_cmp(e):
        return e.k == "call" and path_matches(e.extra, "PartialEq::ne") or (e.k == "call" and path_matches(e.extra, "PartialEq::eq")) or \
            (e.k == "bin" and e.extra == "Eq" and any(path_matches(c.extra, "Thread::id") for c in e.calls()))
    sws = A.pred_switches(body, id_cmp)
    edges = []
    for s in sws:
        info = A.switch_info(body, s)
        r = info.root
        ids = [c.extra for c in r.calls()]
        if not (any(path_matches(c, "Thread::id") for c in ids) and any(path_matches(c, "thread::current") for c in ids)):
            continue
        if r.k == "call" and path_matches(r.extra, "PartialEq::ne"):
            want = "true"
        else:
            want = "false"
        edges += [(s, l) for l, v in info.edge_vals.items() if v == want]
    R.guard(ctx, inst, body, j, edges, "join only when the handle's thread is not the current thread")
    st = ctx.sites(body, R.field_write("TtlSweeper", "shutdown") | R.call("AtomicBool::store", "Atomic::store"), inst, floor=1)
    R.dom(ctx, inst, body, st, j, "shutdown flag is set before joining", a_desc="shutdown.store(true)")


def check_shutdown(ctx):
    inst = "C18.shutdown"
    body = drop_impl(ctx, inst, "FeoxStore")
    if body is not None:
        stp = ctx.sites(body, R.call("TtlSweeper::stop"), inst, exact=1)
        ini = ctx.sites(body, R.call("WriteBuffer::initiate_shutdown"), inst, exact=1)
        fin = ctx.sites(body, R.call("WriteBuffer::finish_shutdown", "WriteBuffer::complete_shutdown"), inst, exact=1)
        sh = ctx.sites(body, R.call("DiskIO::shutdown"), inst, exact=1)
        R.never_after(ctx, inst, body, ini, stp, "sweeper is stopped before workers are told to shut down")
        R.never_after(ctx, inst, body, fin, ini, "shutdown is flagged before the join")
        R.never_after(ctx, inst, body, sh, fin, "device is shut down after the workers were joined")
        none_edges = A.pred_edges(body, lambda e: (e.has_field("FeoxStore", "write_buffer") or (e.k == "call" and path_matches(e.extra, "Option::take"))), "None")
        R.dom(ctx, inst, body, fin, sh, "[write_buffer = Some] workers joined before DiskIO::shutdown", blocked_edges=frozenset(none_edges), a_desc="finish_shutdown")
    body = ctx.fn("WriteBuffer::finish_shutdown", inst)
    if body is not None:
        st = ctx.sites(body, R.field_write("WriteBuffer", "shutdown"), inst, exact=1)
        j = ctx.sites(body, R.call("JoinHandle::join"), inst, exact=2)
        R.dom(ctx, inst, body, st, j, "shutdown flag set before any join", a_desc="shutdown.store(true)")
    body = ctx.fn("write_buffer::write_buffer_worker", inst)
    if body is not None:
        # both loop exits exist: shutdown flag and Disconnected
        def disc(e):
            return any(x.k == "downcast" for x in e.walk()) and e.has_call("Receiver::recv_timeout")
        edges = A.pred_edges(body, disc, "Disconnected")
        ctx.check(len(edges) >= 1, inst, "GUARD", body.path, "worker distinguishes a disconnected channel", None)
        rt = R.call("Receiver::recv_timeout")(body)
        for (sw, l) in edges:
            r, ps = A.reach(body, edge_targets(body, sw, l))
            ctx.check(not any(x in r for x in rt), inst, "GUARD", body.path, "a disconnected channel ends the receive loop", body.where(sw))
    R.fieldw_within(ctx, inst + "/flag", "WriteBuffer", "shutdown", ["WriteBuffer::new", "WriteBuffer::initiate_shutdown", "WriteBuffer::finish_shutdown"], floor=3)


def check_progress(ctx):
    """force_flush re-sends a request for as long as a worker answers Ok(true) and has no retry bound of its own: the
    out-of-space branch of flush_worker_shards may answer "ask me again" only when the retirement pass it just ran made
    progress, i.e. the released-sector counter moved relative to a snapshot taken at entry (a cumulative counter compared with
    anything else is true forever once any sector was ever released)"""
    inst = "C18.progress"
    b = ctx.fn("write_buffer::flush_worker_shards", inst)
    if b is None:
        return
    def on_rel(bb, n):
        return R.recv_expr(bb, n).has_field("RetirementQueue", "released_sectors") or R.recv_expr(bb, n).has_field(None, "released_sectors")
    loads = ctx.sites(b, R.call("Atomic::load", "AtomicU64::load", "AtomicUsize::load").filter(on_rel, "released_sectors.load"), inst, exact=2)
    pw = ctx.sites(b, R.call("write_buffer::process_write_batch"), inst, exact=1)
    fp = ctx.sites(b, R.call_or_thin_helper("write_buffer::flush_pending_deletions"), inst, exact=2)
    if len(loads) != 2:
        return
    snap, cur = sorted(loads)
    R.dom(ctx, inst, b, [snap], pw + fp, "the released-sector snapshot is taken before any batch is written or any retirement is flushed", a_desc="released_sectors snapshot")
    fp_before = [x for x in fp if cur in A.reach(b, A.succs(b, x))[0]]
    ctx.check(len(fp_before) == 1, inst, "anchor", b.path, "one retirement pass precedes the second counter read", None)
    R.dom(ctx, inst, b, fp_before, [cur], "the counter is re-read only after the retirement pass", a_desc="flush_pending_deletions")
    def moved(e):
        return e.k == "bin" and e.extra == "Eq" and {c.nid for c in e.calls()} >= {snap, cur} and \
            all(x.k == "call" and x.nid in (snap, cur) for x in e.a)
    sw = A.pred_switches(b, moved)
    ctx.check(len(sw) == 1, inst, "PIN", b.path, "progress is `counter now != counter at entry` (both operands are loads of released_sectors)", None)
    again = [n.id for n in b.nodes if n.kind == "assign" and not n.ev["dst"]["p"] and n.ev["dst"]["l"] == 0 and n.ev.get("rv") == "agg" and n.ev.get("var") == "Ok"
             and n.ev["ops"] and n.ev["ops"][0].get("k") == "const" and n.ev["ops"][0].get("val") == 1]
    ctx.check(len(again) == 1, inst, "anchor", b.path, "one unconditional `Ok(true)` (ask me again) return (found %d)" % len(again), None)
    R.guard(ctx, inst, b, again, A.pred_edges(b, moved, "false"), "`ask me again` after an out-of-space failure only if sectors were released during this call")
    # the counter only ever grows, by the number of sectors actually released
    n_w = 0
    for bb in ctx.prog.product_bodies():
        for n in R.call("Atomic::fetch_add", "Atomic::store", "Atomic::fetch_sub", "Atomic::swap", "AtomicU64::fetch_add", "AtomicU64::store").filter(on_rel, "released_sectors write")(bb):
            n_w += 1
            ctx.check(R.call_matches(bb.nodes[n].ev, "fetch_add"), inst, "PIN", bb.path, "released_sectors is only ever incremented", bb.where(n))
    ctx.check(n_w >= 1, inst, "anchor", "-", "writers of released_sectors (>= 1, found %d)" % n_w, None)


def check_final_flush(ctx):
    """dropping the store joins the workers; a worker's final flush retries retryable failures, so the join returns only if
    that loop is bounded: its attempt counter (the value compared with FINAL_FLUSH_RETRY_LIMIT) strictly grows on every way
    back to the loop head, and the loop is left when the limit is reached"""
    from feoxlint import bounds as B
    inst = "C18.final-flush"
    b = ctx.fn("write_buffer::write_buffer_worker", inst)
    if b is None:
        return
    tr = A.tracer(b)
    cmps = []
    for n in b.nodes:
        if n.kind == "assign" and n.ev.get("rv") == "bin" and n.ev["op"] in ("Eq", "Ge", "Gt", "Lt", "Le", "Ne"):
            v = tr.node_value(n.id)
            if v.has_const(name="FINAL_FLUSH_RETRY_LIMIT"):
                cmps.append((n.id, v))
    ctx.check(len(cmps) >= 2, inst, "anchor", b.path, "the retry limit is tested on both retry arms (found %d tests)" % len(cmps), None)
    locs = set()
    for nid, v in cmps:
        for x in v.walk():
            if x.k == "local":
                locs.add(x.extra)
    ctx.check(len(locs) == 1, inst, "PIN", b.path, "every limit test reads the same attempt counter", None, {"locals": sorted(b.local_name(l) or str(l) for l in locs)})
    if len(locs) != 1:
        return
    counter = next(iter(locs))
    eng = B.Engine(ctx.prog)
    items = B.loop_progress(eng, b, counter, +1)
    ctx.check(len(items) >= 2, inst, "anchor", b.path, "ways back to the head of the final-flush loop (>= 2, found %d)" % len(items), None)
    c = eng.ctx(b)
    for ob, (p, lab) in items:
        facts = eng.facts_at_edge(c, p, lab)
        ok = all(eng.entails(c, facts, g, 0) for g in ob.goals)
        ctx.check(ok, inst, "PROGRESS", b.path, "the attempt counter grows on every retry of the final flush: " + ob.desc, ob.where)
    # reaching the limit leaves the loop: on the `== limit` edge no further flush attempt is reachable without leaving
    ff = [n.id for n in b.calls() if R.call_matches(n.ev, "write_buffer::flush_worker_shards")]
    for nid, v in cmps:
        def is_this(e, nid=nid):
            return e.nid == nid or (e.k == "bin" and e.has_const(name="FINAL_FLUSH_RETRY_LIMIT") and e.nid == nid)
        edges = [(s_, l) for s_ in A.switches(b) for l, val in A.switch_info(b, s_).edge_vals.items()
                 if A.switch_info(b, s_).raw.nid == nid or A.switch_info(b, s_).root.nid == nid
                 for _ in [0] if val == ("true" if v.extra in ("Eq", "Ge", "Gt") else "false")]
        ctx.check(bool(edges), inst, "anchor", b.path, "the limit test is branched on", b.where(nid))
        for (s_, l) in edges:
            r, _ = A.reach(b, edge_targets_local(b, s_, l))
            ctx.check(not any(x in r for x in ff), inst, "FOLLOW", b.path, "once the limit is reached no further flush attempt is made", b.where(s_))


def check_sweeper_loop(ctx):
    """the sweeper thread is joined by TtlSweeper::stop (from FeoxStore::drop), so its loop must leave once the flag stop()
    sets is raised: (1) the flag the loop polls is the very Arc stop() stores to; (2) every way from one sweeping run back to
    the next sleep passes a test of that flag, and a raised flag leads to the return without sleeping or sampling again;
    (3) one sweeping run is bounded: it leaves through an iteration counter that provably grows, or through an elapsed-time
    test against an Instant taken before the run; (4) the strong store reference taken for a run is dropped before the next
    one is taken (the thread never pins the store: the last user handle's drop is what closes it)"""
    from feoxlint import bounds as B
    inst = "C18.sweeper-loop"
    b = ctx.fn("ttl_sweep::run_sweeper_loop", inst)
    if b is None:
        return
    sl = ctx.sites(b, R.call("thread::sleep"), inst, exact=1)
    sm = ctx.sites(b, R.call("ttl_sweep::sample_and_expire_batch"), inst, exact=1)
    up = ctx.sites(b, R.call("Weak::upgrade"), inst, exact=1)
    if not (sl and sm and up):
        return
    def is_flag(e):
        return e.k == "call" and (path_matches(e.extra, "Atomic::load") or path_matches(e.extra, "AtomicBool::load")) and any(x.k == "arg" and x.extra[0] == 3 for x in e.walk())
    fsw = A.pred_switches(b, is_flag)
    ctx.check(len(fsw) >= 1, inst, "anchor", b.path, "the loop tests its shutdown flag (>= 1 test, found %d)" % len(fsw), None)
    r, _ = A.reach(b, A.succs(b, sm[0]), stop_at=frozenset(fsw))
    ctx.check(sl[0] not in r, inst, "DOM", b.path,
              "every way from a sweeping run back to the next sleep passes a test of the shutdown flag", b.where(sl[0]))
    raised = A.pred_edges(b, is_flag, "true")
    ctx.check(len(raised) >= 1, inst, "anchor", b.path, "edges on which the flag is raised (>= 1, found %d)" % len(raised), None)
    for (s_, l) in raised:
        r2, _ = A.reach(b, edge_targets_local(b, s_, l))
        ctx.check(sl[0] not in r2 and sm[0] not in r2, inst, "FOLLOW", b.path, "a raised shutdown flag ends the thread without sleeping or sampling again", b.where(s_))
    # (3) one run is bounded
    eng = B.Engine(ctx.prog)
    bounds = 0
    def iter_cmp(e):
        return e.k == "bin" and e.extra in ("Lt", "Le", "Eq") and e.has_field("TtlConfig", "max_iterations")
    for s_ in A.pred_switches(b, iter_cmp):
        info = A.switch_info(b, s_)
        locs = {x.extra for x in info.root.walk() if x.k == "local"}
        if len(locs) != 1:
            continue
        counter = next(iter(locs))
        items = [(ob, e) for ob, e in B.loop_progress(eng, b, counter, +1) if _in_run(b, e[0], sm, sl)]
        c = eng.ctx(b)
        ok = bool(items)
        for ob, (p, lab) in items:
            facts = eng.facts_at_edge(c, p, lab)
            ok = ok and all(eng.entails(c, facts, g, 0) for g in ob.goals)
        # reaching the limit leaves the run
        lim = [(s_, l) for l, v in info.edge_vals.items() if v == ("false" if info.root.extra in ("Lt", "Le") else "true")]
        for (s2, l) in lim:
            r3, _ = A.reach(b, edge_targets_local(b, s2, l), stop_at=frozenset(sl))
            ok = ok and sm[0] not in r3
        if ok and lim:
            bounds += 1
    def time_cmp(e):
        return e.has_call("Instant::elapsed") and e.has_field("TtlConfig", "max_time_per_run")
    for s_ in A.pred_switches(b, time_cmp):
        info = A.switch_info(b, s_)
        nows = [c.nid for c in info.root.calls() if path_matches(c.extra, "Instant::now")]
        # the Instant is taken before the run: not inside the cycle through the sampling call
        r4, _ = A.reach(b, A.succs(b, sm[0]), stop_at=frozenset(sl))
        if not nows or any(x in r4 for x in nows):
            continue
        want = "true" if (info.root.k == "call" and (path_matches(info.root.extra, "PartialOrd::gt") or path_matches(info.root.extra, "PartialOrd::ge"))) else None
        lim = [(s_, l) for l, v in info.edge_vals.items() if want and v == want]
        ok = bool(lim)
        for (s2, l) in lim:
            r3, _ = A.reach(b, edge_targets_local(b, s2, l), stop_at=frozenset(sl))
            ok = ok and sm[0] not in r3
        if ok:
            bounds += 1
    ctx.check(bounds >= 1, inst, "PROGRESS", b.path, "one sweeping run is bounded (a growing iteration counter with a limit that leaves the run, "
              "or an elapsed-time limit against an Instant taken before the run); sound bounds found: %d" % bounds, b.where(sm[0]))
    # (4) the strong reference does not survive into the next upgrade
    drops = [n.id for n in b.nodes if n.kind == "drop" and "Arc<core::store::FeoxStore>" in n.ev.get("ty", "")]
    ctx.check(len(drops) >= 1, inst, "anchor", b.path, "drops of the upgraded Arc<FeoxStore> (>= 1, found %d)" % len(drops), None)
    some = [(s_, l) for (s_, l) in A.pred_edges(b, lambda e: e.k == "call" and path_matches(e.extra, "Weak::upgrade"), "Some")]
    ctx.check(len(some) == 1, inst, "anchor", b.path, "the upgrade result is matched (Some edge found %d)" % len(some), None)
    for (s_, l) in some:
        r5, _ = A.reach(b, edge_targets_local(b, s_, l), stop_at=frozenset(drops))
        ctx.check(up[0] not in r5, inst, "FOLLOW", b.path, "the strong store reference taken for a run is dropped before the next one is taken", b.where(up[0]))
    r6, _ = A.reach(b, A.succs(b, sl[0]))
    ctx.check(up[0] in r6, inst, "DOM", b.path, "the store is upgraded anew for every run (the upgrade follows the sleep inside the loop)", b.where(up[0]))
    # (1) flag and store identity
    st = ctx.fn("TtlSweeper::start", inst)
    if st is None:
        return
    clos = [bb for bb in ctx.prog.product_bodies() if bb.parent == st.path and ctx.prog.reaches_name(bb.path, "ttl_sweep::run_sweeper_loop")]
    ctx.check(len(clos) == 1, inst, "anchor", st.path, "the spawned closure calling run_sweeper_loop (found %d)" % len(clos), None)
    if len(clos) != 1:
        return
    clo = clos[0]
    calls = ctx.sites(clo, R.call("ttl_sweep::run_sweeper_loop"), inst, exact=1)
    parent, ups = S.upvar_parent_exprs(ctx.prog, clo)
    if not calls or parent is None:
        return
    for idx, (adt, field, what) in {2: ("TtlSweeper", "shutdown", "the flag the loop polls is a clone of TtlSweeper.shutdown, the flag stop() raises"),
                                    0: ("TtlSweeper", "store", "the loop's store handle is a clone of the sweeper's Weak (no strong reference is captured)")}.items():
        e = R.arg_expr(clo, clo.nodes[calls[0]], idx)
        fld = [x for x in e.walk() if x.k == "field" and x.a and x.a[0].k == "arg" and x.a[0].extra[0] == 1]
        ok = False
        if len(fld) == 1:
            pe = ups.get(int(fld[0].extra[1]))
            ok = pe is not None and pe.has_field(adt, field) and not any(x.k == "call" and not path_matches(x.extra, "Clone::clone") for x in pe.walk())
        ctx.check(ok, inst, "PROVENANCE", st.path, what, clo.where(calls[0]))
    thr = ctx.sites(st, R.call("thread::spawn"), inst, exact=1)
    hw = ctx.sites(st, R.field_write("TtlSweeper", "handle"), inst, floor=1)
    if thr and hw:
        R.dom(ctx, inst, st, thr, hw, "the handle stop() joins is the spawned thread's", a_desc="thread::spawn")


def _in_run(b, node, sm, sl):
    """node lies on a cycle through the sampling call that does not pass the sleep (i.e. inside one run)"""
    r, _ = A.reach(b, A.succs(b, sm[0]), stop_at=frozenset(sl), sensitive=False)
    return node in r



def edge_targets_local(b, s_, l):
    return [t for (t, lab) in b.nodes[s_].succ if lab == l]


def check_readers(ctx):
    """flush() loops while a retirement is deferred, and a retirement is deferred while extent_has_readers(): that wait ends only
    if the reader count always comes back down, i.e. every installed increment is owned by a guard whose drop removes it and a
    refused acquire adds nothing (same rule as C08.pin's reader-count part)"""
    from rules import C08
    C08.check_reader_count(ctx, "C18.readers")



def check_requeue(ctx):
    """see rules.common.check_requeue_whole: every prepared write of a failed batch is requeued"""
    from rules import common as _c
    _c.check_requeue_whole(ctx, "C18.requeue")


def check_cas_loops(ctx):
    """a compare-exchange retry loop makes progress only if a lost exchange refreshes the value it expects: on every way from a
    compare_exchange back to the same compare_exchange the `current` operand is re-obtained (the failure payload is assigned to
    it, or it is loaded again). A loop that retries with the value it read once spins for ever as soon as another thread moves
    the atomic in between - while the caller still holds whatever it holds (VersionClock::observe runs under the bucket guard)."""
    inst = "C18.cas-loops"
    prog = ctx.prog
    n_loops = 0
    n_sites = 0
    for b in prog.product_bodies():
        for n in b.calls():
            if not any(call_matches(n.ev, x) for x in ("Atomic::compare_exchange", "Atomic::compare_exchange_weak", "Atomic*::compare_exchange", "Atomic*::compare_exchange_weak")):
                continue
            if len(n.ev["args"]) < 2:
                continue
            n_sites += 1
            r0, _ = A.reach(b, A.succs(b, n.id), sensitive=False)
            if n.id not in r0:
                continue        # not retried
            n_loops += 1
            e = A.tracer(b, transparent=False).operand(n.ev["args"][1])
            refresh = set()
            for x in e.walk():
                if x.k == "local":
                    refresh |= set(b.defs.get(x.extra, []))
                elif x.k == "call" and x.nid is not None:
                    refresh.add(x.nid)      # `cas(a.load(), ..)`: re-evaluated on every iteration
            refresh.discard(n.id)
            # the operand local itself (a per-iteration copy such as `_t = copy last`) does not count: what it copies from does
            r, ps = A.reach(b, A.succs(b, n.id), blocked_nodes=refresh)
            stale = n.id in r
            ctx.check(not stale, inst, "PROGRESS", b.path, "a lost compare-exchange re-obtains the expected value before it retries", b.where(n.id),
                      None if not stale else {"expected": e.show()[:80], "witness": R.witness(b, ps, r.get(n.id))})
    ctx.check(n_loops >= 4, inst, "anchor", "-", "compare-exchange retry loops examined (>= 4: clock next / observe, memory admission, extent readers; found %d of %d sites)" % (n_loops, n_sites), None)


def check_expired_retry(ctx, inst="C18.expired-retry"):
    """atomic_increment retires an expired current generation and goes round again. The retry ends only if the retirement is
    asked for the generation that was just judged expired (the latest table read): retire_expired_if_current removes the entry
    only when it still holds the record it is given, so handing it another generation (the first one this call observed) makes
    every iteration find the same expired record, retire nothing and spin - with no lock held, at 100 % CPU, for ever."""
    b = ctx.fn("FeoxStore::atomic_increment_with_timestamp_and_ttl", inst)
    if b is None:
        return
    sites = ctx.sites(b, R.call("FeoxStore::retire_expired_if_current"), inst, floor=2)
    judged = set()
    for n in b.calls():
        if R._is_atomic_call(n.ev, R.ATOMIC_LOADS):
            e = R.recv_expr(b, n)
            for x in e.walk():
                if x.k == "field" and x.extra[1] == "ttl_expiry" and (x.extra[0] or "").endswith("Record") and x.a:
                    judged.add(x.a[0].key())
    rv = [n for n in b.calls() if call_matches(n.ev, "FeoxStore::resolve_value")]
    for n in rv:
        judged.add(R.arg_expr(b, n, 2).key())
    ctx.check(bool(judged), inst, "anchor", b.path, "the generation whose expiry is judged is identified", None)
    for s_ in sites:
        e = R.arg_expr(b, b.nodes[s_], 2)
        ctx.check(e.key() in judged, inst, "PROVENANCE", b.path, "the generation retired before the retry is the one just judged (latest table read), not an earlier observation",
                  b.where(s_), {"retired": e.show()[:100]})
        # and the retry really goes back to a fresh table read
        reads = [n.id for n in b.calls() if call_matches(n.ev, "HashMap::read") and R.recv_expr(b, n).has_field("FeoxStore", "hash_table")]
        r, _ = A.reach(b, A.succs(b, s_), blocked_nodes=set(reads))
        bad = [x for x in sites if x in r and x != s_]
        ctx.check(not bad, inst, "FOLLOW", b.path, "after a lazy retirement the table is read again before anything is retired again", b.where(s_))


def check(ctx):
    check_expired_retry(ctx)
    check_cas_loops(ctx)
    check_requeue(ctx)
    check_readers(ctx)
    check_final_flush(ctx)
    check_progress(ctx)
    g, groups = check_lockorder(ctx)
    check_wait(ctx, g, groups)
    check_poll(ctx, groups)
    check_selfjoin(ctx)
    check_sweeper_loop(ctx)
    check_shutdown(ctx)
