"""C06 — the free-space allocator never double-allocates, loses or fragments space.
Decided: dual-index update discipline, reject-before-mutate, best-fit lookup key,
strict overlap probes and exact-adjacency merge filters."""
from feoxlint import analysis as A
from feoxlint import rulekit as R
from feoxlint.model import path_matches
from rules.common import edge_targets, closure_ret_cmp, closure_carriers, names_of, expr_fields

EXPLANATION = """
Code-shape invariants of FreeSpaceManager: every removal from by_size is followed (before the next removal or a
normal return) by the removal of the same FreeSpace from by_start and a debit of total_free; every insertion credits
total_free first and inserts into both maps with keys built from the same FreeSpace; only new / allocate_sectors /
try_merge_spaces / insert_free_space mutate the three fields; in try_merge_spaces no error exit is reachable after the
first mutation (reject-before-mutate) and release_sectors validates the range before merging; the best-fit lookup is
by_size.range((sectors_needed, 0)..) and OutOfSpace is returned only when it found nothing; the two overlap probes are
strict comparisons leading to an error exit and the merge filters are equalities (exact adjacency).
Not decided: the arithmetic of splits/merges and the reported totals over call sequences.
"""
DECIDED = ['operands and strictness of the range-validity predicates (exclusive end <= device sectors, data-area start inclusive)', "dual-index pairing and total_free bookkeeping on every mutation", "reject-before-mutate in release",
           "best-fit lookup key; OutOfSpace only when no run fits", "strict overlap probes, equality merge filters",
           'the device bound the predicates read is set by initialize() and set_device_size() alike',
           "reported totals equal the free set's"]
NOT_DECIDED = ["split/merge arithmetic", "reported totals equal the true free set after every call (value-level)"]
ASSUMPTIONS = ["exclusive access is by type: all mutators take &mut self behind RwLock<FreeSpaceManager>"]

FSM = "FreeSpaceManager"
MUTATORS = ["FreeSpaceManager::new", "FreeSpaceManager::allocate_sectors", "FreeSpaceManager::try_merge_spaces",
            "FreeSpaceManager::insert_free_space"]


def map_call(method, field):
    return R.call("BTreeMap::" + method, recv_field=(FSM, field))


def map_mutations(field):
    """any call that takes `&mut BTreeMap` derived from the field"""
    def f(body):
        out = []
        for n in body.calls():
            tys = n.ev.get("arg_tys", [])
            if tys and tys[0].startswith("&mut std::collections::BTreeMap") and R.recv_expr(body, n).has_field(FSM, field):
                out.append(n.id)
        return out
    return R.Sel(f, "mutating call on %s.%s" % (FSM, field))


def base_key(e):
    """identity of the FreeSpace a key expression is built from"""
    ks = set()

    def strip(x):
        while x.k == "field" and x.a:
            x = x.a[0]
        return x
    if e.k == "agg":
        for a in e.a:
            ks.add(repr(strip(a).key()))
    else:
        ks.add(repr(strip(e).key()))
    return ks


def check_pair(ctx, inst="C06.pair"):
    total_sites = 0
    for fn, n_rm in (("FreeSpaceManager::allocate_sectors", 1), ("FreeSpaceManager::try_merge_spaces", 2)):
        body = ctx.fn(fn, inst)
        if body is None:
            continue
        rs = ctx.sites(body, map_call("remove", "by_size"), inst, exact=n_rm)
        rb = ctx.sites(body, map_call("remove", "by_start"), inst, exact=n_rm)
        tf = ctx.sites(body, R.field_write(FSM, "total_free"), inst, exact=n_rm, what="total_free update")
        exits = body.return_nodes()
        for a in rs:
            total_sites += 1
            others = [x for x in rs if x != a]
            R.follow(ctx, inst, body, [a], rb, "removal from by_size is followed by removal from by_start", exits=exits + others, b_desc="by_start.remove")
        for a in rb:
            others = [x for x in rb if x != a]
            R.follow(ctx, inst, body, [a], tf, "removal from by_start is followed by a total_free debit", exits=exits + others, b_desc="total_free -=")
        # pairing by key: i-th removals use the same FreeSpace
        for a, b in zip(sorted(rs), sorted(rb)):
            ka = base_key(R.arg_expr(body, body.nodes[a], 1))
            kb = base_key(R.arg_expr(body, body.nodes[b], 1))
            ctx.check(bool(ka) and ka == kb, inst, "PROVENANCE", body.path, "both maps are keyed from the same FreeSpace", body.where(a),
                      {"by_size_key": sorted(ka), "by_start_key": sorted(kb)})
            e = R.arg_expr(body, body.nodes[a], 1)
            fields = [x.extra[1] for x in e.a] if e.k == "agg" else []
            ctx.check(fields in (["size", "start"], ["0", "1"]), inst, "PIN", body.path, "by_size key is (size, start)", body.where(a), {"fields": fields})
        for t in tf:
            ev = body.nodes[t].ev
            v = A.tracer(body).node_value(t)
            ctx.check(v.k == "bin" and v.extra == "Sub", inst, "PIN", body.path, "total_free is debited on removal", body.where(t), {"expr": v.show()})
    body = ctx.fn("FreeSpaceManager::insert_free_space", inst)
    if body is not None:
        i_s = ctx.sites(body, map_call("insert", "by_size"), inst, exact=1)
        i_b = ctx.sites(body, map_call("insert", "by_start"), inst, exact=1)
        tf = ctx.sites(body, R.field_write(FSM, "total_free"), inst, exact=1)
        R.follow(ctx, inst, body, i_s, i_b, "insertion into by_size is followed by insertion into by_start", b_desc="by_start.insert")
        R.dom(ctx, inst, body, tf, i_s, "total_free credited before the insertion", a_desc="total_free +=")
        R.noerr_after(ctx, inst, body, tf, "no error exit after insert_free_space started mutating")
        for t in tf:
            v = A.tracer(body).node_value(t)
            ctx.check(v.k == "bin" and v.extra == "Add", inst, "PIN", body.path, "total_free is credited on insertion", body.where(t), {"expr": v.show()})
        if i_s and i_b:
            e = R.arg_expr(body, body.nodes[i_s[0]], 1)
            fields = [x.extra[1] for x in e.a] if e.k == "agg" else []
            ctx.check(fields == ["size", "start"], inst, "PIN", body.path, "by_size key is (size, start)", body.where(i_s[0]), {"fields": fields})
            kb = R.arg_expr(body, body.nodes[i_b[0]], 1)
            ctx.check(kb.k == "field" and kb.extra[1] == "start", inst, "PIN", body.path, "by_start key is start", body.where(i_b[0]), {"expr": kb.show()})
            ctx.check(base_key(e) == base_key(kb) and base_key(e), inst, "PROVENANCE", body.path, "both insertions use the same FreeSpace", body.where(i_s[0]))
        # duplicate / validity checks precede the mutation
        ck = ctx.sites(body, R.call("BTreeMap::contains_key", recv_field=(FSM, "by_start")), inst, exact=1)
        R.guard(ctx, inst, body, tf, R.guard_edges_for_call(body, ck, "false"), "insertion only when the start is not already free")
        vf = ctx.sites(body, R.call("FreeSpaceManager::is_valid_free_space"), inst, exact=1)
        R.guard(ctx, inst, body, tf, R.guard_edges_for_call(body, vf, "true"), "insertion only of a valid in-bounds run")
    # who mutates
    for field in ("by_size", "by_start"):
        n = 0
        for b in ctx.prog.product_bodies():
            for nid in map_mutations(field)(b):
                n += 1
                o = R.owner_fn(ctx.prog, b)
                ctx.check(any(path_matches(o, m) for m in MUTATORS), inst + "/writers", "FIELDW", o,
                          "FreeSpaceManager.%s mutated only by the reviewed functions" % field, b.where(nid))
        if n < 3:
            ctx.anchor_missing(inst + "/writers", "mutations of FreeSpaceManager.%s: expected >= 3, found %d" % (field, n))
    R.fieldw_within(ctx, inst + "/writers", FSM, "total_free", MUTATORS, floor=4)


def check_atomic(ctx):
    inst = "C06.atomic"
    body = ctx.fn("FreeSpaceManager::try_merge_spaces", inst)
    if body is not None:
        muts = (map_mutations("by_size") | map_mutations("by_start") | R.field_write(FSM, "total_free"))(body)
        if len(muts) < 6:
            ctx.anchor_missing(inst, "mutation sites in try_merge_spaces: expected >= 6, found %d" % len(muts), body.path)
        R.noerr_after(ctx, inst, body, muts, "no rejection after a neighbour was removed (release changes nothing when it fails)")
    body = ctx.fn("FreeSpaceManager::release_sectors", inst)
    if body is not None:
        vr = ctx.sites(body, R.call("FreeSpaceManager::is_valid_sector_range"), inst, exact=1)
        tm = ctx.sites(body, R.call("FreeSpaceManager::try_merge_spaces"), inst, exact=1)
        ins = ctx.sites(body, R.call("FreeSpaceManager::insert_free_space"), inst, exact=1)
        R.guard(ctx, inst, body, tm, R.guard_edges_for_call(body, vr, "true"), "merge attempted only for a valid in-bounds range")
        R.guard(ctx, inst, body, ins, R.guard_edges_for_call(body, tm, "Ok"), "insertion only after a successful (non-overlapping) merge probe")
        # the inserted run is the merge result; the probe gets the caller's range
        if ins and tm:
            e = R.arg_expr(body, body.nodes[ins[0]], 1, transparent=False)
            ctx.check(any(c.nid == tm[0] for c in e.calls()), inst, "PROVENANCE", body.path, "the run inserted is the one try_merge_spaces returned", body.where(ins[0]))
            a1 = R.arg_expr(body, body.nodes[tm[0]], 1)
            a2 = R.arg_expr(body, body.nodes[tm[0]], 2)
            ctx.check(a1.k == "arg" and a1.extra[0] == 2 and a2.k == "arg" and a2.extra[0] == 3, inst, "PROVENANCE", body.path,
                      "try_merge_spaces receives the caller's (start, count) unchanged", body.where(tm[0]), {"args": [a1.show(), a2.show()]})
        # nothing mutates in release_sectors itself before validation
        muts = (map_mutations("by_size") | map_mutations("by_start") | R.field_write(FSM, "total_free"))(body)
        ctx.check(not muts, inst, "FIELDW", body.path, "release_sectors mutates only through try_merge_spaces / insert_free_space", None)


def check_fit(ctx):
    inst = "C06.fit"
    body = ctx.fn("FreeSpaceManager::allocate_sectors", inst)
    if body is not None:
        rg = ctx.sites(body, R.call("BTreeMap::range", recv_field=(FSM, "by_size")), inst, exact=1)
        if rg:
            e = R.arg_expr(body, body.nodes[rg[0]], 1)
            ok = e.k == "agg" and "RangeFrom" in (e.extra or "") and e.a and e.a[0].k == "agg" and len(e.a[0].a) == 2
            if ok:
                lo = e.a[0].a
                ok = lo[0].k == "arg" and lo[0].extra[0] == 2 and lo[1].k == "const" and (lo[1].extra or {}).get("val") == 0
            ctx.check(ok, inst, "PIN", body.path, "best-fit lookup is by_size.range((sectors_needed, 0)..)", body.where(rg[0]), {"expr": e.show()})
            nx = ctx.sites(body, R.call("Iterator::next"), inst, exact=1)
            nb = R.call("DoubleEndedIterator::next_back")(body)
            ctx.check(not nb, inst, "PIN", body.path, "the smallest fitting run is taken (next, not next_back)", None)
        oos = ctx.sites(body, R.aggregate("error::FeoxError", "OutOfSpace"), inst, exact=1)
        # OutOfSpace only when best_fit is None
        def best_fit(e):
            return any(c.k == "call" and path_matches(c.extra, "BTreeMap::range") for c in e.walk()) or "best_fit" in names_of(body, e)
        edges = A.pred_edges(body, best_fit, "None")
        R.guard(ctx, inst, body, oos, edges, "OutOfSpace only when no free run is large enough")
        # allocation returns the start of the run that was removed
        oks = ctx.sites(body, R.returns("ok"), inst, exact=1)
        rs = map_call("remove", "by_size")(body)
        R.dom(ctx, inst, body, rs, oks, "a successful allocation removed the run from the free set", a_desc="by_size.remove")
        if oks:
            v = A.tracer(body).operand(body.nodes[oks[0]].ev["ops"][0])
            ctx.check(v.k == "field" and v.extra[1] == "start", inst, "PROVENANCE", body.path, "the allocation returned starts at the chosen run's start", body.where(oks[0]), {"expr": v.show()})
        # remainder = (start + needed, size - needed), inserted when size > needed
        ins = ctx.sites(body, R.call("FreeSpaceManager::insert_free_space"), inst, floor=1)
        aggs = ctx.sites(body, R.aggregate("free_space::FreeSpace"), inst, exact=1)
        for a in aggs:
            ev = body.nodes[a].ev
            f = dict(zip(ev["fields"], ev["ops"]))
            st = A.tracer(body).operand(f.get("start"))
            sz = A.tracer(body).operand(f.get("size"))
            ctx.check(st.k == "bin" and st.extra == "Add" and st.has_arg(idx=2) and any(x.k == "field" and x.extra[1] == "start" for x in st.walk()),
                      inst, "PIN", body.path, "remainder starts at run.start + sectors_needed", body.where(a), {"expr": st.show()})
            ctx.check(sz.k == "bin" and sz.extra == "Sub" and sz.a[1].k == "arg" and sz.a[1].extra[0] == 2 and sz.a[0].k == "field" and sz.a[0].extra[1] == "size",
                      inst, "PIN", body.path, "remainder size is run.size - sectors_needed", body.where(a), {"expr": sz.show()})
    body = ctx.fn("FreeSpaceManager::try_merge_spaces", inst)
    if body is not None:
        # overlap probes: Lt(start, prev.start + prev.size) -> error; Lt(next.start, end) -> error
        probes = []
        for s in A.switches(body):
            info = A.switch_info(body, s)
            r = info.root
            if r.k == "bin" and r.extra in ("Lt", "Eq"):
                probes.append((s, info))
        def is_end(e):
            return "end" in names_of(body, e) or (e.k == "call" and path_matches(e.extra, "checked_add")) or \
                any(x.k == "call" and path_matches(x.extra, "checked_add") for x in e.walk())
        def is_prev_end(e):
            return e.k == "bin" and e.extra == "Add" and {"start", "size"} <= {x.extra[1] for x in e.walk() if x.k == "field"}
        def is_space_start(e):
            return e.k == "field" and e.extra[1] == "start" and (e.extra[0] or "").endswith("FreeSpace")
        found_prev = found_next = 0
        for s, info in probes:
            a, b = info.root.a
            if info.root.extra == "Lt" and a.k == "arg" and a.extra[0] == 2 and is_prev_end(b):
                found_prev += 1
                for l, v in info.edge_vals.items():
                    if v == "true":
                        only_error_from(ctx, inst, body, s, l, "a predecessor that extends past `start` rejects the release")
            elif info.root.extra == "Lt" and is_space_start(a) and is_end(b) and not is_prev_end(b):
                found_next += 1
                for l, v in info.edge_vals.items():
                    if v == "true":
                        only_error_from(ctx, inst, body, s, l, "a successor that starts before `end` rejects the release")
        ctx.check(found_prev == 1, inst, "PIN", body.path, "strict predecessor overlap probe `prev.start + prev.size > start` present (found %d)" % found_prev, None)
        ctx.check(found_next == 1, inst, "PIN", body.path, "strict successor overlap probe `next.start < end` present (found %d)" % found_next, None)
        # merge filters are equalities
        filt = ctx.sites(body, R.call("Option::filter"), inst, exact=2)
        cls = []
        for c in ctx.prog.closures_of(body):
            carried = closure_carriers(body, c)
            if any(x in filt for x in carried):
                cls.append(c)
        ctx.check(len(cls) == 2, inst, "anchor", body.path, "two merge-filter closures (found %d)" % len(cls), None)
        for c in cls:
            cmp = closure_ret_cmp(c)
            good = cmp is not None and cmp["op"] == "Eq"
            ctx.check(good, inst, "PIN", c.path, "merge filter is an equality (exact adjacency)", c.where(c.entry), {"op": cmp and cmp["op"]})
        # range probes: by_start.range(..start).next_back() and by_start.range(start..=end).next()
        rgs = ctx.sites(body, R.call("BTreeMap::range", recv_field=(FSM, "by_start")), inst, exact=2)
        kinds = []
        for r in rgs:
            e = R.arg_expr(body, body.nodes[r], 1)
            kinds.append(e.extra if e.k == "agg" else (e.extra if e.k == "call" else "?"))
        ctx.check(any("RangeTo" in str(k) and "Inclusive" not in str(k) for k in kinds) and any("RangeInclusive" in str(k) for k in kinds),
                  inst, "PIN", body.path, "neighbour probes are range(..start) and range(start..=end)", None, {"kinds": [str(k) for k in kinds]})


def only_error_from(ctx, inst, body, sw, label, what):
    r, ps = A.reach(body, edge_targets(body, sw, label))
    bad = [x for x in A.ok_nodes(body) if x in r]
    muts = [x for x in (map_mutations("by_size") | map_mutations("by_start") | R.field_write(FSM, "total_free"))(body) if x in r]
    ctx.check(not bad and not muts, inst, "GUARD", body.path, what, body.where(sw),
              None if not (bad or muts) else {"witness": R.witness(body, ps, r.get((bad + muts)[0]))})


def check_report(ctx):
    """initial free set and the reported figures: a fresh manager holds exactly one run [DATA_START, total_sectors); the getters
    report the running total, the number of runs of the by-start view and the last (largest) run of the by-size view"""
    from rules.common import pin_comparisons
    inst = "C06.report"
    b = ctx.fn("FreeSpaceManager::initialize", inst)
    if b is not None:
        ins = ctx.sites(b, R.call("FreeSpaceManager::insert_free_space"), inst, exact=1)
        for x in ins:
            v = R.arg_expr(b, b.nodes[x], 1)
            ok = v.k == "agg" and len(v.a) == 2 and v.a[0].has_const(name="FEOX_DATA_START_BLOCK") and v.a[0].k == "const" and \
                v.a[1].k == "bin" and v.a[1].extra.startswith("Sub") and v.a[1].a[0].k == "bin" and v.a[1].a[0].extra == "Div" and v.a[1].a[0].has_arg(idx=2) and \
                v.a[1].a[1].has_const(name="FEOX_DATA_START_BLOCK")
            ctx.check(ok, inst, "PIN", b.path, "the initial free run is (FEOX_DATA_START_BLOCK, device_size / BLOCK - FEOX_DATA_START_BLOCK)", b.where(x), {"run": v.show()[:120]})
        def tot(e):
            return e.k == "bin" and e.extra == "Div" and e.has_arg(idx=2)
        pin_comparisons(ctx, inst, b, [
            ("Lt", lambda e: e.k == "const" and e.has_const(name="FEOX_DATA_START_BLOCK"), tot, "a device without a data area is refused (`total_sectors <= FEOX_DATA_START_BLOCK`)"),
        ])
    for fn, fld, what in (("FreeSpaceManager::get_total_free", "total_free", "the running total"),):
        g = ctx.fn(fn, inst)
        if g is not None:
            v = A.tracer(g).node_value(g.defs[0][0]) if len(g.defs.get(0, [])) == 1 else None
            ctx.check(v is not None and v.k == "field" and v.extra[1] == fld, inst, "PIN", g.path, "reports " + what, None)
    g = ctx.fn("FreeSpaceManager::get_free_chunks_count", inst)
    if g is not None:
        v = A.tracer(g).node_value(g.defs[0][0]) if len(g.defs.get(0, [])) == 1 else None
        ctx.check(v is not None and v.has_call("BTreeMap::len") and v.has_field("FreeSpaceManager", "by_start"), inst, "PIN", g.path, "the run count is the size of the by-start view", None)
    g = ctx.fn("FreeSpaceManager::get_largest_free_chunk", inst)
    if g is not None:
        fam = ctx.prog.family(g)
        nb = [n for bb in fam for n in bb.calls() if R.call_matches(n.ev, "Iterator::next_back") or R.call_matches(n.ev, "DoubleEndedIterator::next_back") or R.call_matches(n.ev, "BTreeMap::last_key_value") or R.call_matches(n.ev, "BTreeSet::last")]
        ctx.check(len(nb) == 1, inst, "PIN", g.path, "the largest run is the last entry of the by-size view", None)
    u = ctx.fn("FreeSpaceManager::update_fragmentation", inst)
    if u is not None:
        nb = [n for bb in ctx.prog.family(u) for n in bb.calls() if R.call_matches(n.ev, "Iterator::next_back") or R.call_matches(n.ev, "DoubleEndedIterator::next_back")]
        ctx.check(len(nb) == 1, inst, "PIN", u.path, "fragmentation is measured against the largest run (last entry of the by-size view)", None)


def check_valid(ctx):
    """the two range-validity predicates that gate every release / insertion: bounds are exclusive-end against the device's
    sector count, the data-area start is inclusive, empty ranges are refused (operands and strictness pinned)"""
    from rules.common import pin_comparisons
    inst = "C06.valid"
    dev_fields = set()
    def dev(e):
        # the device's sector count: built from the manager's own fields (and the block size) only - `device_size / BLOCK`
        # today, a cached sector count would do as well, provided whoever sets the size sets it too (checked below)
        fl = [x for x in e.walk() if x.k == "field" and (x.extra[0] or "").endswith("FreeSpaceManager")]
        ok = bool(fl) and not any(x.k == "call" for x in e.walk()) and not any(x.k == "arg" and x.extra[0] != 1 for x in e.walk()) and \
            all(x.k in ("field", "arg", "const", "cast", "bin", "deref", "ref") for x in e.walk()) and \
            all(x.extra == "Div" for x in e.walk() if x.k == "bin")
        if ok:
            dev_fields.update(x.extra[1] for x in fl)
        return ok
    def is_arg(i):
        return lambda e: e.k == "arg" and e.extra[0] == i
    def fld(f):
        return lambda e: e.k == "field" and e.extra[1] == f and e.a[0].k == "arg" and e.a[0].extra[0] == 2
    DS = lambda e: e.k == "const" and e.has_const(name="FEOX_DATA_START_BLOCK")
    b = ctx.fn("FreeSpaceManager::is_valid_sector_range", inst)
    if b is not None:
        def end(e):
            return e.k == "field" and e.a and e.a[0].k == "downcast" and e.a[0].a and e.a[0].a[0].k == "call" and \
                path_matches(e.a[0].a[0].extra, "checked_add") and is_arg(2)(e.a[0].a[0].a[0]) and is_arg(3)(e.a[0].a[0].a[1])
        pin_comparisons(ctx, inst, b, [
            ("Lt", is_arg(2), DS, "a range below the data area is refused (`start < FEOX_DATA_START_BLOCK`)"),
            ("Eq", is_arg(3), lambda e: e.k == "const" and (e.extra or {}).get("val") == 0, "an empty range is refused"),
            ("Lt", is_arg(2), dev, "a range starting at or past the device end is refused (`start >= device_sectors`)"),
            ("Lt", dev, end, "the exclusive end start + count must not exceed the device's sector count (`end <= device_sectors`)"),
        ])
    b = ctx.fn("FreeSpaceManager::release_sectors", inst)
    if b is not None:
        pin_comparisons(ctx, inst, b, [
            ("Lt", is_arg(2), DS, "release: the first data sector itself is releasable (`start < FEOX_DATA_START_BLOCK` refused, strict)"),
            ("Eq", is_arg(3), lambda e: e.k == "const" and (e.extra or {}).get("val") == 0, "release: an empty range is refused"),
        ])
    b = ctx.fn("FreeSpaceManager::is_valid_free_space", inst)
    if b is not None:
        def end2(e):
            return e.k == "bin" and e.extra == "Add" and fld("start")(e.a[0]) and fld("size")(e.a[1])
        pin_comparisons(ctx, inst, b, [
            ("Lt", fld("start"), DS, "a run below the data area is refused"),
            ("Lt", fld("start"), dev, "a run starting at or past the device end is refused"),
            ("Lt", dev, end2, "a run's exclusive end must not exceed the device's sector count"),
        ])
        sz = [n for n in b.calls() if R.call_matches(n.ev, "checked_add")]
        ctx.check(len(sz) == 1, inst, "PIN", b.path, "start + size is overflow-checked", None)
    # the bound the predicates read is set wherever the device size is set: a manager built by initialize() (fresh device)
    # and one configured by set_device_size() (reopen) validate against the same, known, device end
    ctx.check(bool(dev_fields), inst, "anchor", "-", "fields the device bound is read from (found %s)" % sorted(dev_fields), None)
    for f in sorted(dev_fields):
        for setter in ("FreeSpaceManager::initialize", "FreeSpaceManager::set_device_size"):
            sb = ctx.fn(setter, inst)
            if sb is None:
                continue
            w = R.field_write("FreeSpaceManager", f)(sb)
            ctx.check(bool(w), inst, "FIELDW", sb.path, "%s sets FreeSpaceManager.%s, which the range-validity predicates read as the device bound" % (setter.rsplit("::", 1)[-1], f), None)
    # the bound is skipped only while no size is known: the enabling test reads the same fields
    for fn in ("FreeSpaceManager::is_valid_sector_range", "FreeSpaceManager::is_valid_free_space"):
        b = ctx.fn(fn, inst)
        if b is None:
            continue
        en = [A.switch_info(b, s_).root for s_ in A.switches(b)]
        en = [r for r in en if r.k == "bin" and r.extra == "Lt" and r.a[0].k == "const" and (r.a[0].extra or {}).get("val") == 0 and
              any(x.k == "field" and (x.extra[0] or "").endswith("FreeSpaceManager") for x in r.a[1].walk())]
        for r in en:
            fs = {x.extra[1] for x in r.a[1].walk() if x.k == "field" and (x.extra[0] or "").endswith("FreeSpaceManager")}
            ctx.check(fs <= dev_fields, inst, "PIN", b.path, "the device bound is enabled by the field it is computed from", None, {"enabling": sorted(fs), "bound": sorted(dev_fields)})


def check(ctx):
    check_report(ctx)
    check_valid(ctx)
    check_pair(ctx)
    check_atomic(ctx)
    check_fit(ctx)
