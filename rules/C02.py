"""C02 — acknowledged data survives any later crash (flush / clean close).
Decided: (a) sync-before-ack, (b) journal -> data -> clear -> publish order,
(c) flush acknowledgement shape, (d) retire-after-successor, (e) drop order."""
from feoxlint import analysis as A
from feoxlint import rulekit as R
from feoxlint import vocab as V
from feoxlint.model import path_matches

EXPLANATION = """
Structural necessary conditions of durability, decided on every CFG path of the type-checked MIR:
every device write an acknowledgement depends on is followed by DiskIO::flush/fsync before a normal
return; in process_write_batch the order intent-journal -> data -> journal-clear -> publish(record.sector)
-> clear_value holds by dominance with each step guarded by the previous one's Ok edge; flush_all writes
metadata only after force_flush returned Ok; force_flush returns Ok only with no pending worker and no
error; retirement is guarded by successor_is_durable_or_deleted; Drop drains workers before metadata.
Not decided: which contents a crash image recovers to (needs crash images, not a static fact).
"""
DECIDED = ['released allocations lose their reservation (shared with C09.contain / C08.reservation)', 'every accepted mutation is handed to the write buffer (a replacement together with the generation it replaced) unless store configuration says there is no device; no record state is consulted at enqueue time (shared with C19.handoff)', 'admission bound, header-fit bound and field layout of writer and recovery agree (shared with C10.record)', 'writer and recovery token folds agree (shared with C10.token)', 'successor_is_durable_or_deleted memoises only after its verdict, answers true only behind a durable / memoised / deleted generation, and memoises only generations the walk moved past (never the one it stopped at)', "(a) fsync between device write and acknowledging return", "(b) journal/data/clear/publish order and Ok-guards",
           "(c) flush()/force_flush acknowledgement shape", "(d) retire only after successor durable",
           "(e) Drop: finish_shutdown before metadata before DiskIO::shutdown",
           'recovery frees an owned extent with the length of the generation whose sector it releases',
           'every device write is fsynced before the acknowledging return, in the writer or in every caller it was hoisted to',
           'force_flush waits for the retirement queue on every round; non-blocking acquisitions / sends are an enumerated inventory',
           'journal slot validity predicate and restored position shared with C03 / C04']
NOT_DECIDED = ["(f) recovered contents after an arbitrary later crash are not older than acknowledged ones"]
ASSUMPTIONS = ["fsync on the fd orders all earlier writes on that fd (POSIX)",
               "Record.sector > 0 is the only durability signal (FIELDW instance checks its writers)"]

SYNC = R.call("DiskIO::flush") | V.S_REACHING
SYNC_FNS = [
    ("DiskIO::write_allocation_journal", 1),
    ("DiskIO::clear_allocation_journal", 1),
    ("DiskIO::retire_extents_unjournaled", 2),
    ("DiskIO::batch_write_inner", 2),
    ("DiskIO::write_store_metadata", 1),
    ("DiskIO::write_metadata", 1),
]


def call_is_self_synced(body, nid, depth=0):
    """the callee of this write-reaching call fsyncs every device write it makes before it returns normally (so the call
    needs no fsync after it): lets a write+fsync pair be extracted into a helper without changing any verdict"""
    prog = body.prog
    if depth > 2:
        return False
    ts = [t for t in prog.targets(body.nodes[nid].ev) if t and t in prog.bodies]
    if not ts:
        return False
    for t in ts:
        tb = prog.bodies[t]
        w = [x for x in V.W_REACHING(tb) if not call_is_self_synced(tb, x, depth + 1)]
        raw = [x for x in w]
        s = SYNC(tb)
        if not V.W_REACHING(tb):
            return False
        if raw and (not s or not _self_synced(tb, raw, s)):
            return False
    return True


def _self_synced(body, w, s):
    errs = set(A.error_nodes(body))
    w = [x for x in w if not call_is_self_synced(body, x)]
    for a in w:
        r, _ps = A.reach(body, A.succs(body, a), blocked_nodes=set(s) | errs)
        if any(x in r for x in body.return_nodes()):
            return False
    return True


def check_sync(ctx):
    for name, floor in SYNC_FNS:
        inst = "C02.sync/" + name.split("::")[-1]
        body = ctx.fn(name, inst)
        if body is None:
            continue
        w = ctx.sites(body, V.W_REACHING, inst, floor=floor, what="device-write-reaching calls")
        s0 = SYNC(body)
        if w and not _self_synced(body, w, s0):
            # the fsync may legitimately be hoisted to the callers: then every call site is followed, in its caller, by an
            # fsync(-reaching call) before that caller returns normally (durability only needs *a* later fsync; the ordering
            # barriers of the retirement transaction are C03.bracket/barriers)
            callers = list(ctx.prog.call_sites(name))
            hoisted = bool(callers)
            for cb, cn in callers:
                sy = [x for x in SYNC(cb) if x != cn.id]
                errs = set(A.error_nodes(cb))
                r, _ps = A.reach(cb, A.succs(cb, cn.id), blocked_nodes=set(sy) | errs)
                if any(x in r for x in cb.return_nodes()):
                    hoisted = False
            if hoisted:
                for cb, cn in callers:
                    sy = [x for x in SYNC(cb) if x != cn.id]
                    R.follow(ctx, inst, cb, [cn.id], sy, "device write (fsync hoisted to the caller) is followed by fsync before a normal return", b_desc="DiskIO::flush")
                continue
        w_eff = [x for x in w if not call_is_self_synced(body, x)]
        if w and not w_eff:
            ctx.ok(inst, "FOLLOW", body.path, "every device write goes through a callee that fsyncs it before returning", body.where(w[0]))
            continue
        s = ctx.sites(body, SYNC, inst, floor=1, what="DiskIO::flush / fsync")
        R.follow(ctx, inst, body, w_eff, s, "device write is followed by fsync before a normal return", b_desc="DiskIO::flush")
    # every other product function that calls a raw write primitive *directly* must be in the table
    # or be one of the leaf writers whose callers are in the table
    inst = "C02.sync/flush-body"
    body = ctx.fn("DiskIO::flush", inst)
    if body is not None:
        fs = ctx.sites(body, R.call(*V.P_SYNC), inst, floor=1, what="fsync primitive")
        ew = ctx.sites(body, R.call("DiskIO::ensure_writable"), inst, floor=1)
        R.dom(ctx, inst, body, ew, fs, "ensure_writable dominates fsync", a_desc="ensure_writable")
        # the Ok return is not reachable on the edge taken when fsync fails (-1)
        oks = A.ok_nodes(body)
        if not oks:
            ctx.anchor_missing(inst, "DiskIO::flush has no Ok(..) return")
        for f in fs:
            bad_edges = failing_edges(body, f, -1)
            if not bad_edges:
                ctx.fail(inst, "GUARD", body.path, "fsync result is never compared (error ignored)", body.where(f))
                continue
            for (sw, label) in bad_edges:
                tgt = [s for (s, l) in body.nodes[sw].succ if l == label]
                r, ps = A.reach(body, tgt)
                good = not any(o in r for o in oks)
                ctx.check(good, inst, "GUARD", body.path, "Ok return unreachable when fsync returns -1", body.where(sw))


def eval_cmp(op, a, b):
    try:
        return {"Eq": a == b, "Ne": a != b, "Lt": a < b, "Le": a <= b, "Gt": a > b, "Ge": a >= b}[op]
    except KeyError:
        return None


def failing_edges(body, call_nid, value):
    """switch edges taken when the integer result of call_nid equals `value`"""
    out = []
    for s in A.switches(body):
        info = A.switch_info(body, s)
        root = info.root
        if root.k == "bin" and root.extra in ("Eq", "Lt"):
            a, b = root.a
            av = _int_or_call(a, call_nid, value)
            bv = _int_or_call(b, call_nid, value)
            if av is None or bv is None:
                continue
            if not (_is_call(a, call_nid) or _is_call(b, call_nid)):
                continue
            t = eval_cmp(root.extra, av, bv)
            if t is None:
                continue
            want = "true" if t else "false"
            for l, v in info.edge_vals.items():
                if v == want:
                    out.append((s, l))
    return out


def _strip_cast(e):
    while e.k == "cast" and e.a:
        e = e.a[0]
    return e


def _is_call(e, nid):
    e = _strip_cast(e)
    return e.k == "call" and e.nid == nid


def _int_or_call(e, nid, value):
    e = _strip_cast(e)
    if e.k == "call" and e.nid == nid:
        return value
    if e.k == "const" and "val" in (e.extra or {}):
        return e.extra["val"]
    if e.k == "un" and e.extra == "Neg" and e.a and e.a[0].k == "const" and "val" in (e.a[0].extra or {}):
        return -e.a[0].extra["val"]
    return None


# ------------------------------------------------------------------ C02.order

def journal_active_false_edges(ctx, inst, body, wj_nodes):
    """edges on which `journal_active` (= !is_empty(vector passed to write_allocation_journal)) is false"""
    tr = A.tracer(body)
    vec_locals = set()
    for w in wj_nodes:
        e = R.arg_expr(body, body.nodes[w], 1)
        for x in e.walk():
            if x.k == "local":
                vec_locals.add(x.extra)
            if x.k == "call":
                vec_locals.add(("call", x.nid))

    def root_match(e):
        # is_empty(<the journal vector>)
        if e.k == "call" and path_matches(e.extra, "Vec::is_empty"):
            for x in e.a[0].walk() if e.a else []:
                if (x.k == "local" and x.extra in vec_locals) or (x.k == "call" and ("call", x.nid) in vec_locals):
                    return True
        return False
    # journal_active = !is_empty  -> journal_active false <=> is_empty true
    edges = A.pred_edges(body, root_match, "true")
    sw = A.pred_switches(body, root_match)
    return edges, sw


def check_order(ctx, inst="C02.order"):
    body = ctx.fn("write_buffer::process_write_batch", inst)
    if body is None:
        return
    wj = ctx.sites(body, R.call("DiskIO::write_allocation_journal"), inst, exact=1)
    bw = ctx.sites(body, R.call("DiskIO::batch_write_bytes"), inst, floor=1)
    cj = ctx.sites(body, R.call("DiskIO::clear_allocation_journal"), inst, exact=1)
    pub = ctx.sites(body, R.field_write("Record", "sector"), inst, exact=1, what="store to Record.sector")
    cv = ctx.sites(body, R.call("Record::clear_value"), inst, exact=1)
    if not (wj and bw and cj and pub and cv):
        return
    ja_false, ja_sw = journal_active_false_edges(ctx, inst, body, wj)
    if len(ja_sw) < 2:
        ctx.anchor_missing(inst, "expected the journal_active predicate (= !journal_extents.is_empty()) to be tested "
                                 "before the journal write and before the journal clear; found %d tests" % len(ja_sw), body.path)
    blocked = frozenset(ja_false)
    R.dom(ctx, inst, body, wj, bw, "[journal_active] intent journal written before the data write", blocked_edges=blocked, a_desc="write_allocation_journal")
    R.dom(ctx, inst, body, bw, cj, "data write before journal clear", a_desc="batch_write_bytes")
    R.dom(ctx, inst, body, cj, pub, "[journal_active] journal cleared (fsynced) before record.sector is published", blocked_edges=blocked, a_desc="clear_allocation_journal")
    R.dom(ctx, inst, body, wj, pub, "[journal_active] intent journal before publication", blocked_edges=blocked, a_desc="write_allocation_journal")
    R.dom(ctx, inst, body, bw, pub, "data write before publication", a_desc="batch_write_bytes")
    R.dom(ctx, inst, body, pub, cv, "record.sector published before the in-memory value is dropped", a_desc="store to Record.sector")
    # Ok-guards: publication only on the Ok edge of each of the three steps
    for nm, nodes in (("write_allocation_journal", wj), ("batch_write_bytes", bw), ("clear_allocation_journal", cj)):
        err_edges = R.guard_edges_for_call(body, nodes, "Err")
        ok_edges = R.guard_edges_for_call(body, nodes, "Ok")
        if not err_edges and not ok_edges:
            ctx.fail(inst, "GUARD", body.path, "result of %s is not branched on before publication" % nm, body.where(nodes[0]))
            continue
        # from every Err edge, the publication must be unreachable without re-passing the call (retry loop)
        for (sw, label) in err_edges:
            tgt = [s for (s, l) in body.nodes[sw].succ if l == label]
            r, ps = A.reach(body, tgt, blocked_nodes=set(nodes))
            good = pub[0] not in r
            ctx.check(good, inst, "GUARD", body.path, "publication unreachable from the Err edge of %s" % nm, body.where(sw),
                      None if good else {"witness": R.witness(body, ps, r.get(pub[0]))})
    # ordering (no re-entry)
    R.never_after(ctx, inst, body, bw, wj, "no journal write after the data write")
    R.never_after(ctx, inst, body, cj, bw, "no data write after the journal clear")
    R.never_after(ctx, inst, body, pub, cj, "no journal clear after publication")
    # provenance tie: the journal image covers every prepared write (map without filter over the same vector
    # the publication loop iterates)
    tr = A.tracer(body)
    e = R.arg_expr(body, body.nodes[wj[0]], 1)
    chain = [c.extra for c in e.calls()]
    has_map = any(path_matches(c, "Iterator::map") for c in chain)
    has_collect = any(path_matches(c, "Iterator::collect") for c in chain)
    bad = [c for c in chain if any(path_matches(c, f) for f in ("Iterator::filter", "Iterator::filter_map", "Iterator::take",
                                                                "Iterator::skip", "Iterator::step_by", "Iterator::take_while",
                                                                "Iterator::skip_while"))]
    src_locals = {x.extra for x in e.walk() if x.k == "local"}
    pub_e = R.recv_expr(body, body.nodes[pub[0]])
    # the record published comes from iterating the same vector
    pub_locals = {x.extra for x in pub_e.walk() if x.k == "local"}
    pub_src = _iter_sources(body, pub_e)
    j_src = _iter_sources(body, e)
    ctx.check(has_map and has_collect and not bad, inst, "PROVENANCE", body.path,
              "journal image is an unfiltered map over the prepared writes", body.where(wj[0]),
              {"chain": chain, "filtered_by": bad})
    ctx.check(bool(pub_src & j_src), inst, "PROVENANCE", body.path,
              "published records and journal extents iterate the same vector", body.where(pub[0]),
              {"journal_sources": sorted(map(str, j_src)), "publication_sources": sorted(map(str, pub_src))})
    from rules.common import whole_collection_loop
    ok, nm, det = whole_collection_loop(body, pub[0], 0)
    ctx.check(ok and "prepared_writes" in nm, inst, "PROVENANCE", body.path, "every prepared write of the batch is published (loop over all of prepared_writes)", body.where(pub[0]), det)
    # the value stored into record.sector is the sector of the same prepared write
    val_e = R.arg_expr(body, body.nodes[pub[0]], 1)
    ctx.check(val_e.has_field("PreparedWrite", "sector"), inst, "PROVENANCE", body.path,
              "value published into record.sector is PreparedWrite.sector", body.where(pub[0]), {"expr": val_e.show()})
    # who may publish record.sector
    R.fieldw_within(ctx, inst + "/sector-writers", "Record", "sector",
                    ["write_buffer::process_write_batch", "recovery::*scan_and_rebuild_indexes", "Record::new",
                     "Record::new_from_bytes", "Record::new_deferred_with_ttl", "FeoxStore::scan_and_rebuild_indexes"], floor=2)


def _iter_sources(body, e):
    """user variables (by name) that an expression iterates / indexes"""
    out = set()
    for x in e.walk():
        if x.k == "local":
            from rules import roles
            nm = roles.name_of(body, x.extra)
            if nm:
                out.add(nm)
            # follow iterator locals: `iter` defined by into_iter(&vec)
            for d in body.defs.get(x.extra, []):
                n = body.nodes[d]
                if n.kind in ("call", "assign"):
                    sub = A.tracer(body).node_value(d)
                    for y in sub.walk():
                        if y.k == "local" and body.local_name(y.extra) and y.extra != x.extra:
                            out |= _iter_sources(body, y)
    return out


# ------------------------------------------------------------------ C02.ack

def check_partition(ctx, inst="C02.ack/partition"):
    """flush() is acknowledged when every *worker* has answered; that covers every *shard* only if the workers' shard sets
    partition 0..shards: worker w drains shards w, w + W, w + 2W, ... below sharded_buffers.len(), W is the number of workers that
    were started, every residue 0..W has a worker, and force_flush addresses exactly those W channels. A shard outside every
    worker's set is never written, yet flush() returns Ok."""
    b = ctx.fn("write_buffer::flush_worker_shards", inst)
    if b is not None:
        sb = ctx.sites(b, R.call("Iterator::step_by"), inst, exact=1)
        for x in sb:
            rg = R.arg_expr(b, b.nodes[x], 0)
            st = R.arg_expr(b, b.nodes[x], 1)
            ok = rg.k == "agg" and str(rg.extra).endswith("Range") and len(rg.a) == 2 and \
                rg.a[0].k == "field" and rg.a[0].extra[1] == "worker_id" and not any(y.k == "bin" for y in rg.a[0].walk()) and \
                rg.a[1].has_call("Vec::len") and rg.a[1].has_field("WorkerContext", "sharded_buffers") and not any(y.k == "bin" for y in rg.a[1].walk())
            ctx.check(ok, inst, "PIN", b.path, "a worker's shards are worker_id .. sharded_buffers.len()", b.where(x), {"range": rg.show()[:120]})
            ctx.check(st.k == "field" and st.extra[1] == "worker_count", inst, "PIN", b.path, "... stepped by worker_count", b.where(x), {"step": st.show()[:60]})
        # the shard drained is the one the iteration yields
        dr = ctx.sites(b, R.call("ShardedWriteBuffer::drain_entries"), inst, exact=1)
        for d in dr:
            e = R.recv_expr(b, b.nodes[d])
            ok = e.has_field("WorkerContext", "sharded_buffers") and e.has_call("Iterator::next") and not any(y.k == "bin" for y in e.walk())
            ctx.check(ok, inst, "PROVENANCE", b.path, "the shard drained is sharded_buffers[shard_id] of that iteration (no offset)", b.where(d), {"recv": e.show()[:120]})
    b = ctx.fn("WriteBuffer::start_workers", inst)
    if b is not None:
        cl = [n.id for n in b.calls() if R.call_matches(n.ev, "Ord::clamp")]
        ctx.check(len(cl) == 1, inst, "anchor", b.path, "the worker count is clamped once (found %d)" % len(cl), None)
        for c in cl:
            lo, hi = R.arg_expr(b, b.nodes[c], 1), R.arg_expr(b, b.nodes[c], 2)
            ctx.check(lo.k == "const" and (lo.extra or {}).get("val") == 1 and hi.has_call("Vec::len") and hi.has_field("WriteBuffer", "sharded_buffers"), inst, "PIN", b.path,
                      "at least one worker, at most one per shard (clamp(1, shards))", b.where(c))
        lits = [n for n in b.nodes if n.kind == "assign" and n.ev.get("rv") == "agg" and (n.ev.get("adt") or "").endswith("WorkerContext")]
        ctx.check(len(lits) == 1, inst, "anchor", b.path, "one WorkerContext literal (found %d)" % len(lits), None)
        tr = A.tracer(b)
        for n in lits:
            f = dict(zip(n.ev["fields"], [tr.operand(o) for o in n.ev["ops"]]))
            wc, wi, sh = f.get("worker_count"), f.get("worker_id"), f.get("sharded_buffers")
            ctx.check(wc is not None and any(c.nid in cl for c in wc.calls()) and not any(y.k == "bin" for y in wc.walk()), inst, "PROVENANCE", b.path,
                      "worker_count is the clamped number of workers actually started", b.where(n.id), {"expr": wc.show()[:80] if wc is not None else None})
            ctx.check(wi is not None and wi.has_call("Iterator::next") and not any(y.k == "bin" for y in wi.walk()), inst, "PROVENANCE", b.path,
                      "worker_id is the index of the enumeration over the receivers (every residue 0..W gets a worker)", b.where(n.id), {"expr": wi.show()[:80] if wi is not None else None})
            ctx.check(sh is not None and sh.has_field("WriteBuffer", "sharded_buffers"), inst, "PROVENANCE", b.path, "workers see the store's shard vector", b.where(n.id))
        # one channel and one receiver per started worker: both pushed in the loop over 0..actual_workers
        from rules.common import whole_collection_loop
        pushes = [n for n in b.calls() if R.call_matches(n.ev, "Vec::push") and R.arg_expr(b, n, 0).has_field("WriteBuffer", "worker_channels")]
        ctx.check(len(pushes) == 1, inst, "anchor", b.path, "one push onto worker_channels (found %d)" % len(pushes), None)
        for pn in pushes:
            # the loop bound: Range{0, actual_workers}
            rgs = [tr.node_value(n.id) for n in b.nodes if n.kind == "assign" and n.ev.get("rv") == "agg" and str(n.ev.get("adt") or "").endswith("ops::Range")]
            ok = any(len(r.a) == 2 and r.a[0].k == "const" and (r.a[0].extra or {}).get("val") == 0 and any(c.nid in cl for c in r.a[1].calls()) and not any(y.k == "bin" for y in r.a[1].walk()) for r in rgs)
            ctx.check(ok, inst, "PIN", b.path, "channels are created for 0..actual_workers", b.where(pn.id))


def check_all_workers(ctx, inst, body):
    """every flush round addresses *all* workers: a worker that already drained its shards (count == 0) may still be writing
    them - or failing to - so skipping "idle" workers acknowledges data that is not durable and loses the error"""
    from rules import roles
    pw = roles.locals_with_role(body, "pending_workers")
    n_defs = 0
    FILTERS = ("Iterator::filter", "Iterator::filter_map", "Iterator::take", "Iterator::skip", "Iterator::step_by",
               "Iterator::take_while", "Iterator::skip_while", "Vec::retain", "Iterator::flat_map")
    for l in pw:
        for d in body.defs.get(l, []):
            v = A.tracer(body, transparent=False).node_value(d)
            n_defs += 1
            chain = [c.extra for c in v.calls()]
            rng = [x for x in v.walk() if x.k == "agg" and x.extra and x.extra.split("::")[-1] == "Range" and "ops::" in x.extra]
            full = bool(rng) and len(rng[0].a) == 2 and (rng[0].a[0].extra or {}).get("val") == 0 and rng[0].a[1].has_field("WriteBuffer", "worker_channels") and rng[0].a[1].has_call("Vec::len")
            bad = [c for c in chain if any(path_matches(c, f) for f in FILTERS)]
            ctx.check(full and not bad and any(path_matches(c, "Iterator::collect") for c in chain), inst, "PROVENANCE", body.path,
                      "a flush round asks every worker (0..worker_channels.len(), unfiltered)", body.where(d), {"expr": v.show(), "filtered_by": bad})
    ctx.check(n_defs == 2, inst, "anchor", body.path, "pending_workers is (re)built twice: initially and after retirements released space (found %d)" % n_defs, None)
    for n in body.calls():
        if R.call_matches(n.ev, "Vec::retain") and "pending_workers" in _names(body, R.recv_expr(body, n)):
            ctx.fail(inst, "PROVENANCE", body.path, "pending_workers is filtered in place", body.where(n.id))


def check_ack(ctx):
    inst = "C02.ack/flush_all"
    body = ctx.fn("FeoxStore::flush_all", inst)
    if body is not None:
        ff = ctx.sites(body, R.call("WriteBuffer::force_flush"), inst, exact=1)
        # the metadata write, or the call of the helper that performs it
        wm = ctx.sites(body, R.call("DiskIO::write_store_metadata", "DiskIO::write_metadata") | R.call_reaching("DiskIO::write_store_metadata", within="FeoxStore"), inst, floor=1)
        if ff and wm:
            # on the persistent, initialised path with a write buffer
            R.guard(ctx, inst, body, wm, R.guard_edges_for_call(body, ff, "Ok"),
                    "metadata written only after force_flush returned Ok", require_edges=True) if False else None
            # metadata write is not reachable from force_flush's Err edge
            err_edges = R.guard_edges_for_call(body, ff, "Err")
            if not err_edges:
                ctx.fail(inst, "GUARD", body.path, "force_flush result is not branched on", body.where(ff[0]))
            for (sw, label) in err_edges:
                tgt = [s for (s, l) in body.nodes[sw].succ if l == label]
                r, ps = A.reach(body, tgt)
                good = not any(w in r for w in wm)
                ctx.check(good, inst, "GUARD", body.path, "write_store_metadata unreachable from force_flush's Err edge", body.where(sw))
            # whenever a write buffer exists, force_flush precedes the metadata write: block the
            # `write_buffer = None` edge and require dominance
            none_edges = A.pred_edges(body, lambda e: e.has_field("FeoxStore", "write_buffer"), "None")
            if not none_edges:
                ctx.anchor_missing(inst, "flush_all does not test self.write_buffer", body.path)
            R.dom(ctx, inst, body, ff, wm, "[write_buffer = Some] force_flush dominates write_store_metadata",
                  blocked_edges=frozenset(none_edges), a_desc="force_flush")
            # the result of write_store_metadata reaches the caller
            R.noerr_silent(ctx, inst, body, wm) if hasattr(R, "noerr_silent") else None
    inst = "C02.ack/force_flush"
    body = ctx.fn("WriteBuffer::force_flush", inst)
    if body is not None:
        oks = ctx.sites(body, R.returns("ok"), inst, floor=1)
        # Ok only when pending_workers.is_empty()
        def is_pending_empty(e):
            return e.k == "call" and path_matches(e.extra, "Vec::is_empty") and _names(body, e) & {"pending_workers"}
        edges = A.pred_edges(body, is_pending_empty, "true")
        R.guard(ctx, inst, body, oks, edges, "Ok(()) only when no worker is pending")
        # Ok only when first_error is None
        def is_first_error(e):
            return bool(_names(body, e) & {"first_error"})
        edges = A.pred_edges(body, is_first_error, "None")
        R.guard(ctx, inst, body, oks, edges, "Ok(()) only when no worker reported an error")
        check_all_workers(ctx, inst, body)
        fpd = ctx.sites(body, R.call("write_buffer::flush_pending_deletions"), inst, exact=1)
        R.dom(ctx, inst, body, fpd, oks, "retirements flushed before Ok(())", a_desc="flush_pending_deletions")
        for f in fpd:
            errs_e = R.guard_edges_for_call(body, [f], "Err")
            for (sw, label) in errs_e:
                tgt = [s for (s, l) in body.nodes[sw].succ if l == label]
                r, ps = A.reach(body, tgt, blocked_nodes=set(fpd))
                good = not any(o in r for o in oks)
                ctx.check(good, inst, "GUARD", body.path, "Ok(()) unreachable from flush_pending_deletions' Err edge", body.where(sw))
            if not errs_e:
                ctx.fail(inst, "GUARD", body.path, "flush_pending_deletions result not branched on", body.where(f))
        # request literal: defer_retirements: true, response: Some(tx)
        reqs = ctx.sites(body, R.aggregate("FlushRequest"), inst, exact=1)
        for rq in reqs:
            ev = body.nodes[rq].ev
            f = dict(zip(ev["fields"], ev["ops"]))
            resp = A.tracer(body).operand(f.get("response"))
            ctx.check(resp.k == "agg" and resp.extra.endswith("Option::Some"), inst, "PIN", body.path,
                      "flush request carries a response channel (Some(tx))", body.where(rq), {"expr": resp.show()})
            d = f.get("defer_retirements", {})
            ctx.check(d.get("k") == "const" and d.get("val") == 1, inst, "PIN", body.path,
                      "flush request defers retirements to the caller (defer_retirements: true)", body.where(rq))
        send = ctx.sites(body, R.call("Sender::send"), inst, exact=1)
        recv = ctx.sites(body, R.call("Receiver::recv"), inst, exact=1)
        # every receiver that is awaited was pushed next to a successful send, and nothing else feeds `responses`
        resp_push = ctx.sites(body, R.call("Vec::push").filter(lambda b, n: "responses" in _names(b, R.recv_expr(b, n)), "onto responses"), inst, exact=1)
        send_ok = R.guard_edges_for_call(body, send, "Ok")
        R.guard(ctx, inst, body, resp_push, send_ok, "a response receiver is queued only after its request was sent (Ok edge of send)")
        for rv in recv:
            o = A.origins(body, R.recv_expr(body, body.nodes[rv]))
            from rules import roles
            names = {roles.name_of(body, l) for (k, l) in o if k == "local"}
            ctx.check("responses" in names, inst, "PROVENANCE", body.path, "the receiver awaited comes from the queued responses",
                      body.where(rv), {"origins": sorted(n for n in names if n)})
        # a worker answering Ok(true) is pushed back onto pending_workers
        push = ctx.sites(body, R.call("Vec::push").filter(lambda b, n: "pending_workers" in _names(b, R.recv_expr(b, n)), "onto pending_workers"), inst, floor=1)
        check_error_absorbed(ctx, inst, body, recv, "first_error")
    inst = "C02.ack/flush_worker_shards"
    body = ctx.fn("write_buffer::flush_worker_shards", inst)
    if body is not None:
        dr = ctx.sites(body, R.call("ShardedWriteBuffer::drain_entries"), inst, exact=1)
        rq = ctx.sites(body, R.call("ShardedWriteBuffer::requeue_entries"), inst, exact=1)
        # every drained shard is requeued (or was empty -> `continue`)
        def entries_empty(e):
            return e.k == "call" and path_matches(e.extra, "Vec::is_empty") and e.a and e.a[0].k == "call" and path_matches(e.a[0].extra, "drain_entries")
        empty_edges = A.pred_edges(body, entries_empty, "true")
        back = _loop_exits_after(body, dr)
        r_ok = True
        for a in dr:
            r, ps = A.reach(body, A.succs(body, a), blocked_nodes=set(rq), blocked_edges=set(empty_edges))
            bad = [x for x in body.return_nodes() + dr if x in r]
            ctx.check(not bad, inst, "FOLLOW", body.path, "every non-empty drained shard passes requeue_entries before the next shard / return",
                      body.where(a), None if not bad else {"witness": R.witness(body, ps, r.get(bad[0]))})
        # Ok(has_retries) only when first_error is None
        oks = ctx.sites(body, R.returns("ok"), inst, floor=1)
        pwb = ctx.sites(body, R.call("write_buffer::process_write_batch"), inst, exact=1)
        # an Err from process_write_batch sets first_error: from the Err edge every path to an Ok return is one of the
        # reasoned arms (OutOfSpace|AllocationFailed after space was released => Ok(true))
        ok_plain = [o for o in oks if not _agg_const_true(body, o)]
        def is_first_error(e):
            return bool(_names(body, e) & {"first_error"})
        none_edges = A.pred_edges(body, is_first_error, "None")
        R.guard(ctx, inst, body, ok_plain, none_edges, "Ok(has_retries) only when first_error is None")
        ok_true = [o for o in oks if _agg_const_true(body, o)]
        if ok_true:
            # Ok(true) on the out-of-space arm only after flush_pending_deletions and a changed released_sectors counter
            fpd = ctx.sites(body, R.call_or_thin_helper("write_buffer::flush_pending_deletions"), inst, floor=2)
            R.dom(ctx, inst, body, fpd, ok_true, "Ok(true) retry arm only after retirements were flushed", a_desc="flush_pending_deletions")
            def rel_changed(e):
                return e.k == "bin" and e.extra == "Eq" and e.has_field("RetirementQueue", "released_sectors")
            edges = []
            for s in A.pred_switches(body, rel_changed):
                info = A.switch_info(body, s)
                want = "false"
                edges += [(s, l) for l, v in info.edge_vals.items() if v == want]
            R.guard(ctx, inst, body, ok_true, edges, "Ok(true) retry arm only when released_sectors changed")


def result_error_edges(body, call_nids):
    """switch edges on which the result of one of the calls is Err, at the outer level
    or nested inside the Ok payload (`Ok(Err(_))`)"""
    keys = A.call_roots(body, call_nids)
    cs = set(call_nids)
    out = []
    for s in A.switches(body):
        info = A.switch_info(body, s)
        root = info.root
        hit = root.key() in keys
        if not hit:
            # payload of the call result: field(downcast(call))
            x = root
            depth = 0
            while x.k in ("field", "downcast") and x.a and depth < 6:
                x = x.a[0]
                depth += 1
            hit = depth > 0 and x.key() in keys
        if hit:
            for l, v in info.edge_vals.items():
                if v == "Err":
                    out.append((s, l, root.key()))
    # drop re-tests of the same value (drop elaboration re-reads the discriminant after the match):
    # keep a switch only if it can be reached from the call without passing another test of the same root
    res = []
    for (s, l, k) in out:
        others = {s2 for (s2, _, k2) in out if k2 == k and s2 != s}
        others |= {s2 for s2 in A.switches(body) if s2 != s and A.switch_info(body, s2).root.key() == k}
        starts = []
        for c in call_nids:
            starts += A.succs(body, c)
        r, _ = A.reach(body, starts, blocked_nodes=others, sensitive=False)
        if s in r:
            res.append((s, l))
    return res


def check_error_absorbed(ctx, inst, body, call_nids, err_local_name):
    """every Err outcome of the calls is recorded in the named error accumulator
    (or one was already recorded) before the loop continues / the function returns Ok"""
    edges = result_error_edges(body, call_nids)
    if len(edges) < 1:
        ctx.fail(inst, "GUARD", body.path, "Err outcome of the awaited response is never inspected", body.where(call_nids[0]) if call_nids else None)
        return
    from rules import roles
    locs = roles.locals_with_role(body, err_local_name)
    sets = []
    for l in locs:
        for d in body.defs.get(l, []):
            v = A.tracer(body, transparent=False).node_value(d)
            if v.k == "agg" and (v.extra or "").endswith("Option::Some"):
                sets.append(d)
    already = A.pred_edges(body, lambda e: e.k == "local" and e.extra in locs, "Some")
    nexts = R.call("Iterator::next")(body)
    for (sw, label) in edges:
        tgt = [s for (s, l) in body.nodes[sw].succ if l == label]
        r, ps = A.reach(body, tgt, blocked_nodes=set(sets), blocked_edges=set(already))
        bad = [x for x in nexts + A.ok_nodes(body) if x in r]
        ctx.check(not bad, inst, "FOLLOW", body.path, "an Err outcome is recorded in `%s` before the loop continues" % err_local_name,
                  body.where(sw), None if not bad else {"witness": R.witness(body, ps, r.get(bad[0]))})


def _agg_const_true(body, nid):
    ev = body.nodes[nid].ev
    ops = ev.get("ops", [])
    return bool(ops) and ops[0].get("k") == "const" and ops[0].get("val") == 1


def _names(body, e):
    from rules.common import names_of
    return names_of(body, e)


def _loop_exits_after(body, nodes):
    return []


# ------------------------------------------------------------------ C02.retire / drop

def check_retire(ctx):
    inst = "C02.retire"
    body = ctx.fn("write_buffer::process_deletions", inst)
    if body is None:
        return
    ret = ctx.sites(body, R.call("Record::retire_extent"), inst, exact=1)
    R.guard_call(ctx, inst, body, ret, R.call("Record::successor_is_durable_or_deleted"), "true",
                 "extent retired only when the successor is durable or deleted")
    # extents reach DiskIO::retire_extents only after retire_extent
    re = ctx.sites(body, R.call("DiskIO::retire_extents"), inst, exact=1)
    pushes = ctx.sites(body, R.call("Vec::push").filter(lambda b, n: _same_vec(b, n, re), "onto the vector passed to retire_extents"), inst, floor=1)
    R.dom(ctx, inst, body, ret, pushes, "retire_extent precedes queuing the extent for marker writes", a_desc="Record::retire_extent")


def _reachable_without(body, node, blocked_edges):
    r, _ = A.reach(body, [body.entry], blocked_edges=frozenset(blocked_edges), sensitive=False)
    return node in r


def check_nonblocking_inventory(ctx):
    """an operation that silently skips its work when a lock or channel is busy cannot carry an acknowledgement: non-blocking
    acquisitions / sends exist only at the reviewed best-effort sites (buffer-full trigger, periodic trigger, eviction sweep);
    everything on the acknowledged path (force_flush, workers, retirement, cache invalidation) blocks"""
    inst = "C02.ack/nonblocking"
    table = {
        "WriteBuffer::trigger_flush": ("Sender::try_send",),          # buffer-full hint; the periodic flusher and flush() cover the rest
        "WriteBuffer::start_workers": ("Sender::try_send",),          # periodic flusher's hint (closure)
        "ClockCache::evict_entries": ("Mutex::try_lock",),            # one sweep at a time; the next insert sweeps again
    }
    sel = ("RwLock::try_write", "RwLock::try_read", "Mutex::try_lock", "Sender::try_send", "Receiver::try_recv", "RwLock::try_write_for",
           "RwLock::try_read_for", "Mutex::try_lock_for", "Sender::send_timeout", "OnceLock::set")
    found = 0
    for b in ctx.prog.product_bodies():
        for n in b.calls():
            hit = [t for t in sel[:9] if R.call_matches(n.ev, t)]
            if not hit:
                continue
            found += 1
            o = R.owner_fn(ctx.prog, b)
            ok = any(path_matches(o, k) and hit[0] in v for k, v in table.items())
            ctx.check(ok, inst, "FORBID", o, "non-blocking acquisition / send only at the reviewed best-effort sites (found %s)" % hit[0], b.where(n.id))
    ctx.check(found == 3, inst, "anchor", "-", "non-blocking sites in the product (expected 3, found %d)" % found, None)
    # the acknowledged path sends its requests with a blocking send
    b = ctx.fn("WriteBuffer::force_flush", inst)
    if b is not None:
        ctx.sites(b, R.call("Sender::send"), inst, floor=1)


def check_journal_validity(ctx):
    """the intent journal of a multi-record batch lists back-to-back extents: recovery must accept such an image, or the torn
    writes it covers are never repaired and the strict scan refuses the whole file (shared with C03.journal-validity)"""
    from rules import C03
    C03.check_journal_validity(ctx, "C02.journal-validity", None)


def check_retirement_wait(ctx):
    """flush() must not acknowledge while another flusher still holds retirements it took from the queue (their markers are
    not durable yet): flush_pending_deletions looks at the queue only after it has taken the pass mutex
    (RetirementQueue.flush), so a flusher that finds the queue empty has waited for the pass in progress"""
    inst = "C02.ack/retirement-wait"
    b = ctx.fn("write_buffer::flush_pending_deletions", inst)
    if b is None:
        return
    def on(name):
        return lambda bb, n: R.recv_expr(bb, n).has_field("RetirementQueue", name) or R.recv_expr(bb, n).has_field(None, name)
    fl = ctx.sites(b, R.call("Mutex::lock").filter(on("flush"), "retirement_queue.flush.lock()"), inst, exact=1)
    pd = ctx.sites(b, R.call("Mutex::lock").filter(on("pending"), "retirement_queue.pending.lock()"), inst, floor=1)
    R.dom(ctx, inst, b, fl, pd, "the queue is inspected only under the retirement-pass mutex", a_desc="retirement_queue.flush.lock()")
    rets = [n.id for n in b.nodes if n.kind == "assign" and not n.ev["dst"]["p"] and n.ev["dst"]["l"] == 0]
    R.dom(ctx, inst, b, fl, rets, "every answer (including `nothing pending`) is given after waiting for the pass in progress", a_desc="retirement_queue.flush.lock()")
    # the guard is held until the end (bound to a named local, not dropped at once)
    for x in fl:
        d = b.nodes[x].ev.get("dest", {}).get("l")
        ctx.check(d is not None and (b.local_name(d) or "").startswith("_") or b.local_name(d), inst, "HELD", b.path, "the pass mutex guard is bound for the whole function", b.where(x))
        drops = [n.id for n in b.nodes if n.kind == "drop" and n.ev.get("pl", {}).get("l") == d]
        pd_after = R.call("write_buffer::process_deletions")(b)
        for dr in drops:
            r, _ = A.reach(b, A.succs(b, dr), sensitive=False)
            ctx.check(not any(p in r for p in pd_after), inst, "HELD", b.path, "the pass mutex is not released before the retirements are processed", b.where(dr))


def check_journal_position(ctx):
    """an acknowledged batch stays safe against a later torn journal write only if every new journal record goes to the slot
    that does not hold the newest valid one, across restarts too (shared with C04.position)"""
    from rules import C04
    C04.check_position(ctx, "C02.journal-position")


def check_successor(ctx, inst="C02.successor"):
    """Record::successor_is_durable_or_deleted is the licence to destroy an acknowledged generation: its `true` must mean
    a durable (sector > 0) or deleted (refcount == 0, no successor) tail was actually reached, and the memo flag
    successor_safe must be set only once that verdict is known"""
    b = ctx.fn("Record::successor_is_durable_or_deleted", inst)
    if b is None:
        return
    def on_field(name):
        return lambda bb, n: R.recv_expr(bb, n).has_field("Record", name)
    stores = ctx.sites(b, R.call("Atomic::store", "AtomicBool::store").filter(on_field("successor_safe"), "on successor_safe"), inst, floor=2)
    falses = [n.id for n in b.nodes if n.kind == "assign" and not n.ev["dst"]["p"] and n.ev["dst"]["l"] == 0 and n.ev["rv"] == "use" and n.ev["a"].get("val") == 0]
    trues = [n.id for n in b.nodes if n.kind == "assign" and not n.ev["dst"]["p"] and n.ev["dst"]["l"] == 0 and n.ev["rv"] == "use" and n.ev["a"].get("val") == 1]
    ctx.check(len(falses) == 1, inst, "anchor", b.path, "one `false` verdict (found %d)" % len(falses), None)
    ctx.check(len(trues) >= 1, inst, "anchor", b.path, "`true` verdicts present", None)
    for st in stores:
        v = b.nodes[st].ev["args"][1]
        ctx.check(v.get("k") == "const" and v.get("val") == 1, inst, "PIN", b.path, "the memo is only ever set to true", b.where(st))
        r, _ = A.reach(b, A.succs(b, st))
        bad = [x for x in falses if x in r]
        ctx.check(not bad, inst, "NEVER-AFTER", b.path, "successor_safe is memoised only after the verdict is known (no `false` reachable after the store)", b.where(st),
                  None if not bad else {"false_at": b.where(bad[0])})
        # and never inside the walk: a store in the loop would flag generations of a chain whose tail is still undecided
        r2, _ = A.reach(b, A.succs(b, st))
        loads = R.call("Atomic::load", "AtomicU64::load", "AtomicU32::load").filter(on_field("sector"), "sector load")(b)
        ctx.check(not any(x in r2 for x in loads), inst, "NEVER-AFTER", b.path, "no generation is flagged while the chain is still being walked", b.where(st))
    # the only way to `false`: a live tail (refcount != 0) without successor
    rc = ctx.sites(b, R.call("Atomic::load", "AtomicU32::load", "AtomicUsize::load", "AtomicU64::load").filter(on_field("refcount"), "refcount load"), inst, exact=1)
    def rc_zero(e):
        return e.k == "bin" and e.extra == "Eq" and any(c.nid in rc for c in e.calls()) and e.has_const(val=0)
    R.guard(ctx, inst, b, falses, A.pred_edges(b, rc_zero, "false"), "`false` only for a live tail generation (refcount != 0)")
    # leaving the walk with `true` needs sector > 0, the memo, or a dead tail
    sec = ctx.sites(b, R.call("Atomic::load", "AtomicU64::load", "AtomicU32::load").filter(on_field("sector"), "sector load"), inst, exact=1)
    def sec_pos(e):
        return e.k == "bin" and e.extra == "Lt" and e.a[0].k == "const" and (e.a[0].extra or {}).get("val") == 0 and any(c.nid in sec for c in e.a[1].calls())
    ctx.check(len(A.pred_switches(b, sec_pos)) == 1, inst, "PIN", b.path, "durable means sector > 0 (strict)", None)
    edges = A.pred_edges(b, sec_pos, "true")
    # a dead generation (refcount == 0) ends the walk only if it is the *tail*: its successor link is read again after the
    # refcount and found empty. A dead generation that has a successor was merely superseded before it was written and the
    # walk must go on through it (its successor may be a live, not yet durable generation that still borrows our extent).
    succ_gets = R.call("OnceLock::get").filter(lambda bb, n: R.recv_expr(bb, n).has_field("Record", "successor"), "successor.get")(b)
    rc_true = A.pred_edges(b, rc_zero, "true")
    tail_gets = []
    for g in succ_gets:
        # is this get reachable from entry only through a refcount == 0 edge?
        if not _reachable_without(b, g, rc_true):
            tail_gets.append(g)
    ctx.check(len(tail_gets) >= 1, inst, "PIN", b.path, "the successor link of a dead generation is re-read after its refcount (tail test)", None)
    edges += R.guard_edges_for_call(b, tail_gets, "None")
    memo = R.call("Atomic::load", "AtomicBool::load").filter(on_field("successor_safe"), "memo load")(b)
    ctx.check(len(memo) == 2, inst, "anchor", b.path, "two memo loads (self, walked generation)", None)
    edges += A.pred_edges(b, lambda e: any(c.nid in memo for c in e.calls()) and e.k == "call", "true")
    # `None` successor of self (nothing newer exists)
    first_succ = R.call("OnceLock::get").filter(lambda bb, n: R.recv_expr(bb, n).has_arg(idx=1) and not any(x.k == "local" for x in R.recv_expr(bb, n).walk()), "self.successor")(b)
    edges += R.guard_edges_for_call(b, first_succ, "None")
    R.guard(ctx, inst, b, trues + stores, edges, "`true` (and the memo) only after reaching a durable / memoised / deleted generation or when no successor exists")
    # who gets the memo (added after C03-i): the flag says "MY successor is durable or deleted", so only generations the walk has
    # moved *past* may be collected - never the generation it stopped at (a durable generation is not thereby licensed to be
    # retired before its own replacement reaches the device). Shape: every push onto the collected vector pushes the walked
    # generation itself, and the walker is re-assigned (to its successor) before the walk can end or the memo be written.
    walker = set()
    for s in sec:
        walker |= {x.extra for x in R.recv_expr(b, b.nodes[s]).walk() if x.k == "local" and b.local_name(x.extra)}
    ctx.check(len(walker) == 1, inst, "anchor", b.path, "one walker local (the generation whose sector is tested), found %d" % len(walker), None)
    pushes = R.call("Vec::push", "VecDeque::push_back", "SmallVec::push")(b)
    ctx.check(len(pushes) >= 1, inst, "anchor", b.path, "generations passed by the walk are collected for the memo (pushes found: %d)" % len(pushes), None)
    if len(walker) == 1:
        w = next(iter(walker))
        redefs = [n.id for n in b.nodes if n.kind in ("assign", "call") and (n.ev.get("dst") or n.ev.get("dest") or {}).get("l") == w
                  and not (n.ev.get("dst") or n.ev.get("dest") or {}).get("p")]
        ends = set(stores) | set(trues) | set(b.return_nodes())
        for p in pushes:
            v = R.arg_expr(b, b.nodes[p], 1)
            is_w = (v.k == "local" and v.extra == w) or (v.k == "call" and "clone" in str(v.extra) and v.a and v.a[0].k == "local" and v.a[0].extra == w)
            ctx.check(is_w, inst, "PROVENANCE", b.path, "the generation collected for the memo is the walked one itself", b.where(p), {"pushed": v.show()[:120]})
            r3, ps3 = A.reach(b, A.succs(b, p), blocked_nodes=set(redefs))
            bad = [x for x in ends if x in r3]
            ctx.check(not bad, inst, "FOLLOW", b.path,
                      "a collected generation has been walked past (the walker moves to its successor) before the walk can end: the generation the walk stops at never gets the memo",
                      b.where(p), None if not bad else {"rule": "the memo store / verdict is reachable from the push without the walker being re-assigned",
                                                        "witness": R.witness(b, ps3, r3.get(bad[0]))})
    # nobody else sets the memo
    n_other = 0
    for bb in ctx.prog.product_bodies():
        if bb is b:
            continue
        n_other += len(R.call("Atomic::store", "Atomic::swap", "Atomic::fetch_or", "Atomic::compare_exchange", "AtomicBool::store", "AtomicBool::swap", "AtomicBool::fetch_or").filter(on_field("successor_safe"), "memo write")(bb))
    ctx.check(n_other == 0, inst, "CALLERS", "-", "successor_safe is written only by successor_is_durable_or_deleted (found %d other writers)" % n_other, None)


def _same_vec(body, n, re_nodes):
    """push receiver is the vector passed (by reference) to the retire_extents call"""
    recv = R.recv_expr(body, n)
    rl = {x.extra for x in recv.walk() if x.k == "local"}
    for r in re_nodes:
        e = R.arg_expr(body, body.nodes[r], 1)
        if rl & {x.extra for x in e.walk() if x.k == "local"}:
            return True
    return False


def check_drop(ctx):
    inst = "C02.drop"
    bodies = [b for b in ctx.prog.product_bodies() if b.impl_trait and b.impl_trait.endswith("ops::Drop") and (b.impl_self or "").endswith("FeoxStore")]
    if len(bodies) != 1:
        ctx.anchor_missing(inst, "impl Drop for FeoxStore: %d bodies" % len(bodies))
    else:
        body = bodies[0]
        fs = ctx.sites(body, R.call("WriteBuffer::finish_shutdown", "WriteBuffer::complete_shutdown"), inst, floor=1)
        wm = ctx.sites(body, R.call("DiskIO::write_store_metadata") | R.call_reaching("DiskIO::write_store_metadata", within="FeoxStore"), inst, exact=1)
        sh = ctx.sites(body, R.call("DiskIO::shutdown"), inst, exact=1)
        # write_buffer is None for memory-only / read-only stores: on the Some edge the drain dominates
        none_edges = A.pred_edges(body, lambda e: (e.has_field("FeoxStore", "write_buffer") or (e.k == "call" and path_matches(e.extra, "Option::take"))), "None")
        R.dom(ctx, inst, body, fs, wm, "[write_buffer = Some] workers drained and joined before metadata is written",
              blocked_edges=frozenset(none_edges), a_desc="finish_shutdown")
        R.never_after(ctx, inst, body, wm, fs, "no worker shutdown after the metadata write")
        R.never_after(ctx, inst, body, sh, wm, "no metadata write after DiskIO::shutdown")
        R.never_after(ctx, inst, body, sh, fs, "no worker drain after DiskIO::shutdown")
    inst = "C02.drop/worker-final-drain"
    body = ctx.fn("write_buffer::write_buffer_worker", inst)
    if body is not None:
        fl = ctx.sites(body, R.call("write_buffer::flush_worker_shards"), inst, floor=2)
        final = [f for f in fl if _const_arg(body, f, 2) == 1]
        ctx.check(len(final) >= 1, inst, "PIN", body.path, "a final flush_worker_shards(.., flush_retirements = true) exists", None)
        # every path from the receive loop to return passes the final drain when shutdown is set
        sh_true = A.pred_edges(body, lambda e: e.has_field("WorkerContext", "shutdown"), "true")
        sh_false = A.pred_edges(body, lambda e: e.has_field("WorkerContext", "shutdown"), "false")
        sws = A.pred_switches(body, lambda e: e.has_field("WorkerContext", "shutdown"))
        ctx.check(len(sws) >= 2, inst, "GUARD", body.path, "shutdown flag tested in the loop and after it", None)
        if final and sws:
            # the last shutdown test (closest to return): its true edge leads to the final drain
            r, ps = A.reach(body, [body.entry], blocked_nodes=set(final), blocked_edges=set([(s, l) for (s, l) in sh_false if s == max(sws)]))
            bad = [x for x in body.return_nodes() if x in r]
            ctx.check(not bad, inst, "FOLLOW", body.path, "[shutdown = true at loop exit] return only after the final drain",
                      None, None if not bad else {"witness": R.witness(body, ps, r.get(bad[0]))})


def _const_arg(body, nid, idx):
    args = body.nodes[nid].ev["args"]
    if idx < len(args) and args[idx].get("k") == "const":
        return args[idx].get("val")
    return None


def check_worker(ctx):
    """what the flusher may skip, and how the worker is asked to flush"""
    inst = "C02.ack/selection"
    b = ctx.fn("write_buffer::process_write_batch", inst)
    if b is not None:
        prep = ctx.sites(b, R.call("write_buffer::prepare_record_data"), inst, exact=1)
        # an Insert/Update entry is written iff it is not on disk yet (sector == 0) and is live (refcount > 0) or already reserved
        def on_disk(e):
            return e.k == "bin" and e.extra == "Eq" and e.has_field("Record", "sector") and e.has_const(val=0) and e.has_call("Atomic::load")
        def live(e):
            return e.k == "bin" and e.extra == "Lt" and e.a[0].k == "const" and (e.a[0].extra or {}).get("val") == 0 and e.a[1].has_field("Record", "refcount")
        def reserved(e):
            return e.k == "call" and path_matches(e.extra, "write_buffer::reserved_sector")
        ctx.check(len(A.pred_switches(b, on_disk)) >= 1 and len(A.pred_switches(b, live)) == 1 and len(A.pred_switches(b, reserved)) >= 1, inst, "PIN", b.path,
                  "the flusher's skip test is `sector == 0 && (refcount > 0 || reserved)`", None)
        R.guard(ctx, inst, b, prep, A.pred_edges(b, on_disk, "true"), "a record is (re)written only while it has no durable location")
        # a live, unwritten record is never skipped: from `sector == 0` and `refcount > 0` every path reaches prepare_record_data
        for (sw, l) in A.pred_edges(b, live, "true"):
            r, ps = A.reach(b, edge_targets_(b, sw, l), blocked_nodes=set(prep))
            bad = [x for x in R.call("Iterator::next")(b) + b.return_nodes() if x in r]
            ctx.check(not bad, inst, "FOLLOW", b.path, "a live record without a durable location is always prepared for writing", b.where(sw))
        # skipping is only possible for records that are durable already, or dead (refcount == 0) and never reserved
        for (sw, l) in A.pred_edges(b, live, "false"):
            r, ps = A.reach(b, edge_targets_(b, sw, l), blocked_nodes=set(prep), blocked_edges=set(A.pred_edges(b, reserved, "None")))
            bad = [x for x in R.call("Iterator::next")(b) if x in r]
            ctx.check(not bad, inst, "GUARD", b.path, "a superseded record is skipped only if it holds no reservation", b.where(sw))
        # every prepared record is queued with its entry; a preparation failure keeps the entry for retry
        pw_push = [n for n in b.calls() if R.call_matches(n.ev, "Vec::push") and "prepared_writes" in _names(b, R.recv_expr(b, n))]
        re_push = [n for n in b.calls() if R.call_matches(n.ev, "Vec::push") and "retry_entries" in _names(b, R.recv_expr(b, n))]
        ctx.check(len(pw_push) == 1 and len(re_push) == 1, inst, "anchor", b.path, "one push of a prepared write and one retry push for a failed preparation", None)
        for p in prep:
            for (sw, l) in R.guard_edges_for_call(b, [p], "Ok"):
                r, ps = A.reach(b, edge_targets_(b, sw, l), blocked_nodes={x.id for x in pw_push})
                ctx.check(not any(x in r for x in R.call("Iterator::next")(b)), inst, "FOLLOW", b.path, "a prepared record is always queued for the batch", b.where(sw))
            for (sw, l) in R.guard_edges_for_call(b, [p], "Err"):
                r, ps = A.reach(b, edge_targets_(b, sw, l), blocked_nodes={x.id for x in re_push})
                ctx.check(not any(x in r for x in R.call("Iterator::next")(b)), inst, "FOLLOW", b.path, "an entry whose preparation failed is kept for retry", b.where(sw))
    inst = "C02.ack/drain"
    b = ctx.fn("ShardedWriteBuffer::drain_entries", inst)
    if b is not None:
        dr = ctx.sites(b, R.call("VecDeque::drain"), inst, exact=1)
        for d in dr:
            a = R.arg_expr(b, b.nodes[d], 1)
            ctx.check((a.k == "agg" and (a.extra or "").endswith("RangeFull")) or "RangeFull" in (b.nodes[d].ev.get("arg_tys", ["", ""])[1]), inst, "PIN", b.path,
                      "a drained shard hands over all of its entries (drain(..))", b.where(d), {"arg": a.show()})
        st = ctx.sites(b, R.field_write("ShardedWriteBuffer", "count", ops=["store"]), inst, exact=1)
        R.dom(ctx, inst, b, dr, st, "the shard is reported empty only after it was drained", a_desc="drain(..)")
        lk = ctx.sites(b, R.call("Mutex::lock"), inst, exact=1)
        R.dom(ctx, inst, b, lk, dr, "draining happens under the shard lock", a_desc="buffer.lock()")
    b = ctx.fn("ShardedWriteBuffer::add_entries", inst)
    if b is not None:
        ex = ctx.sites(b, R.call("Extend::extend", "VecDeque::extend"), inst, exact=1)
        ca = ctx.sites(b, R.field_write("ShardedWriteBuffer", "count", ops=["fetch_add"]), inst, exact=1)
        R.follow(ctx, inst, b, ex, ca, "queued entries are counted (the periodic flusher looks at the count)", b_desc="count.fetch_add")
    b = ctx.fn("ShardedWriteBuffer::requeue_entries", inst)
    if b is not None:
        pf = ctx.sites(b, R.call("VecDeque::push_front"), inst, exact=1)
        ca = ctx.sites(b, R.field_write("ShardedWriteBuffer", "count", ops=["fetch_add"]), inst, exact=1)
        from rules.common import whole_collection_loop
        for p in pf:
            ok, nm, det = whole_collection_loop(b, p.id if hasattr(p, "id") else p, 1)
            ctx.check(ok or det.get("restricted_by") == ["core::iter::Iterator::rev"] or all("rev" in x for x in det.get("restricted_by", ["x"])), inst, "FOLLOW", b.path,
                      "every returned entry is put back at the front of its shard", b.where(p), det)
        R.dom(ctx, inst, b, pf, ca, "requeued entries are counted again", a_desc="push_front") if False else None
        r, _ = A.reach(b, [b.entry], blocked_nodes=set(ca), blocked_edges=set(A.pred_edges(b, lambda e: e.k == "call" and path_matches(e.extra, "Vec::is_empty"), "true")))
        ctx.check(not any(x in r for x in b.return_nodes()), inst, "FOLLOW", b.path, "[entries non-empty] the shard's count is raised again", None)
    inst = "C02.ack/worker"
    b = ctx.fn("write_buffer::write_buffer_worker", inst)
    if b is not None:
        fl = ctx.sites(b, R.call("write_buffer::flush_worker_shards"), inst, exact=2)
        for f in fl:
            a = b.nodes[f].ev["args"][2]
            if a.get("k") == "const":
                ctx.check(a.get("val") == 1, inst, "PIN", b.path, "the final drain also flushes retirements", b.where(f))
            else:
                e = A.tracer(b).operand(a)
                ctx.check(e.k == "un" and e.extra == "Not" and e.a[0].has_field("FlushRequest", "defer_retirements"), inst, "PROVENANCE", b.path,
                          "a requested flush handles retirements unless the requester deferred them", b.where(f), {"expr": e.show()})
    inst = "C02.ack/flush_pending_deletions"
    b = ctx.fn("write_buffer::flush_pending_deletions", inst)
    if b is not None:
        # the bool returned is `!retries.is_empty()` (something is left to do), computed after process_deletions
        pd = ctx.sites(b, R.call("write_buffer::process_deletions"), inst, exact=1)
        ie = [n for n in b.calls() if R.call_matches(n.ev, "Vec::is_empty") and "retries" in _names(b, R.recv_expr(b, n))]
        ctx.check(len(ie) >= 1, inst, "anchor", b.path, "retries.is_empty() is consulted", None)
        if ie and pd:
            R.dom(ctx, inst, b, pd, [x.id for x in ie], "pending work is measured after the deletions were processed", a_desc="process_deletions")
        mp = ctx.sites(b, R.call("Result::map"), inst, exact=1)
        cl = [c for c in ctx.prog.closures_of(b)]
        ok = False
        for c in cl:
            if len(c.defs.get(0, [])) == 1:
                v = A.tracer(c).node_value(c.defs[0][0])
                from rules.common import upvar_names
                if "has_retries" in upvar_names(c, v) or v.k == "field":
                    ok = True
        ctx.check(ok, inst, "PROVENANCE", b.path, "Ok carries `has_retries` so the caller keeps flushing while work is left", None)
        # empty queue => Ok(false) without touching the device
        oks = A.ok_nodes(b)
        early = [o for o in oks if b.nodes[o].ev["ops"][0].get("val") == 0]
        plocks = {n.id for n in b.calls() if R.call_matches(n.ev, "Mutex::lock") and R.recv_expr(b, n).has_field("RetirementQueue", "pending")}
        def pend_empty(e):
            return e.k == "call" and path_matches(e.extra, "Vec::is_empty") and (e.has_field("RetirementQueue", "pending") or
                                                                                  any(("call", x) in A.origins(b, e) for x in plocks))
        R.guard(ctx, inst, b, early, A.pred_edges(b, pend_empty, "true"), "`nothing left` is reported only when the retirement queue is empty")
        fl = ctx.sites(b, R.call("Mutex::lock").filter(lambda bb, n: R.recv_expr(bb, n).has_field("RetirementQueue", "flush"), "flush lock"), inst, exact=1)
        R.dom(ctx, inst, b, fl, pd, "retirement rounds are serialised by the flush lock", a_desc="retirement_queue.flush.lock()")


def edge_targets_(body, sw, label):
    return [s for (s, l) in body.nodes[sw].succ if l == label]



def check_recovery_release_len(ctx):
    """see rules.common.check_recovery_release_len: recovery frees an owned extent with the length of that very generation"""
    from rules import common as _c
    _c.check_recovery_release_len(ctx, "C02.recovery-release-len")


def check_token_agreement(ctx):
    """an acknowledged v3 record is recoverable only if recovery recomputes the token the writer stamped (same rule as C10.token):
    a record whose fold the two sides map differently is acknowledged by flush() and rejected by every later open"""
    from rules import C10
    C10.check_token(ctx, "C02.token-agreement")


def check_record_fit(ctx):
    """what the writer admits, stamps and acknowledges, recovery must parse: admission bound, header-fit bound and the field
    layout of writer and reader agree (same rule as C10.record). A record that fills its head block exactly is acknowledged and
    then makes every later open fail."""
    from rules import C10
    C10.check_record(ctx, "C02.record-fit")


def check_handoff(ctx):
    """an acknowledged delete / overwrite can only be durable after flush if the write buffer was told about it (rules.common.check_handoff, shared with C19.handoff)"""
    from rules.common import check_handoff as ch
    ch(ctx, "C02.handoff")


def check_reservations(ctx):
    """blocks handed back to the allocator on the allocation-failure path must not stay reserved by the entry that held them: the retried entry writes, journals and fsyncs its record into blocks the allocator hands to another record of a later acknowledged flush, and only the last writer survives recovery (same rules as C09.contain/release_allocations and scrub-release = C08.reservation; added after C02-i)"""
    from rules import C09
    C09.check_scrub(ctx, "C02.reservation")


def check(ctx):
    check_reservations(ctx)
    check_handoff(ctx)
    check_record_fit(ctx)
    check_token_agreement(ctx)
    check_partition(ctx)
    check_recovery_release_len(ctx)
    check_worker(ctx)
    check_sync(ctx)
    check_order(ctx)
    check_ack(ctx)
    check_retire(ctx)
    check_successor(ctx)
    check_journal_position(ctx)
    check_retirement_wait(ctx)
    check_journal_validity(ctx)
    check_nonblocking_inventory(ctx)
    check_drop(ctx)
