"""C15 — offline migration is a faithful, verified, non-destructive copy.
Decided: the source cannot be written, the destination cannot be overwritten,
publication happens only after verification, failure rolls back, ambiguity is opt-in."""
from feoxlint import analysis as A
from feoxlint import rulekit as R
from feoxlint import vocab as V
from feoxlint.model import path_matches, call_matches
from rules.common import edge_targets, origin_names, names_of, drop_impl, err_edge_unreachable

EXPLANATION = """
Non-destructiveness and ordering of migrate() as call-graph and path facts: on the read-only open path (with_config_and_open_mode
-> load_indexes -> scan_and_rebuild_indexes -> remove_expired_recovery_winners, and Drop) every call that can reach a device
write is either on the read_only = false / non-ReadOnly edge or is itself one of those checked bodies; fresh_device is only
set by the two read-write open functions; the source file is opened with read(true) only; the migration module never calls
rename / copy / write / create / truncate, creates its temporary with create_new(true) after symlink_metadata(destination)
reported NotFound, and publishes only through fs::hard_link in DestinationGuard::publish; in migrate() the chain copy ->
flush -> drop(destination) -> reopen read-only -> verify -> source re-stamp -> publish holds by dominance with each step
on the previous one's Ok edge, and nothing runs for a source that is already v3; after a successful hard_link every error
exit of publish passes rollback_publication and DestinationGuard::drop always removes the temporary; the ambiguous-legacy
error is raised exactly when the opt-in is off; copy_records forwards the record's timestamp and absolute expiry
unchanged as explicit values. Not decided: record-for-record equality for all legacy images.
"""
DECIDED = ['the feox-migrate CLI touches no file itself (quick tier analyses the bin crate too)', 'the read-only scan masks journaled extents with a cursor over a journal sorted by start sector', 'no failing exit after the destination name is published', "read-only source cannot be written", "destination never overwritten; publish by hard_link after verify", "rollback on failure",
           "ambiguous legacy markers need the opt-in", "timestamp / expiry forwarded unchanged",
           'the destination name is unlinked only by the guard that linked it (rollback only after its own hard_link succeeded)',
           'record batches resume strictly after the last key of the previous batch']
NOT_DECIDED = ["record-for-record equality with a recovery of the source for all legacy images"]
ASSUMPTIONS = ["fs::hard_link fails if the destination name exists (POSIX link(2))"]
BIN = True
QUICK_CONFIGS = ["lib", "bin"]   # the CLI is part of the product: a change to src/bin must be seen on every run

RO_BODIES = ["FeoxStore::with_config_and_open_mode", "FeoxStore::load_indexes", "FeoxStore::scan_and_rebuild_indexes",
             "FeoxStore::remove_expired_recovery_winners", "FeoxStore::open_device_read_only", "FeoxStore::attach_device_file"]


def rw_edges(body):
    """edges that can only be taken when the store is not read-only"""
    edges = []
    edges += A.pred_edges(body, lambda e: e.k == "field" and e.extra[1] == "read_only" and (e.extra[0] or "").endswith("FeoxStore"), "false")
    edges += A.pred_edges(body, lambda e: e.k == "local" and body.local_name(e.extra) == "read_only", "false")
    for v in ("ReadWrite", "Fresh"):
        edges += A.pred_edges(body, lambda e: "OpenMode" in (e.ty or "") or (e.k in ("arg", "local") and "OpenMode" in (body.local_ty(e.extra[0] if e.k == "arg" else e.extra) or "")), v)
    edges += A.pred_edges(body, lambda e: e.k == "field" and e.extra[1] == "fresh_device" and (e.extra[0] or "").endswith("FeoxStore"), "true")
    return edges


def check_ro(ctx):
    inst = "C15.ro"
    bodies = []
    for nm in RO_BODIES:
        b = ctx.fn(nm, inst)
        if b is not None:
            bodies.append(b)
    d = drop_impl(ctx, inst, "FeoxStore")
    if d is not None:
        bodies.append(d)
    names = [b.path for b in bodies]
    n_guarded = 0
    for b in bodies:
        edges = rw_edges(b)
        for fam in ctx.prog.family(b):
            for nid in V.W_REACHING(fam):
                ev = fam.nodes[nid].ev
                ts = [t for t in ctx.prog.targets(ev) if t]
                if any(t in names for t in ts):
                    ctx.ok(inst, "GUARD", b.path, "write-reaching callee %s is itself a checked body (obligation pushed down)" % ts[0].rsplit("::", 1)[-1], fam.where(nid), nontrivial=False)
                    continue
                if fam is not b:
                    ctx.fail(inst, "GUARD", b.path, "device-write-reaching call inside a closure on the read-only open path", fam.where(nid))
                    continue
                n_guarded += 1
                R.guard(ctx, inst, b, [nid], edges, "device-write-reaching call `%s` only when the store is not read-only" % R.callee_name(ev).rsplit("::", 1)[-1])
    ctx.check(n_guarded >= 7, inst, "anchor", "-", "guarded write-reaching call sites on the open path (>= 7, found %d)" % n_guarded, None)
    R.fieldw_within(ctx, inst + "/fresh_device", "FeoxStore", "fresh_device",
                    ["FeoxStore::with_config_and_open_mode", "FeoxStore::open_device", "FeoxStore::open_fresh_device"], floor=3)
    R.fieldw_within(ctx, inst + "/read_only", "FeoxStore", "read_only", ["FeoxStore::with_config_and_open_mode"], floor=1)
    b = ctx.fn("FeoxStore::with_config_and_open_mode", inst)
    if b is not None:
        # the literal initialises fresh_device = false and read_only from the open mode
        for a in R.aggregate("core::store::FeoxStore")(b):
            ev = b.nodes[a].ev
            f = dict(zip(ev["fields"], ev["ops"]))
            ctx.check(f.get("fresh_device", {}).get("val") == 0, inst, "PIN", b.path, "a store starts with fresh_device = false", b.where(a))
            ro = A.tracer(b).operand(f.get("read_only"))
            ctx.check(ro.k == "local" and b.local_name(ro.extra) == "read_only", inst, "PROVENANCE", b.path, "read_only is derived from OpenMode::ReadOnly", b.where(a))
        fl = [l for l in range(len(b.locals)) if b.local_name(l) == "read_only"]
        for l in fl:
            for dn in b.defs.get(l, []):
                n = b.nodes[dn]
                val = n.ev.get("a", {}).get("val")
                if val == 1:
                    edges = A.pred_edges(b, lambda e: "OpenMode" in (b.local_ty(e.extra[0]) if e.k == "arg" else ""), "ReadOnly")
                    R.guard(ctx, inst, b, [dn], edges, "read_only = true exactly on OpenMode::ReadOnly") if edges else ctx.ok(inst, "PIN", b.path, "read_only flag set in a match arm", b.where(dn), nontrivial=False)
        ro_open = ctx.sites(b, R.call("FeoxStore::open_device_read_only"), inst, exact=1)
    # the source file handle is read-only
    b = ctx.fn("migration::open_read_only_file", inst)
    if b is not None:
        calls = [R.callee_name(n.ev) for n in b.calls()]
        ctx.check(any(path_matches(c, "OpenOptions::read") for c in calls), inst, "PIN", b.path, "the source is opened with read(true)", None)
        bad = [c for c in calls if any(path_matches(c, x) for x in ("OpenOptions::write", "OpenOptions::append", "OpenOptions::create", "OpenOptions::create_new", "OpenOptions::truncate", "OpenOptionsExt::custom_flags"))]
        ctx.check(not bad, inst, "FORBID", b.path, "and with no write / append / create / truncate flag", None, {"found": bad})
    b = ctx.fn("FeoxStore::open_device_read_only", inst)
    if b is not None:
        w = [n for fam in ctx.prog.family(b) for n in V.W_REACHING(fam)]
        ctx.check(not w, inst, "FORBID", b.path, "open_device_read_only reaches no device write", None)
        oo = [n for n in b.calls() if call_matches(n.ev, "OpenOptions::open") or call_matches(n.ev, "File::create") or call_matches(n.ev, "File::set_len")]
        ctx.check(not oo, inst, "FORBID", b.path, "and does not reopen / resize the file", None)
    b = ctx.fn("migration::build_read_only", inst)
    if b is not None:
        c = ctx.sites(b, R.call("FeoxStore::with_config_for_migration_source"), inst, exact=1)
    b = ctx.fn("FeoxStore::with_config_for_migration_source", inst)
    if b is not None:
        aggs = ctx.sites(b, R.aggregate("init::OpenMode", "ReadOnly"), inst, exact=1)
    # nothing reachable from the migration module writes through a source store: flush / insert on `source` never called
    b = ctx.fn("migration::migrate", inst)
    if b is not None:
        for n in b.calls():
            if call_matches(n.ev, "FeoxStore::flush") or call_matches(n.ev, "FeoxStore::flush_all") or call_matches(n.ev, "FeoxStore::insert_migrated_bytes"):
                nm = origin_names(b, R.recv_expr(b, n)) | names_of(b, R.recv_expr(b, n))
                ctx.check("source" not in nm, inst, "FORBID", b.path, "no mutating API is called on the source store", b.where(n.id), {"recv": sorted(nm)})


def in_migration(b):
    return b.file == "src/core/store/migration.rs"


def check_dest(ctx):
    inst = "C15.dest"
    R.forbid(ctx, inst, in_migration, ["fs::rename", "fs::copy", "fs::write", "File::create", "OpenOptions::create", "OpenOptions::truncate",
                                       "OpenOptions::append", "File::create_new", "fs::remove_dir_all", "File::set_len"],
             "the migration module never overwrites / replaces files")
    ctx.check(len(ctx.prog.call_sites("fs::remove_file")) >= 3, inst, "anchor", "-", "control: file-system calls in the module are visible to the rule", None, nontrivial=False)
    R.callers_within(ctx, inst, "fs::hard_link", ["DestinationGuard::publish"], floor=1)
    R.callers_within(ctx, inst, "DestinationGuard::publish", ["migration::migrate"], floor=1)
    b = ctx.fn("DestinationGuard::create", inst)
    if b is not None:
        cn = ctx.sites(b, R.call("OpenOptions::create_new"), inst, exact=1)
        for c in cn:
            a = b.nodes[c].ev["args"][1]
            ctx.check(a.get("k") == "const" and a.get("val") == 1, inst, "PIN", b.path, "the temporary is created with create_new(true)", b.where(c))
        op = ctx.sites(b, R.call("OpenOptions::open"), inst, exact=1)
        R.dom(ctx, inst, b, cn, op, "create_new precedes open", a_desc="create_new(true)")
        sm = ctx.sites(b, R.call("fs::symlink_metadata"), inst, exact=1)
        err_e = R.guard_edges_for_call(b, sm, "Err")
        R.guard(ctx, inst, b, op, err_e, "the temporary is created only if the destination name does not exist (symlink_metadata = Err)")
        for (sw, l) in R.guard_edges_for_call(b, sm, "Ok"):
            r, ps = A.reach(b, edge_targets(b, sw, l))
            ctx.check(not any(x in r for x in op + A.ok_nodes(b)), inst, "GUARD", b.path, "an existing destination is rejected", b.where(sw))
        # NotFound test
        nf = [n for n in b.calls() if call_matches(n.ev, "io::Error::kind") or call_matches(n.ev, "Error::kind")]
        ctx.check(len(nf) >= 1, inst, "PIN", b.path, "the error kind is inspected (NotFound)", None)
        # the temporary lives beside the destination: parent.join(..)
        jn = ctx.sites(b, R.call("Path::join"), inst, exact=1)
    # temp path is what is opened; destination is never opened for writing
    b = ctx.fn("migration::migrate", inst)
    if b is not None:
        dg = ctx.sites(b, R.call("DestinationGuard::create"), inst, exact=1)
        for d in dg:
            e = R.arg_expr(b, b.nodes[d], 0)
            ctx.check(e.has_field("MigrationOptions", "destination"), inst, "PROVENANCE", b.path, "the guard protects options.destination", b.where(d))


def check_order(ctx):
    inst = "C15.order"
    b = ctx.fn("migration::migrate", inst)
    if b is None:
        return
    cp = ctx.sites(b, R.call("migration::copy_records"), inst, exact=1)
    fl = ctx.sites(b, R.call("FeoxStore::flush"), inst, exact=1)
    bro = ctx.sites(b, R.call("migration::build_read_only"), inst, exact=2)
    vr = ctx.sites(b, R.call("migration::verify_records"), inst, exact=1)
    pb = ctx.sites(b, R.call("DestinationGuard::publish"), inst, exact=1)
    dr = [n.id for n in b.nodes if (n.kind == "call" and call_matches(n.ev, "mem::drop") and n.ev.get("arg_tys", [""])[0].endswith("FeoxStore")) or
          (n.kind == "drop" and n.ev.get("ty", "").endswith("core::store::FeoxStore"))]
    if not (cp and fl and len(bro) == 2 and vr and pb):
        return
    ver = [x for x in bro if R.arg_expr(b, b.nodes[x], 0).has_call("File::try_clone")]
    src = [x for x in bro if x not in ver]
    ctx.check(len(ver) == 1 and len(src) == 1, inst, "anchor", b.path, "one read-only open of the source and one of the verification copy", None)
    chain = [("copy_records", cp), ("destination.flush", fl), ("reopen read-only", ver), ("verify_records", vr), ("publish", pb)]
    for (na, a), (nb, bb) in zip(chain, chain[1:]):
        R.dom(ctx, inst, b, a, bb, "%s happens before %s" % (na, nb), a_desc=na)
        R.guard(ctx, inst, b, bb, R.guard_edges_for_call(b, a, "Ok"), "%s only on the Ok edge of %s" % (nb, na))
    # the destination store is dropped (workers joined, metadata written) before it is reopened for verification
    dest_drop = []
    for d in dr:
        n = b.nodes[d]
        if n.kind == "call":
            nm = origin_names(b, R.arg_expr(b, n, 0)) | names_of(b, R.arg_expr(b, n, 0))
            if any(path_matches(c.extra, "FeoxStore::with_config_for_migration_destination") for c in _shallow_calls(R.arg_expr(b, n, 0))):
                nm.add("destination")
        else:
            nm = {b.local_name(n.ev["pl"]["l"])}
        if "destination" in nm:
            dest_drop.append(d)
    dest_drop.sort(key=lambda d: (b.nodes[d].kind != "call", d))
    ctx.check(len(dest_drop) >= 1 and b.nodes[dest_drop[0]].kind == "call", inst, "anchor", b.path, "the destination store is dropped explicitly", None)
    R.dom(ctx, inst, b, dest_drop[:1], ver, "destination store closed before the verification reopen", a_desc="drop(destination)")
    R.dom(ctx, inst, b, fl, dest_drop[:1], "destination flushed before it is closed", a_desc="destination.flush")
    # verification: the reopened file is the temporary's own handle, version 3
    if ver:
        e = R.arg_expr(b, b.nodes[ver[0]], 0)
        ctx.check(e.has_call("File::try_clone") and e.has_field("FeoxStore", "device_file"), inst, "PROVENANCE", b.path, "verification reopens the destination's own file handle", b.where(ver[0]), {"expr": e.show()})
        a1 = b.nodes[ver[0]].ev["args"][1]
        ctx.check(a1.get("k") == "const" and a1.get("val") == 0, inst, "PIN", b.path, "verification never allows ambiguous recovery", b.where(ver[0]))
    def ver_cmp(e):
        return e.k == "bin" and e.extra == "Eq" and e.has_field("FeoxStore", "format_version") and e.has_const(val=3)
    ok3 = A.pred_edges(b, ver_cmp, "true")
    R.guard(ctx, inst, b, pb, ok3, "publish only if the verified copy reports format version 3")
    # publishing is the last fallible step: an error raised after it would leave the destination in place although migrate() failed
    R.noerr_after(ctx, inst, b, pb, "after the destination name is published migrate() cannot fail any more (only publish itself rolls back)",
                  allowed=["DestinationGuard::publish"])
    # source stamp re-checked between verify and publish
    # (a stamp check extracted into a thin private helper - both reads, the comparison and the SourceChanged error - still counts)
    st = ctx.sites(b, R.call_or_thin_helper("FileStamp::read_store_file", "FileStamp::read"), inst, floor=2)
    after_verify = []
    for s in st:
        r, _ = A.reach(b, A.succs(b, vr[0]))
        if s in r:
            after_verify.append(s)
    ctx.check(len(after_verify) >= 1, inst, "FOLLOW", b.path, "the source stamp is read again after verification", None)
    R.dom(ctx, inst, b, after_verify[-1:], pb, "the last source-stamp comparison precedes publication", a_desc="FileStamp::read(source)")
    # a changed source is an error wherever the comparison lives
    n_sc = sum(len(R.aggregate("MigrationError", "SourceChanged")(x)) for x in ctx.prog.product_bodies() if x.file.endswith("migration.rs"))
    ctx.check(n_sc >= 1, inst, "anchor", b.path, "a changed source is reported as SourceChanged (found %d sites in migration.rs)" % n_sc, None)
    # ... and the re-check after verification really fails the migration: its result is propagated
    for s in after_verify[-1:]:
        tb = [ctx.prog.bodies.get(t) for t in ctx.prog.targets(b.nodes[s].ev) if t in ctx.prog.bodies]
        if tb and not any(R.call_matches(b.nodes[s].ev, nm) for nm in ("FileStamp::read_store_file", "FileStamp::read")):
            ctx.check(R.result_is_used(b, s), inst, "NODISCARD", b.path, "the result of the source re-check is not dropped", b.where(s))
    # nothing happens for a v3 source
    def v3(e):
        return e.k == "bin" and e.extra == "Lt" and e.has_field("FeoxStore", "format_version") and e.has_const(val=3)
    edges = A.pred_edges(b, v3, "true")
    ctx.check(len(A.pred_switches(b, v3)) == 1, inst, "PIN", b.path, "source_version >= 3 is rejected", None)
    dg = ctx.sites(b, R.call("DestinationGuard::create"), inst, exact=1)
    R.guard(ctx, inst, b, dg + cp + pb, edges, "no destination is created for a source that already uses the current format")
    # verify compares source with the verified copy
    e0 = R.arg_expr(b, b.nodes[vr[0]], 0)
    e1 = R.arg_expr(b, b.nodes[vr[0]], 1)
    ctx.check(any(c.nid in src for c in _shallow_calls(e0)) and any(c.nid in ver for c in _shallow_calls(e1)), inst, "PROVENANCE", b.path,
              "verify_records compares the source with the reopened destination", b.where(vr[0]))
    # copy goes source -> destination
    c0 = R.arg_expr(b, b.nodes[cp[0]], 0)
    ctx.check(any(c.nid in src for c in _shallow_calls(c0)), inst, "PROVENANCE", b.path, "copy_records reads from the read-only source", b.where(cp[0]))


def _shallow_calls(e):
    """the calls on the spine of an expression (payload projections / `?` plumbing only), not those feeding arguments"""
    out = []
    x = e
    for _ in range(12):
        if x.k in ("field", "downcast", "cast") and x.a:
            x = x.a[0]
            continue
        if x.k == "call":
            out.append(x)
            if x.a and (path_matches(x.extra, "Try::branch") or path_matches(x.extra, "Result::map_err")):
                x = x.a[0]
                continue
        break
    return out


def check_stamp(ctx):
    """"the source is unchanged" and "the temporary is the file we wrote" are both decided by comparing FileStamps: the stamp has
    to identify the file (device + inode), its length and its modification time, all read from one metadata call, compared by the
    derived (field-wise) equality; read_regular must not follow a symlink and answers only for a regular file."""
    inst = "C15.stamp"
    b = ctx.fn("FileStamp::from_metadata", inst)
    if b is not None:
        lits = [n for n in b.nodes if n.kind == "assign" and n.ev.get("rv") == "agg" and (n.ev.get("adt") or "").endswith("migration::FileStamp")]
        ctx.check(len(lits) == 1, inst, "anchor", b.path, "one FileStamp literal (found %d)" % len(lits), None)
        want = {"len": "Metadata::len", "modified": "Metadata::modified", "device": "MetadataExt::dev", "inode": "MetadataExt::ino"}
        for n in lits:
            tr = A.tracer(b)
            f = dict(zip(n.ev["fields"], [tr.operand(o) for o in n.ev["ops"]]))
            for fld, callee in want.items():
                v = f.get(fld)
                ok = v is not None and v.has_call(callee) and any(x.k == "arg" and x.extra[0] == 1 for x in v.walk())
                ctx.check(ok, inst, "PIN", b.path, "FileStamp.%s is %s of the metadata handed in" % (fld, callee.rsplit("::", 1)[-1]), b.where(n.id),
                          {"expr": v.show()[:80] if v is not None else None})
    eqs = [bb for bb in ctx.prog.product_bodies() if bb.impl_trait and bb.impl_trait.endswith("cmp::PartialEq") and (bb.impl_self or "").endswith("migration::FileStamp")]
    ctx.check(len(eqs) == 1 and bool(eqs[0].raw.get("span", {}).get("exp")), inst, "PIN", "migration::FileStamp",
              "FileStamp equality is the derived, field-wise one (no hand-written comparison that could skip a field)", None)
    b = ctx.fn("FileStamp::read_regular", inst)
    if b is not None:
        sm = ctx.sites(b, R.call("fs::symlink_metadata"), inst, exact=1)
        ctx.check(not R.call("fs::metadata")(b), inst, "FORBID", b.path, "read_regular never follows a symbolic link (symlink_metadata, not metadata)", None)
        isf = ctx.sites(b, R.call("FileType::is_file"), inst, exact=1)
        th = ctx.sites(b, R.call("bool::then"), inst, exact=1)
        for t in th:
            c = R.arg_expr(b, b.nodes[t], 0)
            ctx.check(any(x.nid in isf for x in c.calls()), inst, "PROVENANCE", b.path, "a stamp is produced only for a regular file (`is_file().then(..)`)", b.where(t))


def check_rollback(ctx):
    inst = "C15.rollback"
    b = ctx.fn("DestinationGuard::publish", inst)
    if b is not None:
        hl = ctx.sites(b, R.call("fs::hard_link"), inst, exact=1)
        rb = ctx.sites(b, R.call("DestinationGuard::rollback_publication"), inst, floor=3)
        errs = A.error_nodes(b)
        for (sw, l) in R.guard_edges_for_call(b, hl, "Ok"):
            r, ps = A.reach(b, edge_targets(b, sw, l), blocked_nodes=set(rb))
            bad = [e for e in errs if e in r]
            ctx.check(not bad, inst, "FOLLOW", b.path, "after the name was published every failure rolls the publication back", b.where(sw),
                      None if not bad else {"error_site": b.where(bad[0])})
        # before: the temporary is verified to be the expected file
        rr = ctx.sites(b, R.call("FileStamp::read_regular"), inst, floor=2)
        R.dom(ctx, inst, b, rr[:1], hl, "the temporary is re-stamped before it is linked", a_desc="FileStamp::read_regular(temporary)")
        if not hl:
            return
        # link direction: temporary -> destination
        a0 = R.arg_expr(b, b.nodes[hl[0]], 0)
        a1 = R.arg_expr(b, b.nodes[hl[0]], 1)
        ctx.check(a0.has_field("DestinationGuard", "temporary") and a1.has_field("DestinationGuard", "destination"), inst, "PIN", b.path,
                  "hard_link(temporary, destination)", b.where(hl[0]))
        # Ok only after the link
        R.dom(ctx, inst, b, hl, A.ok_nodes(b), "Ok(()) only after the hard link", a_desc="fs::hard_link")
        R.guard(ctx, inst, b, A.ok_nodes(b), R.guard_edges_for_call(b, hl, "Ok"), "Ok(()) only on the Ok edge of hard_link")
    # "an existing destination is never overwritten" includes never *removed*: the destination name may only be unlinked by the
    # guard that has just linked it itself. hard_link fails with EEXIST when somebody else created the name meanwhile - on that
    # path, and on every path where this guard never got as far as linking, the file at the destination is not ours.
    if b is not None:
        R.guard(ctx, inst, b, rb, R.guard_edges_for_call(b, hl, "Ok"), "the published name is rolled back only after this guard's own hard_link succeeded")
    R.callers_within(ctx, inst + "/who", "DestinationGuard::rollback_publication", ["DestinationGuard::publish"], floor=3,
                     what="only publish (after its own successful link) may remove the destination name")
    n_rm = 0
    for bb in ctx.prog.product_bodies():
        if not bb.file.endswith("core/store/migration.rs"):
            continue
        for n in bb.calls():
            if R.call_matches(n.ev, "fs::remove_file") and R.arg_expr(bb, n, 0).has_field("DestinationGuard", "destination"):
                n_rm += 1
                ctx.check(path_matches(R.owner_fn(ctx.prog, bb), "DestinationGuard::rollback_publication"), inst, "FORBID", bb.path,
                          "the destination path is unlinked only inside rollback_publication", bb.where(n.id))
    ctx.check(n_rm == 1, inst, "anchor", "-", "unlinks of the destination path in migration.rs (expected 1, found %d)" % n_rm, None)
    b = ctx.fn("DestinationGuard::rollback_publication", inst)
    if b is not None:
        rf = ctx.sites(b, R.call("fs::remove_file"), inst, exact=1)
        for x in rf:
            ctx.check(R.arg_expr(b, b.nodes[x], 0).has_field("DestinationGuard", "destination"), inst, "PIN", b.path, "rollback removes the published name", b.where(x))
    b = drop_impl(ctx, inst, "DestinationGuard")
    if b is not None:
        rf = ctx.sites(b, R.call("fs::remove_file"), inst, exact=1)
        R.dom(ctx, inst, b, rf, b.return_nodes(), "dropping the guard always removes the temporary file", a_desc="fs::remove_file(temporary)")
        for x in rf:
            ctx.check(R.arg_expr(b, b.nodes[x], 0).has_field("DestinationGuard", "temporary"), inst, "PIN", b.path, "it is the temporary that is removed, never the destination", b.where(x))


def check_ambiguous(ctx):
    inst = "C15.ambiguous"
    b = ctx.fn("FeoxStore::scan_and_rebuild_indexes", inst)
    if b is not None:
        amb = ctx.sites(b, R.aggregate("error::FeoxError", "AmbiguousLegacyTombstone"), inst, exact=1)
        edges_f = A.pred_edges(b, lambda e: e.has_field("FeoxStore", "allow_ambiguous_legacy_recovery"), "false")
        edges_t = A.pred_edges(b, lambda e: e.has_field("FeoxStore", "allow_ambiguous_legacy_recovery"), "true")
        R.guard(ctx, inst, b, amb, edges_f, "AmbiguousLegacyTombstone is raised only without the opt-in")
        for (sw, l) in edges_f:
            r, ps = A.reach(b, edge_targets(b, sw, l))
            ctx.check(not any(x in r for x in R.call("RecoveryScanner::block")(b) + A.ok_nodes(b)), inst, "GUARD", b.path,
                      "without the opt-in an ambiguous marker always fails the open", b.where(sw))
        cnt = [n.id for n in b.nodes if n.kind == "assign" and n.ev["dst"]["p"] and isinstance(n.ev["dst"]["p"][-1], dict) and n.ev["dst"]["p"][-1].get("n") == "ambiguous_legacy_markers"]
        R.guard(ctx, inst, b, cnt, edges_t, "ambiguous markers are only counted (skipped) with the opt-in")
    b = ctx.fn("migration::build_read_only", inst)
    if b is not None:
        cl = [c for c in ctx.prog.closures_of(b) if R.aggregate("MigrationError", "AmbiguousLegacyRecovery")(c)]
        ctx.check(len(cl) == 1, inst, "PIN", b.path, "AmbiguousLegacyTombstone is reported as AmbiguousLegacyRecovery", None)
        c = ctx.sites(b, R.call("FeoxStore::with_config_for_migration_source"), inst, exact=1)
        for x in c:
            a = R.arg_expr(b, b.nodes[x], 1)
            ctx.check(a.k == "arg" and a.extra[0] == 2, inst, "PROVENANCE", b.path, "the opt-in flag is forwarded unchanged", b.where(x))
    b = ctx.fn("migration::migrate", inst)
    if b is not None:
        for x in R.call("migration::build_read_only")(b):
            a = R.arg_expr(b, b.nodes[x], 1)
            if not R.arg_expr(b, b.nodes[x], 0).has_call("File::try_clone"):
                ctx.check(a.has_field("MigrationOptions", "allow_ambiguous_legacy_recovery"), inst, "PROVENANCE", b.path, "the source is opened with the caller's opt-in", b.where(x))
    # every carrier of the opt-in (MigrationOptions, StoreBuilder, FeoxStore) stores the flag as it was given: `false` by default, the
    # setter's own parameter, or another carrier's field - never combined with the previous value (`|=` makes a revoked opt-in
    # sticky) or negated
    FLAG = "allow_ambiguous_legacy_recovery"
    n_st = 0
    for bb in ctx.prog.product_bodies():
        tr = A.tracer(bb)
        vals = []
        for n in bb.nodes:
            if n.kind != "assign":
                continue
            p = n.ev["dst"]["p"]
            if p and isinstance(p[-1], dict) and p[-1].get("n") == FLAG:
                vals.append((n.id, tr.node_value(n.id)))
            elif n.ev.get("rv") == "agg" and FLAG in (n.ev.get("fields") or []):
                vals.append((n.id, tr.operand(n.ev["ops"][n.ev["fields"].index(FLAG)])))
        for (nid, v) in vals:
            n_st += 1
            pure = (v.k == "const" and (v.extra or {}).get("val") == 0) or (v.k == "arg") or (v.k == "field" and v.extra[1] == FLAG and v.a and v.a[0].k in ("arg", "local", "field"))
            ctx.check(pure, inst + "/carriers", "PROVENANCE", R.owner_fn(ctx.prog, bb), "the ambiguous-recovery opt-in is stored exactly as given (default false, the setter's parameter, another carrier's field)",
                      bb.where(nid), {"value": v.show()[:80]})
    ctx.check(n_st >= 5, inst + "/carriers", "anchor", "-", "stores of the opt-in flag examined (>= 5, found %d)" % n_st, None)
    b = ctx.fn("MigrationOptions::new", inst)
    if b is not None:
        for a in R.aggregate("MigrationOptions")(b):
            ev = b.nodes[a].ev
            f = dict(zip(ev["fields"], ev["ops"]))
            ctx.check(f.get("allow_ambiguous_legacy_recovery", {}).get("val") == 0, inst, "PIN", b.path, "the opt-in defaults to off", b.where(a))


def check_preserve(ctx):
    inst = "C15.preserve"
    b = ctx.fn("migration::copy_records", inst)
    if b is not None:
        im = ctx.sites(b, R.call("FeoxStore::insert_migrated_bytes"), inst, exact=1)
        for x in im:
            ts = R.arg_expr(b, b.nodes[x], 3)
            ex = R.arg_expr(b, b.nodes[x], 4)
            ctx.check(ts.k == "field" and ts.extra[1] == "timestamp" and not any(y.k == "bin" for y in ts.walk()), inst, "PROVENANCE", b.path, "the record's timestamp is forwarded unchanged", b.where(x), {"expr": ts.show()})
            ctx.check(ex.k == "call" and path_matches(ex.extra, "Atomic::load") and ex.has_field("Record", "ttl_expiry"), inst, "PROVENANCE", b.path, "the record's absolute expiry is forwarded unchanged", b.where(x), {"expr": ex.show()})
            recv = names_of(b, R.recv_expr(b, b.nodes[x])) | origin_names(b, R.recv_expr(b, b.nodes[x]))
            ctx.check("destination" in recv, inst, "PROVENANCE", b.path, "records are inserted into the destination", b.where(x))
            k = R.arg_expr(b, b.nodes[x], 1)
            v = R.arg_expr(b, b.nodes[x], 2)
            ctx.check(k.has_field("Record", "key") and v.has_call("FeoxStore::resolve_value_ref"), inst, "PROVENANCE", b.path, "with the record's key and its resolved value", b.where(x))
        # an insert that reports `false` (key already present) aborts
        fl = ctx.sites(b, R.call("FeoxStore::flush"), inst, exact=1)
    b = ctx.fn("FeoxStore::insert_migrated_bytes", inst)
    if b is not None:
        ib = ctx.sites(b, R.call("FeoxStore::insert_bytes_with_expiry"), inst, exact=1)
        for x in ib:
            ts = R.arg_expr(b, b.nodes[x], 3)
            ex = R.arg_expr(b, b.nodes[x], 5)
            ctx.check(ts.k == "arg" and ts.extra[0] == 4 and ex.k == "arg" and ex.extra[0] == 5, inst, "PROVENANCE", b.path,
                      "timestamp and expiry pass through insert_migrated_bytes unchanged", b.where(x), {"ts": ts.show(), "expiry": ex.show()})
    b = ctx.fn("migration::verify_records", inst)
    if b is not None:
        vf = ctx.sites(b, R.aggregate("MigrationError", "VerificationFailed"), inst, floor=2)
        fields = set()
        tr = A.tracer(b)
        for n in b.nodes:
            r = None
            if n.kind == "assign" and n.ev.get("rv") == "bin" and n.ev["op"] in ("Eq", "Ne"):
                r = tr.node_value(n.id)
            elif n.kind == "call" and (call_matches(n.ev, "PartialEq::eq") or call_matches(n.ev, "PartialEq::ne")):
                r = tr.node_value(n.id)
            if r is None:
                continue
            fields |= {x.extra[1] for x in r.walk() if x.k == "field"}
            if r.has_call("FeoxStore::resolve_value_ref"):
                fields.add("<value>")
        ctx.check({"timestamp", "ttl_expiry", "key", "<value>"} <= fields, inst, "PIN", b.path, "verification compares key, timestamp, expiry and value", None, {"compared": sorted(fields)})
        ln = A.pred_switches(b, lambda e: e.k == "bin" and e.extra == "Eq" and len([c for c in e.calls() if path_matches(c.extra, "Vec::len")]) == 2)
        ctx.check(len(ln) >= 1, inst, "PIN", b.path, "and the number of records per batch", None)


def check_batches(ctx):
    """migration walks the source's ordered index in batches: every record is visited exactly once only if a batch resumes
    strictly after the last key of the previous one, starts at the front, advances entry by entry and the walk ends on an
    empty batch only"""
    inst = "C15.batches"
    b = ctx.fn("migration::record_batch", inst)
    if b is not None:
        lb = ctx.sites(b, R.call("SkipMap::lower_bound"), inst, exact=1)
        fr = ctx.sites(b, R.call("SkipMap::front"), inst, exact=1)
        nx = ctx.sites(b, R.call("Entry::next"), inst, exact=1)
        ps = ctx.sites(b, R.call("Vec::push"), inst, exact=1)
        for x in lb:
            bd = R.arg_expr(b, b.nodes[x], 1)
            ctx.check(bd.k == "agg" and str(bd.extra).endswith("Bound::Excluded") and bd.has_arg(idx=2), inst, "PIN", b.path,
                      "a batch resumes strictly after the previous batch's last key (Bound::Excluded(after))", b.where(x), {"bound": bd.show()[:80]})
        some = A.pred_edges(b, lambda e: e.k == "arg" and e.extra[0] == 2, "Some")
        none = A.pred_edges(b, lambda e: e.k == "arg" and e.extra[0] == 2, "None")
        R.guard(ctx, inst, b, lb, some, "the resume bound is used when a previous key exists")
        R.guard(ctx, inst, b, fr, none, "the first batch starts at the front of the index")
        R.follow(ctx, inst, b, ps, nx, "after a record is taken the cursor advances to the next entry", exits=b.return_nodes() + ps, b_desc="entry.next()")
        for x in ps:
            v = R.arg_expr(b, b.nodes[x], 1)
            ctx.check(v.has_call("TreeSlot::load"), inst, "PROVENANCE", b.path, "the record taken is the one the cursor's slot holds", b.where(x))
        # the cursor only ever holds lower_bound(..) / front() / entry.next()
        from rules import roles
        cur = None
        for x in nx:
            d = b.nodes[x].ev.get("dest", {}).get("l")
            # follow `cursor = move _tmp`
            for n2 in b.nodes:
                if n2.kind == "assign" and n2.ev.get("rv") == "use" and R.op_local(n2.ev["a"]) == d and not n2.ev["dst"]["p"]:
                    cur = n2.ev["dst"]["l"]
        ctx.check(cur is not None, inst, "anchor", b.path, "the cursor variable is assigned from entry.next()", None)
        if cur is not None:
            tr = A.tracer(b, transparent=False)
            for d in b.defs.get(cur, []):
                v = tr.node_value(d)
                okv = v.k == "call" and any(path_matches(v.extra, w) for w in ("SkipMap::lower_bound", "SkipMap::front", "Entry::next"))
                ctx.check(okv, inst, "PIN", b.path, "the cursor is only ever the resume position, the front, or the direct successor of the entry just taken", b.where(d), {"value": v.show()[:80]})
        cap = A.pred_switches(b, lambda e: e.k == "bin" and e.extra == "Lt" and e.has_call("Vec::len") and e.has_const(name="MIGRATION_SCAN_RECORDS"))
        # ... or the loop is `for _ in 0..MIGRATION_SCAN_RECORDS` and every push lies behind the Some edge of that range's next()
        def _bounded_range(e):
            seen = list(e.walk())
            tr_ = A.tracer(b)
            for y in list(seen):
                if y.k == "local":          # the iterator lives in a mutably borrowed local: look at what it was initialised with
                    for d_ in b.defs.get(y.extra, []):
                        seen += list(tr_.node_value(d_).walk())
            return any(x.k == "agg" and str(x.extra).rsplit("::", 1)[-1] == "Range" and len(x.a) == 2 and x.a[0].k == "const" and (x.a[0].extra or {}).get("val") == 0 and
                       x.a[1].k == "const" and x.a[1].has_const(name="MIGRATION_SCAN_RECORDS") for x in seen)
        rng_next = [n.id for n in b.calls() if R.call_matches(n.ev, "Iterator::next") and _bounded_range(R.recv_expr(b, n))]
        if not cap and len(rng_next) == 1:
            R.guard(ctx, inst, b, ps, R.guard_edges_for_call(b, rng_next, "Some"), "a batch holds at most MIGRATION_SCAN_RECORDS records (one push per step of 0..MIGRATION_SCAN_RECORDS)")
            r_, _ = A.reach(b, [x for p_ in ps for x in A.succs(b, p_)], blocked_nodes=set(rng_next), sensitive=False)
            ctx.check(not any(p_ in r_ for p_ in ps), inst, "PIN", b.path, "at most one record is taken per step of the bounded range", None)
        else:
            ctx.check(len(cap) == 1, inst, "PIN", b.path, "a batch holds at most MIGRATION_SCAN_RECORDS records", None)
    for fn in ("migration::source_layout", "migration::copy_records", "migration::verify_records"):
        c = ctx.fn(fn, inst)
        if c is None:
            continue
        rb = ctx.sites(c, R.call("migration::record_batch"), inst, floor=1)
        lasts = R.call("slice::last")(c)
        ctx.check(len(lasts) >= 1, inst, "anchor", c.path, "the walk looks at the last record of each batch", None)
        # the resume key handed to the next batch is the last record's key
        for x in rb:
            a = R.arg_expr(c, c.nodes[x], 1)
            nm = names_of(c, a) | origin_names(c, a)
            ctx.check(bool(nm & {"after", "source_after", "destination_after"}) or a.has_call("Option::as_deref"), inst, "PROVENANCE", c.path,
                      "each batch is requested after the resume key", c.where(x), {"names": sorted(nm)})
        if fn.endswith("verify_records"):
            # resume keys: records.last().map(|record| record.key.clone()) for both walks; the walk ends only when both are empty
            maps = [n for n in c.calls() if R.call_matches(n.ev, "Option::map") and R.recv_expr(c, n).has_call("slice::last")]
            ctx.check(len(maps) == 2, inst, "PROVENANCE", c.path, "both resume keys come from the last record of their own batch (found %d)" % len(maps), None)
            from rules.common import closure_carriers
            for mnode in maps:
                okc = False
                for cl in ctx.prog.closures_of(c):
                    if mnode.id in closure_carriers(c, cl):
                        ds = cl.defs.get(0, [])
                        v = A.tracer(cl).node_value(ds[0]) if len(ds) == 1 else None
                        okc = v is not None and v.has_field("Record", "key")
                ctx.check(okc, inst, "PROVENANCE", c.path, "the resume key is that record's key", c.where(mnode.id))
            oks = A.ok_nodes(c)
            emp = [n.id for n in c.calls() if R.call_matches(n.ev, "Vec::is_empty")]
            ctx.check(len(emp) == 2, inst, "anchor", c.path, "both batches are tested for emptiness", None)
            for e_ in emp:
                R.guard(ctx, inst, c, oks, R.guard_edges_for_call(c, [e_], "true"), "verification succeeds only when both walks are exhausted")
            ln = A.pred_switches(c, lambda e: e.k == "bin" and e.extra == "Eq" and sum(1 for x in e.calls() if path_matches(x.extra, "Vec::len")) == 2)
            ctx.check(len(ln) == 1, inst, "PIN", c.path, "batches of different length fail verification", None)
            continue
        # `after` is assigned from last.key
        ok = False
        for n in c.nodes:
            if n.kind == "assign" and n.ev.get("rv") == "agg" and n.ev.get("var") == "Some":
                v = A.tracer(c).node_value(n.id)
                if v.has_call("slice::last") and v.has_field("Record", "key"):
                    ok = True
        ctx.check(ok, inst, "PROVENANCE", c.path, "the resume key is the key of the last record of the batch just processed", None)
        # the walk ends only on an empty batch
        none_e = R.guard_edges_for_call(c, lasts, "None")
        ctx.check(bool(none_e), inst, "anchor", c.path, "`records.last()` is matched (empty batch ends the walk)", None)


def check_mask(ctx, inst="C15.mask"):
    """the read-only scan does not replay the allocation journal, it *masks* the journaled extents with a forward cursor;
    that is faithful to a real recovery only if the cursor walks the extents in ascending start order from index 0"""
    from rules import roles
    b = ctx.fn("FeoxStore::scan_and_rebuild_indexes", inst)
    if b is None:
        return
    rj = ctx.sites(b, R.call("DiskIO::read_allocation_journal"), inst, exact=1)

    def on_journal(bb, n):
        e = R.recv_expr(bb, n)
        return any(c.nid in rj for c in e.calls()) or "allocation_journal" in names_of(bb, e) or roles.name_of(bb, roles.recv_local(bb, n, 0) or -1) == "allocation_journal"
    gets = ctx.sites(b, R.call("slice::get", "Vec::get").filter(on_journal, "on the allocation journal"), inst, exact=1)
    sorts = ctx.sites(b, R.call("slice::sort_unstable_by_key", "slice::sort_by_key", "slice::sort_unstable_by", "slice::sort_by", "slice::sort", "slice::sort_unstable")
                      .filter(on_journal, "on the allocation journal"), inst, exact=1)
    R.dom(ctx, inst, b, sorts, gets, "the masking cursor only ever walks a journal sorted by start sector", a_desc="allocation_journal.sort_unstable_by_key(start)")
    for s_ in sorts:
        ev = b.nodes[s_].ev
        if R.callee_name(ev).endswith("by_key"):
            from rules.common import closure_carriers
            cls = [c for c in ctx.prog.closures_of(b) if s_ in closure_carriers(b, c)]
            ok = False
            for c in cls:
                ds = c.defs.get(0, [])
                v = A.tracer(c).node_value(ds[0]) if len(ds) == 1 else None
                ok = v is not None and v.k == "field" and str(v.extra[1]) == "0" and v.has_arg(idx=2)
            ctx.check(ok, inst, "PIN", b.path, "the sort key is the extent's start sector (.0)", b.where(s_))
    ro_t = A.pred_edges(b, lambda e: e.has_field("FeoxStore", "read_only") and e.k != "bin", "true")
    R.guard(ctx, inst, b, gets, ro_t, "extents are masked only on a read-only open (a writable open replays them instead)")
    # the cursor starts at 0 and only ever advances by one
    for g in gets:
        ix = R.arg_expr(b, b.nodes[g], 1)
        ls = [x.extra for x in ix.walk() if x.k == "local"]
        ctx.check(len(ls) == 1, inst, "anchor", b.path, "the cursor is one local", b.where(g))
        for l in ls:
            for d in b.defs.get(l, []):
                n = b.nodes[d]
                v = A.tracer(b, transparent=False).node_value(d)
                init = v.k == "const" and (v.extra or {}).get("val") == 0
                step = v.k == "bin" and v.extra in ("Add", "AddWithOverflow", "AddUnchecked") and any(x.k == "const" and (x.extra or {}).get("val") == 1 for x in v.a) \
                    or (v.k == "field" and v.a and v.a[0].k == "bin" and v.a[0].extra.startswith("Add") and any(x.k == "const" and (x.extra or {}).get("val") == 1 for x in v.a[0].a))
                ctx.check(init or step, inst, "PIN", b.path, "the cursor starts at 0 and advances by exactly one extent", b.where(d), {"def": v.show()[:80]})
    # a record that starts before the next journaled extent but reaches into it would be overwritten by a real replay:
    # the read-only scan refuses such an image. The probe looks at the cursor's own entry.
    jo = ctx.fn("recovery::journal_overlaps", inst)
    if jo is not None:
        from rules.common import closure_ret_cmp
        g2 = ctx.sites(jo, R.call("slice::get", "Vec::get"), inst, exact=1)
        for g in g2:
            ix = R.arg_expr(jo, jo.nodes[g], 1)
            ctx.check(ix.k == "arg" and ix.extra[0] == 2, inst, "PIN", jo.path, "the overlap probe reads the entry at the cursor itself (`journal.get(index)`)", jo.where(g), {"index": ix.show()[:60]})
            rv = R.recv_expr(jo, jo.nodes[g])
            ctx.check(rv.has_arg(idx=1), inst, "PIN", jo.path, "the probe reads the journal it was given", jo.where(g))
        ok = False
        for c in ctx.prog.closures_of(jo):
            x = closure_ret_cmp(c)
            if x and x["op"] == "Lt" and "extent_end" in x["rhs_upvars"] and x["lhs_e"].has_arg(idx=2) and \
                    not any(y.k == "bin" for y in x["lhs_e"].walk()) and not any(y.k == "bin" for y in x["rhs_e"].walk()):
                ok = True
        ctx.check(ok, inst, "PIN", jo.path, "overlap iff the journaled extent starts before the record's end (`start < extent_end`, strict)", None)
    calls = ctx.sites(b, R.call("recovery::journal_overlaps"), inst, exact=1)
    for c in calls:
        a0 = R.arg_expr(b, b.nodes[c], 0)
        a1 = R.arg_expr(b, b.nodes[c], 1)
        a2 = R.arg_expr(b, b.nodes[c], 2)
        ctx.check("allocation_journal" in names_of(b, a0) or any(cc.nid in rj for cc in a0.calls()), inst, "PROVENANCE", b.path, "the overlap probe gets the (sorted) allocation journal", b.where(c))
        curs = {x.extra for g in gets for x in R.arg_expr(b, b.nodes[g], 1).walk() if x.k == "local"}
        ctx.check(a1.k == "local" and a1.extra in curs, inst, "PROVENANCE", b.path, "and the masking cursor itself (no offset)", b.where(c), {"arg": a1.show()[:60]})
        ctx.check(a2.has_call("RecordFormat::total_size") or "extent_end" in names_of(b, a2), inst, "PROVENANCE", b.path, "and the end of the record's own extent", b.where(c))
        R.guard(ctx, inst, b, [c], ro_t, "the probe runs on a read-only open")
        errs = A.error_nodes(b)
        for (sw, l) in R.guard_edges_for_call(b, [c], "true"):
            r, _ = A.reach(b, [t for (t, lab) in b.nodes[sw].succ if lab == l])
            ctx.check(not any(x in r for x in V.PUB_REC(b)) and any(e in r for e in errs), inst, "FOLLOW", b.path, "an overlapping record makes the read-only open fail (it is never indexed)", b.where(sw))
    # the writable twin: replay happens before the first block is scanned
    rp = ctx.sites(b, R.call("DiskIO::replay_allocation_journal"), inst, exact=1)
    for x in rp:
        e = R.arg_expr(b, b.nodes[x], 1)
        ctx.check(any(c.nid in rj for c in e.calls()) or "allocation_journal" in names_of(b, e), inst, "PROVENANCE", b.path,
                  "the journal replayed is the one just read", b.where(x))


def check(ctx):
    check_stamp(ctx)
    check_batches(ctx)
    check_mask(ctx)
    check_ro(ctx)
    check_dest(ctx)
    check_order(ctx)
    check_rollback(ctx)
    check_ambiguous(ctx)
    check_preserve(ctx)


def check_bin(ctx):
    """the feox-migrate binary only goes through feoxdb::migrate: it touches no file, directory or process itself (every
    guarantee of the property - read-only source, no overwrite, publish after verify, rollback - lives in the library; a
    "clean up after a failed run" in the CLI deletes a destination the failed run never owned)"""
    import re
    inst = "C15.bin"
    n = 0
    # mutating file-system / process primitives (reads such as fs::metadata, File::open, Path::exists are harmless and allowed)
    FS = re.compile(r"^(std::fs::(remove_file|remove_dir|remove_dir_all|rename|copy|write|create_dir|create_dir_all|hard_link|soft_link|set_permissions)\b|"
                    r"std::fs::File::(create|create_new|set_len|set_permissions|options)\b|std::fs::OpenOptions::(write|append|create|create_new|truncate)\b|"
                    r"std::os::unix::fs::(symlink|chown|lchown|chroot)|std::process::Command|libc::(unlink|rename|truncate|ftruncate|open|creat|write|pwrite)|nix::)")
    OK = re.compile(r"^$")
    for b in ctx.prog.product_bodies():
        for c in b.calls():
            n += 1
            nm = R.callee_name(c.ev)
            if FS.search(nm) and not OK.search(nm):
                ctx.fail(inst, "FORBID", b.path, "the CLI touches the file system / spawns a process itself: " + nm.split("<")[0][-60:], b.where(c.id))
            for bad in ("fs::rename", "fs::copy", "fs::write", "File::create", "fs::remove_file", "OpenOptions::open", "fs::hard_link", "fs::remove_dir_all", "File::set_len"):
                if call_matches(c.ev, bad):
                    ctx.fail(inst, "FORBID", b.path, "the CLI touches files itself: " + bad, b.where(c.id))
    ms = ctx.prog.call_sites("migrate")
    ctx.check(len(ms) >= 1, inst, "CALLERS", "-", "the CLI calls feoxdb::migrate (%d call site(s), %d calls scanned)" % (len(ms), n), None)
