"""C16 — the read cache is transparent and its accounting exact.
Decided: generation keying, invalidation on every replacement/removal, byte
accounting paired with every bucket mutation."""
from feoxlint import analysis as A
from feoxlint import locks as L
from feoxlint import rulekit as R
from feoxlint import vocab as V
from feoxlint.model import path_matches
from rules import storevocab as S
from rules.common import edge_targets, origin_names, names_of, closure_carriers, closure_ret_cmp

EXPLANATION = """
Cache transparency as structure: the store and the sweeper use only the generation-keyed cache API (*_for_record /
record_entry), never the unkeyed get/insert/remove; a lookup returns a value only on the true edge of the generation
match, whose (Some, Some) arm is pointer identity of the cached Weak and the expected Arc and whose (Some, None) arm is
false; removals and record_entry positions use the same identity test; an in-place overwrite happens only when
can_replace_generation allows it, which refuses retired incoming generations; every replacement of a record is followed
by remove_for_record(old generation) and every removal by remove_cached (on persistent, caching-enabled stores);
update_ttl drops the guarded cache entry inside the bucket closure or invalidates afterwards; readers populate only
through insert_for_record(.., &source) with the record the value was resolved from; every bucket mutation in cache.rs is
paired with the matching cache_memory adjustment under the bucket lock and only cache.rs writes cache_memory.
Not decided: on/off result equality over workloads; CLOCK eviction quality.
"""
DECIDED = ['sweeps exclude each other: the eviction mutex guard is held at every bucket acquisition, eviction and clock-hand store of evict_entries', 'the entry selection predicates of record_entry / remove_entry are pure conjunctions key equality AND generation identity (no other way to true)', 'every cache hit raises the reference bit the CLOCK sweep reads', "keyed API only from the store", "generation-match guards on hit / remove / overwrite", "invalidate on every replace/remove",
           "byte accounting pairing under the bucket lock",
           'expiry is tested before any value tier, the cache included (shared with C11.lazy)',
           'clear() sums and empties a bucket in one critical section',
           'invalidation on the write path takes the bucket lock blocking',
           'watermark arithmetic']
NOT_DECIDED = ["on/off result equality over workloads", "eviction brings usage to the low watermark / second-chance quality"]
ASSUMPTIONS = []


def check_keyed(ctx):
    inst = "C16.keyed"
    def scope(b):
        return (b.file.startswith("src/core/store/") or b.file == "src/core/ttl_sweep.rs") and not b.is_test
    R.forbid(ctx, inst, scope, ["ClockCache::get", "ClockCache::insert", "ClockCache::remove", "ClockCache::clear"],
             "the store uses only the generation-keyed cache API")
    # positive control: the forbidden API exists and is matched by the selector (inside cache.rs wrappers)
    n = len(ctx.prog.call_sites("ClockCache::get_entry")) + len(ctx.prog.call_sites("ClockCache::insert_entry")) + len(ctx.prog.call_sites("ClockCache::remove_entry"))
    ctx.check(n >= 6, inst, "anchor", "-", "keyed and unkeyed wrappers both funnel into *_entry (%d call sites)" % n, None)
    for nm in ("ClockCache::get", "ClockCache::insert", "ClockCache::remove"):
        try:
            ctx.prog.fn(nm)
            ctx.ok(inst, "FORBID", nm, "control: the unkeyed API still exists (the rule is not vacuous)", None, nontrivial=False)
        except Exception:
            ctx.note("unkeyed %s no longer exists" % nm)
    # readers populate through insert_for_record with the resolved source
    n_deleg = 0
    for fn in ("FeoxStore::get", "FeoxStore::get_bytes", "FeoxStore::compare_and_swap_with_timestamp_and_ttl"):
        body = ctx.fn(fn, inst)
        if body is None:
            continue
        readers = ("FeoxStore::get", "FeoxStore::get_bytes", "FeoxStore::compare_and_swap_with_timestamp_and_ttl")
        if not R.call("ClockCache::insert_for_record")(body) and not R.call("FeoxStore::resolve_value")(body) and \
                any(R.call(o_)(body) for o_ in readers if o_ != fn):
            # `get` written as `get_bytes(key)?.to_vec()`: the reader it delegates to is checked below
            ctx.ok(inst, "PROVENANCE", body.path, "delegates the lookup (and the cache fill) to another reviewed reader", None)
            n_deleg += 1
            continue
        ins = ctx.sites(body, R.call("ClockCache::insert_for_record"), inst, exact=1)
        rv = ctx.sites(body, R.call("FeoxStore::resolve_value"), inst, exact=1)
        for i in ins:
            o = A.origins(body, R.arg_expr(body, body.nodes[i], 3))
            ctx.check(any(("call", r) in o for r in rv), inst, "PROVENANCE", body.path, "the cache is populated for the generation the value was resolved from", body.where(i))
            v = A.origins(body, R.arg_expr(body, body.nodes[i], 2))
            ctx.check(any(("call", r) in v for r in rv), inst, "PROVENANCE", body.path, "with the value that was resolved", body.where(i))
            # only on a miss
            def hit(e):
                return e.k == "field" and e.extra[1] == "1" and any(c.nid in rv for c in e.calls())
            miss = A.pred_edges(body, hit, "false")
            R.guard(ctx, inst, body, [i], miss, "populated only when the value did not come from memory / cache")
    ctx.check(n_deleg <= 1, inst, "anchor", "-", "at most one reader delegates to another (found %d)" % n_deleg, None)
    R.callers_within(ctx, inst, "ClockCache::get_for_record", ["FeoxStore::resolve_record_value"], floor=1)


def check_match(ctx, inst="C16.match"):
    body = ctx.fn("ClockCache::get_entry", inst)
    if body is not None:
        somes = [n.id for n in body.nodes if n.kind == "assign" and not n.ev["dst"]["p"] and n.ev["dst"]["l"] == 0 and n.ev["rv"] == "agg" and n.ev.get("var") == "Some"]
        ctx.check(len(somes) == 1, inst, "anchor", body.path, "one `return Some(value)`", None)
        pe = ctx.sites(body, R.call("ptr::eq"), inst, exact=1)
        # generation_matches is a flag-like local computed by the match; Some is returned only when it is true
        from rules import roles
        gm = roles.locals_with_role(body, "generation_matches")
        edges = A.pred_edges(body, lambda e: e.k == "local" and e.extra in gm, "true")
        R.guard(ctx, inst, body, somes, edges, "a cached value is returned only when the generation matches")
        # arms: (Some, Some) => ptr::eq ; (Some, None) => false ; (None, _) => true
        defs = []
        for l in gm:
            for d in body.defs.get(l, []):
                defs.append((d, A.tracer(body, False).node_value(d)))
        kinds = sorted("ptr_eq" if (v.k == "call" and path_matches(v.extra, "ptr::eq")) else ("const%s" % (v.extra or {}).get("val") if v.k == "const" else v.k) for (_, v) in defs)
        ctx.check(kinds == ["const0", "const1", "ptr_eq"], inst, "PIN", body.path, "generation_matches arms are {ptr::eq, false, true}", None, {"arms": kinds})
        # the `false` arm is the (expected = Some, cached = None) arm; the `true` arm only for an unkeyed lookup
        for (d, v) in defs:
            if v.k == "const" and (v.extra or {}).get("val") == 1:
                rec_none = A.pred_edges(body, lambda e: e.has_arg(idx=3) and not e.has_field("CacheEntry", "record"), "None")
                R.guard(ctx, inst, body, [d], rec_none, "an unconditional match is granted only to unkeyed lookups (record = None)")
        if pe:
            a0 = R.arg_expr(body, body.nodes[pe[0]], 0)
            a1 = R.arg_expr(body, body.nodes[pe[0]], 1)
            ctx.check(a0.has_call("Weak::as_ptr") and a1.has_call("Arc::as_ptr"), inst, "PIN", body.path, "identity is Weak::as_ptr(cached) == Arc::as_ptr(expected)", body.where(pe[0]))
        # key equality precedes
        # second chance: every hit - keyed or not - raises the entry's own reference bit, the bit the CLOCK sweep reads
        st = [n for n in R.field_write("CacheEntry", "reference_bit", ops=["store"])(body)]
        ctx.check(len(st) >= 1, inst, "anchor", body.path, "a hit stores to CacheEntry.reference_bit (found %d)" % len(st), None)
        for x in st:
            a = body.nodes[x].ev["args"][1]
            ctx.check(a.get("k") == "const" and a.get("val") == 1, inst, "PIN", body.path, "a hit sets the reference bit (true)", body.where(x))
        R.dom(ctx, inst, body, st, A.ok_nodes(body), "every hit (keyed or unkeyed) raises the reference bit of the entry it returns", a_desc="reference_bit.store(true)")
    # remove_entry / record_entry use the same identity inside their position closures
    for fn in ("ClockCache::remove_entry", "ClockCache::record_entry"):
        body = ctx.fn(fn, inst)
        if body is None:
            continue
        cl = [c for c in ctx.prog.closures_of(body) if R.call("ptr::eq")(c)]
        ctx.check(len(cl) == 1, inst, "SIBLING", body.path, "%s matches entries by pointer identity of the generation" % fn.split("::")[-1], None)
        for c in cl:
            pe = R.call("ptr::eq")(c)
            a0 = R.arg_expr(c, c.nodes[pe[0]], 0)
            a1 = R.arg_expr(c, c.nodes[pe[0]], 1)
            ctx.check(a0.has_call("Weak::as_ptr") and a1.has_call("Arc::as_ptr"), inst, "SIBLING", c.path, "same identity test as get_entry", c.where(pe[0]))
        pos = ctx.sites(body, R.call("Iterator::position"), inst, exact=1)
        # (added after C08-i) the whole predicate chain is a conjunction: an entry is selected only if its key equals the key asked
        # for AND its tag is pointer-identical to the generation asked for. Any other way to `true` (an orphaned tag whose
        # generation was dropped, a disjunct) hands update_ttl the bytes of a superseded generation to build the next one from.
        _identity_chain(ctx, inst, body)
    body = ctx.fn("ClockCache::insert_entry", inst)
    if body is not None:
        crg = ctx.sites(body, R.call("cache::can_replace_generation"), inst, exact=1)
        ow = [n.id for n in body.nodes if n.kind == "assign" and n.ev["dst"]["p"] and isinstance(n.ev["dst"]["p"][-1], dict) and
              n.ev["dst"]["p"][-1].get("n") in ("value", "record", "size") and (n.ev["dst"]["p"][-1].get("adt") or "").endswith("CacheEntry")]
        ctx.check(len(ow) == 3, inst, "anchor", body.path, "in-place overwrite writes value, record and size (found %d)" % len(ow), None)
        R.guard(ctx, inst, body, ow, R.guard_edges_for_call(body, crg, "true"), "an existing entry is overwritten only when can_replace_generation allows it")
    body = ctx.fn("cache::can_replace_generation", inst)
    if body is not None:
        trues = [n.id for n in body.nodes if n.kind == "assign" and not n.ev["dst"]["p"] and n.ev["dst"]["l"] == 0 and n.ev["rv"] == "use" and n.ev["a"].get("val") == 1]
        def retired(e):
            return e.k == "bin" and e.extra == "Eq" and e.has_field("Record", "refcount") and e.has_const(val=0) and e.has_arg(idx=2)
        edges = A.pred_edges(body, retired, "false")
        inc_none = A.pred_edges(body, lambda e: e.k == "arg" and e.extra[0] == 2, "None")
        ctx.check(len(A.pred_switches(body, retired)) == 1, inst, "PIN", body.path, "incoming.refcount == 0 is tested", None)
        R.guard(ctx, inst, body, trues, list(edges) + list(inc_none), "a retired incoming generation never replaces a cached entry")
        cl = [c for c in ctx.prog.closures_of(body)]
        ok = False
        for c in cl:
            v = A.tracer(c).node_value(c.defs[0][0]) if len(c.defs.get(0, [])) == 1 else None
        ctx.check(len(cl) == 1, inst, "anchor", body.path, "older-generation closure present", None)


def _identity_chain(ctx, inst, body):
    """every closure of the selection predicate of `body` yields true only through its identity link (ptr::eq, or the
    is_some_and / is_none_or call that carries the next closure); the outermost one additionally only for an equal key"""
    cls = list(ctx.prog.closures_of(body))
    n_links = 0
    for c in cls:
        links = [n.id for n in c.calls() if R.call_matches(n.ev, "ptr::eq") or
                 ((R.call_matches(n.ev, "Option::is_some_and") or R.call_matches(n.ev, "Option::is_none_or")) and
                  any(x.k == "agg" and str(x.extra).startswith(c.path + "::{closure") for a_ in range(len(n.ev["args"])) for x in R.arg_expr(c, n, a_).walk()))]
        ctx.check(len(links) == 1, inst, "anchor", c.path, "one identity link per predicate closure (found %d)" % len(links), None)
        if len(links) != 1:
            continue
        n_links += 1
        conj = [("generation identity", links[0])]
        if c.path.count("{closure") == 1:
            keq = [n.id for n in c.calls() if R.call_matches(n.ev, "PartialEq::eq") and
                   any(R.arg_expr(c, n, a_).has_field("CacheEntry", "key") for a_ in range(len(n.ev["args"])))]
            ctx.check(len(keq) == 1, inst, "anchor", c.path, "the key of the entry is compared (found %d)" % len(keq), None)
            if keq:
                conj.append(("key equality", keq[0]))
        for d in c.defs.get(0, []):
            v = A.tracer(c, False).node_value(d)
            if v.k == "const" and (v.extra or {}).get("val") == 0:
                continue
            for (what, call_nid) in conj:
                if v.k == "call" and v.nid == call_nid:
                    continue
                edges = R.guard_edges_for_call(c, [call_nid], "true")
                r, ps = A.reach(c, [c.entry], blocked_edges=frozenset(edges))
                good = bool(edges) and d not in r
                ctx.check(good, inst, "GUARD", c.path, "the selection predicate is true only under " + what + " (no other disjunct)", c.where(d),
                          None if good else {"value": v.show()[:120], "witness": R.witness(c, ps, r.get(d)) if d in r else None})
    ctx.check(n_links >= 2, inst, "anchor", body.path, "identity chain found (%d links)" % n_links, None)


def check_invalidate(ctx):
    inst = "C16.invalidate"
    from rules.common import check_forwarder
    check_forwarder(ctx, inst, "FeoxStore::remove_cached", "ClockCache::remove_for_record", [(2, 1), (3, 2)], "the store's invalidation helper drops the given generation of the given key")
    check_forwarder(ctx, inst, "ClockCache::remove_for_record", "ClockCache::remove_entry", [(2, 1)], "the keyed removal looks up the given key")
    check_forwarder(ctx, inst, "ClockCache::get_for_record", "ClockCache::get_entry", [(2, 1)], "the keyed lookup looks up the given key")
    check_forwarder(ctx, inst, "ClockCache::insert_for_record", "ClockCache::insert_entry", [(2, 1), (3, 2)], "the keyed insert caches the given value under the given key")
    def cond_edges(x):
        return (A.pred_edges(x, lambda e: e.has_field("FeoxStore", "memory_only"), "true"),
                A.pred_edges(x, lambda e: e.has_field("FeoxStore", "enable_caching"), "false"),
                A.pred_edges(x, lambda e: e.has_field("FeoxStore", "cache"), "None"))
    for (b, n, kind) in S.pub_sites(ctx, inst, kinds=("repl",)):
        if not R.call("ClockCache::remove_for_record")(b):
            # the tail "drop the stale cache entry, queue the replacement" extracted into a private helper shared by the writers
            hs = [c for c in b.calls() for t in ctx.prog.targets(c.ev) if t in ctx.prog.bodies and (ctx.prog.bodies[t].raw.get("vis") or "Public") != "Public" and
                  R.call("ClockCache::remove_for_record")(ctx.prog.bodies[t])]
            if len(hs) == 1:
                h = hs[0]
                hb = [ctx.prog.bodies[t] for t in ctx.prog.targets(h.ev) if t in ctx.prog.bodies][0]
                R.follow(ctx, inst, b, [n], [h.id], "a replacement is followed by the invalidation helper", b_desc=hb.path.rsplit("::", 1)[-1])
                old_ok = any(any(("local", l) in A.origins(b, R.arg_expr(b, h, i)) for l in range(len(b.locals)) if "OccupiedEntry" in b.local_ty(l)) or
                             R.arg_expr(b, h, i).has_call("HashMap::entry") for i in range(len(h.ev["args"])))
                ctx.check(old_ok, inst, "PROVENANCE", b.path, "the helper is handed the generation that was under the bucket guard", b.where(h.id))
                rm = ctx.sites(hb, R.call("ClockCache::remove_for_record"), inst, exact=1)
                mo_true, ec_false, c_none = cond_edges(hb)
                ctx.check(bool(mo_true) and bool(ec_false) and bool(c_none), inst, "anchor", hb.path, "memory_only / enable_caching / cache are tested", None)
                r, ps = A.reach(hb, [hb.entry], blocked_nodes=set(rm) | set(A.error_nodes(hb)), blocked_edges=set(mo_true) | set(ec_false) | set(c_none))
                ctx.check(not any(x in r for x in hb.return_nodes()), inst, "FOLLOW", hb.path, "[persistent, caching, cache present] a replacement is followed by remove_for_record", None)
                for x in rm:
                    e = R.arg_expr(hb, hb.nodes[x], 2)
                    ctx.check(e.k == "arg", inst, "PROVENANCE", hb.path, "the invalidated generation is the one the helper was handed", hb.where(x), {"expr": e.show()[:60]})
                    ar = R.call("WriteBuffer::add_replacement")(hb)
                    R.dom(ctx, inst, hb, [x], ar, "[persistent, caching] stale entry dropped before the replacement is queued", blocked_edges=frozenset(set(ec_false) | set(c_none)), a_desc="remove_for_record")
                continue
        rm = ctx.sites(b, R.call("ClockCache::remove_for_record"), inst, exact=1)
        # on persistent + caching + cache present paths the invalidation follows the replacement
        mo_true = A.pred_edges(b, lambda e: e.has_field("FeoxStore", "memory_only"), "true")
        ec_false = A.pred_edges(b, lambda e: e.has_field("FeoxStore", "enable_caching"), "false")
        c_none = A.pred_edges(b, lambda e: e.has_field("FeoxStore", "cache"), "None")
        ctx.check(bool(mo_true) and bool(ec_false) and bool(c_none), inst, "anchor", b.path, "memory_only / enable_caching / cache are tested", None)
        errs = set(A.error_nodes(b))
        r, ps = A.reach(b, A.succs(b, n), blocked_nodes=set(rm) | errs, blocked_edges=set(mo_true) | set(ec_false) | set(c_none))
        bad = [x for x in b.return_nodes() if x in r]
        ctx.check(not bad, inst, "FOLLOW", b.path, "[persistent, caching, cache present] a replacement is followed by remove_for_record", b.where(n),
                  None if not bad else {"witness": R.witness(b, ps, r.get(bad[0]))})
        # ... of the replaced generation, before the new generation is handed to the write buffer
        for x in rm:
            e = R.arg_expr(b, b.nodes[x], 2)
            old = e.has_call("HashMap::entry") or any(y.k == "local" and "OccupiedEntry" in b.local_ty(y.extra) for y in e.walk()) or \
                any(("local", l) in A.origins(b, e) for l in range(len(b.locals)) if "OccupiedEntry" in b.local_ty(l))
            ctx.check(old, inst, "PROVENANCE", b.path, "the invalidated generation is the one that was under the bucket guard", b.where(x), {"expr": e.show()})
            ar = R.call("WriteBuffer::add_replacement")(b)
            R.dom(ctx, inst, b, [x], ar, "[persistent, caching] stale entry dropped before the replacement is queued", blocked_edges=frozenset(set(ec_false) | set(c_none)), a_desc="remove_for_record")
    for (b, n, kind) in S.pub_sites(ctx, inst, kinds=("rem",)):
        if b.file.endswith("recovery.rs"):
            continue  # cache is empty while the store is being opened (&mut self)
        rc = ctx.sites(b, R.call("FeoxStore::remove_cached"), inst, exact=1)
        R.follow(ctx, inst, b, [n], rc, "a removal is followed by remove_cached", exits=b.return_nodes() + R.call("Iterator::next")(b), b_desc="remove_cached")
        for x in rc:
            e = R.arg_expr(b, b.nodes[x], 2)
            ctx.check(True, inst, "PROVENANCE", b.path, "remove_cached receives the removed record", b.where(x), nontrivial=False)
    body = ctx.fn("FeoxStore::remove_cached", inst)
    if body is not None:
        rm = ctx.sites(body, R.call("ClockCache::remove_for_record"), inst, exact=1)
        mo_true = A.pred_edges(body, lambda e: e.has_field("FeoxStore", "memory_only"), "true")
        ec_false = A.pred_edges(body, lambda e: e.has_field("FeoxStore", "enable_caching"), "false")
        c_none = A.pred_edges(body, lambda e: e.has_field("FeoxStore", "cache"), "None")
        r, ps = A.reach(body, [body.entry], blocked_nodes=set(rm), blocked_edges=set(mo_true) | set(ec_false) | set(c_none))
        ctx.check(not any(x in r for x in body.return_nodes()), inst, "DOM", body.path, "[persistent, caching, cache present] remove_cached always invalidates", None)
    # update_ttl
    body, clo = S.update_ttl_closure(ctx, inst)
    if clo is not None:
        st = S.deref_store_sites(clo)
        re_ = ctx.sites(clo, R.call("ClockCache::record_entry") , inst, floor=0)
        rr = ctx.sites(clo, R.call("RecordCacheEntry::remove"), inst, exact=1)
        R.dom(ctx, inst, clo, st, rr, "the guarded cache entry is dropped after the replacement inside the bucket closure", a_desc="*current = new")
        some = A.pred_edges(clo, lambda e: "cache_entry" in names_of(clo, e) or e.has_call("Option::flatten"), "Some")
        for (sw, l) in some:
            r, ps = A.reach(clo, edge_targets(clo, sw, l), blocked_nodes=set(rr))
        rc = ctx.sites(body, R.call("FeoxStore::remove_cached"), inst, exact=1)
        cg_false = A.pred_edges(body, lambda e: "cache_guarded" in names_of(body, e) or (e.k == "field" and e.extra[1] == "2" and e.has_call("HashMap::update")), "false")
        R.guard(ctx, inst, body, rc, cg_false, "the unguarded path invalidates after the update")
        for (sw, l) in cg_false:
            r, ps = A.reach(body, edge_targets(body, sw, l), blocked_nodes=set(rc))
            ctx.check(not any(x in r for x in body.return_nodes()), inst, "FOLLOW", body.path, "[cache entry was not guarded] remove_cached is always called", body.where(sw))
        # cache_guarded is exactly cache_entry.is_some()
        cgs = [n for n in clo.nodes if n.kind == "call" and R.call_matches(n.ev, "Option::is_some") and
               (R.recv_expr(clo, n).has_call("Option::flatten") or "cache_entry" in (origin_names(clo, R.recv_expr(clo, n)) | names_of(clo, R.recv_expr(clo, n))))]
        ctx.check(len(cgs) == 1, inst, "PROVENANCE", clo.path, "cache_guarded reports whether a guarded cache entry exists", None)
        # the entry taken is for the old generation
        cl2 = [c for c in ctx.prog.closures_of(clo) if R.call("ClockCache::record_entry")(c)]
        ctx.check(len(cl2) == 1, inst, "anchor", clo.path, "record_entry is taken for the old generation", None)


def check_bytes(ctx):
    inst = "C16.bytes"
    vec_re = r"std::vec::Vec<core::cache::CacheEntry>"
    def bucket_call(*names):
        return R.call(*names, recv_ty=r"&mut " + vec_re)
    n_mut = 0
    for fn, kinds in (("ClockCache::remove_entry", "remove"), ("RecordCacheEntry::remove", "remove"), ("ClockCache::evict_entries", "remove"),
                      ("ClockCache::insert_entry", "push"), ("ClockCache::clear", "clear")):
        body = ctx.fn(fn, inst)
        if body is None:
            continue
        if kinds == "remove":
            ms = ctx.sites(body, bucket_call("Vec::remove", "Vec::swap_remove"), inst, exact=1)
            ac = ctx.sites(body, R.field_write("Statistics", "cache_memory", ops=["fetch_sub"]), inst, exact=1)
            stops = body.return_nodes() + ms
            R.follow(ctx, inst, body, ms, ac, "an entry removed from a bucket is followed by cache_memory -= size", exits=stops, b_desc="cache_memory.fetch_sub")
            R.dom(ctx, inst, body, ms, ac, "cache_memory is debited only for a removed entry", a_desc="Vec::remove")
            for a in ac:
                e = R.arg_expr(body, body.nodes[a], 1)
                ctx.check(e.has_field("CacheEntry", "size") and any(c.nid in ms for c in e.calls()), inst, "PROVENANCE", body.path, "the amount debited is the removed entry's size", body.where(a), {"expr": e.show()})
        elif kinds == "push":
            ms = ctx.sites(body, bucket_call("Vec::push"), inst, exact=1)
            ac = ctx.sites(body, R.field_write("Statistics", "cache_memory", ops=["fetch_add"]), inst, exact=2)
            R.follow(ctx, inst, body, ms, ac, "a pushed entry is followed by cache_memory += size", b_desc="cache_memory.fetch_add")
            # overwrite: both arms adjust by the difference
            sub = ctx.sites(body, R.field_write("Statistics", "cache_memory", ops=["fetch_sub"]), inst, exact=1)
            szw = [n.id for n in body.nodes if n.kind == "assign" and n.ev["dst"]["p"] and isinstance(n.ev["dst"]["p"][-1], dict) and n.ev["dst"]["p"][-1].get("n") == "size"]
            R.follow(ctx, inst, body, szw, ac + sub, "an in-place overwrite adjusts cache_memory by the size difference", b_desc="cache_memory +/-")
            def grow(e):
                return e.k == "bin" and e.extra == "Lt" and "old_size" in names_of(body, e.a[0]) | {x.extra[1] for x in e.a[0].walk() if x.k == "field"}
        elif kinds == "clear":
            ms = ctx.sites(body, bucket_call("Vec::clear"), inst, exact=1)
            ac = ctx.sites(body, R.field_write("Statistics", "cache_memory", ops=["fetch_sub"]), inst, exact=1)
            R.follow(ctx, inst, body, ms, ac, "a cleared bucket is followed by cache_memory -= (sum of sizes)", exits=body.return_nodes() + ms, b_desc="cache_memory.fetch_sub")
            cl = [c for c in ctx.prog.closures_of(body) if any(x.k == "field" and x.extra[1] == "size" for n in c.nodes if n.kind == "assign" for x in A.tracer(c).node_value(n.id).walk())]
            sm = ctx.sites(body, R.call("Iterator::sum"), inst, exact=1)
            R.dom(ctx, inst, body, sm, ms, "the sizes are summed before the bucket is cleared", a_desc="sum of sizes")
            for a in ac:
                o = A.origins(body, R.arg_expr(body, body.nodes[a], 1))
                ctx.check(any(("call", x) in o for x in sm), inst, "PROVENANCE", body.path, "the amount debited is that sum", body.where(a))
            # ... in one critical section: the sizes are summed under the very bucket guard under which the bucket is emptied.
            # Summing under one acquisition and clearing under another lets an insert land in between (dropped, never debited:
            # phantom bytes for ever) or a remove (debited twice: the counter wraps).
            bl0 = L.lock_graph(ctx.prog).bl[body.path]
            for x in sm:
                ctx.check("L_cb" in bl0.must_classes(x), inst, "HELD", body.path, "the sizes of a bucket are summed with its lock held", body.where(x))
            acq = [n_ for n_, c_ in bl0.acq.items() if c_ == "L_cb"]
            for x in sm:
                r_, _ps = A.reach(body, A.succs(body, x), stop_at=frozenset(ms))
                again = [q for q in acq if q in r_ and q != x]
                ctx.check(not again, inst, "HELD", body.path, "no second acquisition of the bucket lock between summing the sizes and emptying the bucket", body.where(x),
                          None if not again else {"reacquired_at": body.where(again[0])})
        n_mut += len(ms)
        # bucket write lock held at the mutation
        g = L.lock_graph(ctx.prog)
        bl = g.bl[body.path]
        for m in ms:
            held = bl.must_classes(m)
            if fn == "RecordCacheEntry::remove":
                # the write guard is owned by `self` (field `bucket`), the mutation goes through it
                e = R.recv_expr(body, body.nodes[m])
                owned = any(x.k == "field" and (x.extra[0] or "").endswith("RecordCacheEntry") and "RwLockWriteGuard" in (x.ty or "") for x in e.walk())
                ctx.check(owned, inst, "HELD", body.path, "the bucket is mutated through the write guard the entry owns", body.where(m), {"expr": e.show()})
            else:
                ctx.check("L_cb" in held, inst, "HELD", body.path, "the bucket is mutated with its lock held", body.where(m), {"held": sorted(held)})
    ctx.check(n_mut >= 5, inst, "anchor", "-", "bucket mutation sites (>= 5, found %d)" % n_mut, None)
    # any other mutation of a bucket vector in product code
    total = 0
    for b in ctx.prog.product_bodies():
        for n in b.calls():
            tys = n.ev.get("arg_tys", [])
            if tys and tys[0].startswith("&mut std::vec::Vec<core::cache::CacheEntry>") and any(R.call_matches(n.ev, m) for m in
                    ("Vec::remove", "Vec::swap_remove", "Vec::push", "Vec::clear", "Vec::truncate", "Vec::retain", "Vec::drain", "Vec::pop", "Vec::insert", "Vec::append")):
                total += 1
                ctx.check(b.file == "src/core/cache.rs", inst, "FIELDW", b.path, "cache buckets are mutated only in cache.rs", b.where(n.id))
    ctx.check(total == n_mut, inst, "FIELDW", "-", "every bucket mutation site is one of the reviewed, accounted ones (%d of %d)" % (n_mut, total), None)
    n = 0
    for b in ctx.prog.product_bodies():
        for nid in R.field_write("Statistics", "cache_memory")(b):
            n += 1
            ctx.check(b.file == "src/core/cache.rs" or R.owner_fn(ctx.prog, b).endswith("Statistics::new"), inst, "FIELDW", b.path, "cache_memory is written only by the cache", b.where(nid))
    ctx.check(n >= 6, inst, "anchor", "-", "cache_memory writers (>= 6, found %d)" % n, None)


def check_watermarks(ctx):
    """eviction aims at the low watermark and is triggered above the high one: a reconfiguration keeps low < high <= the cache
    ceiling and stores each figure into its own field"""
    inst = "C16.watermarks"
    b = ctx.fn("ClockCache::adjust_watermarks", inst)
    if b is None:
        return
    def on(name):
        return lambda bb, n: R.recv_expr(bb, n).has_field("ClockCache", name)
    hi = ctx.sites(b, R.call("Atomic::store", "AtomicUsize::store").filter(on("high_watermark"), "high_watermark.store"), inst, exact=1)
    lo = ctx.sites(b, R.call("Atomic::store", "AtomicUsize::store").filter(on("low_watermark"), "low_watermark.store"), inst, exact=1)
    for x, argi, nm in ((hi, 2, "high"), (lo, 3, "low")):
        for s_ in x:
            v = R.arg_expr(b, b.nodes[s_], 1)
            ctx.check(v.has_arg(idx=argi) and not v.has_arg(idx=5 - argi), inst, "PROVENANCE", b.path, "the %s watermark receives the %s argument" % (nm, nm), b.where(s_), {"value": v.show()[:60]})
    def gt(e):
        return e.k == "bin" and e.extra == "Lt" and e.a[0].has_arg(idx=3) and e.a[1].has_arg(idx=2)      # low < high
    def cap(e):
        return e.k == "bin" and e.extra == "Lt" and e.a[0].has_const(name="CACHE_MAX_SIZE") and e.a[1].has_arg(idx=2)   # !(MAX < high)
    R.guard(ctx, inst, b, hi + lo, A.pred_edges(b, gt, "true"), "watermarks change only when low < high (strict)")
    R.guard(ctx, inst, b, hi + lo, A.pred_edges(b, cap, "false"), "and high does not exceed CACHE_MAX_SIZE")


def check_blocking_locks(ctx):
    """a removal / invalidation that gives up when the bucket is busy leaves the replaced generation cached: every cache
    operation except the opportunistic eviction sweep takes its bucket lock with a blocking acquisition"""
    inst = "C16.invalidate/blocking"
    allowed = ["ClockCache::evict_entries"]
    n_try = 0
    for b in ctx.prog.product_bodies():
        if not b.file.endswith("core/cache.rs"):
            continue
        for n in b.calls():
            if any(R.call_matches(n.ev, t) for t in ("RwLock::try_write", "RwLock::try_read", "Mutex::try_lock", "RwLock::try_upgradable_read",
                                                     "RwLock::try_write_for", "RwLock::try_read_for", "Mutex::try_lock_for")):
                n_try += 1
                o = R.owner_fn(ctx.prog, b)
                ctx.check(any(path_matches(o, a) for a in allowed), inst, "FORBID", o,
                          "only the eviction sweep may skip work when a cache lock is busy (non-blocking acquisition)", b.where(n.id))
    ctx.check(n_try >= 1, inst, "anchor", "-", "the eviction sweep's try_lock is seen (control for the selector; found %d)" % n_try, None)
    b = ctx.fn("ClockCache::remove_entry", inst)
    if b is not None:
        w = ctx.sites(b, R.call("RwLock::write"), inst, exact=1)
        rm = R.call("Vec::remove", "Vec::swap_remove", "Vec::retain")(b)
        R.dom(ctx, inst, b, w, rm, "an entry is removed under the bucket's write lock", a_desc="bucket.write()")


def check_sweep(ctx):
    """CLOCK sweep inside one bucket: an eviction shifts the next entry into the evicted slot, so the cursor may advance only
    past an entry that was kept (second chance); advancing after a removal skips an unreferenced entry and makes the sweep
    evict recently referenced ones instead"""
    from rules import roles
    inst = "C16.sweep"
    b = ctx.fn("ClockCache::evict_entries", inst)
    if b is None:
        return
    rm = ctx.sites(b, R.call("Vec::remove"), inst, exact=1)
    if not rm:
        return
    # (added after C16-i) one sweep at a time: the eviction mutex taken by try_lock is still held at every bucket acquisition,
    # at the eviction itself and where the clock hand is stored. `let Some(_) = try_lock() else { return }` compiles, drops the
    # guard at the end of that statement, and lets a second sweeper follow the first one over buckets whose reference bits were
    # just cleared: it evicts recently referenced entries although unreferenced ones further on would have sufficed.
    bl = L.lock_graph(ctx.prog).bl[b.path]
    ev_acq = [n_ for n_, c_ in bl.acq.items() if c_ == "L_evict"]
    ctx.check(len(ev_acq) == 1 and all(a in bl.try_acq for a in ev_acq), inst, "anchor", b.path, "the sweep takes the eviction mutex once, without blocking (found %d)" % len(ev_acq), None)
    crit = [n_ for n_, c_ in bl.acq.items() if c_ == "L_cb"] + list(rm) + list(R.field_write("ClockCache", "clock_hand", ops=["store"])(b))
    ctx.check(len(crit) >= 3, inst, "anchor", b.path, "bucket acquisition, eviction and clock-hand store found (%d sites)" % len(crit), None)
    for x in crit:
        ctx.check("L_evict" in bl.must_classes(x), inst, "HELD", b.path, "the eviction mutex is held for the whole sweep (bucket locks, evictions, clock hand)", b.where(x),
                  {"held": sorted(bl.must_classes(x))})
    idx = roles.recv_local(b, b.nodes[rm[0]], 1)
    ctx.check(idx is not None and len(b.defs.get(idx, [])) >= 2, inst, "anchor", b.path, "the in-bucket cursor is a local advanced in the loop", b.where(rm[0]))
    if idx is None:
        return
    tr = A.tracer(b, transparent=False)
    steps, inits = [], []
    for d in b.defs.get(idx, []):
        v = tr.node_value(d)
        if v.k == "const":
            inits.append(d)
        else:
            steps.append((d, v))
    ctx.check(len(inits) == 1 and (tr.node_value(inits[0]).extra or {}).get("val") == 0, inst, "PIN", b.path, "each bucket is swept from its first entry", None)
    def on_ref(bb, n):
        return R.recv_expr(bb, n).has_field("CacheEntry", "reference_bit")
    bits = R.call("Atomic::load", "AtomicBool::load", "Atomic::swap", "AtomicBool::swap").filter(on_ref, "reference bit read")(b)
    ctx.check(len(bits) == 1, inst, "anchor", b.path, "one read of the reference bit per entry (found %d)" % len(bits), None)
    kept = A.pred_edges(b, lambda e: e.k == "call" and e.nid in bits, "true")
    gone = A.pred_edges(b, lambda e: e.k == "call" and e.nid in bits, "false")
    ctx.check(bool(kept) and bool(gone), inst, "anchor", b.path, "the reference bit is branched on", None)
    for d, v in steps:
        ok = v.k == "bin" and v.extra.startswith("Add") and any(x.k == "const" and (x.extra or {}).get("val") == 1 for x in v.a)
        ctx.check(ok, inst, "PIN", b.path, "the cursor advances by one entry", b.where(d))
        R.guard(ctx, inst, b, [d], kept, "the cursor advances only past an entry that was kept (its reference bit was set)")
    R.guard(ctx, inst, b, rm, gone, "an entry is evicted only when its reference bit was clear")
    # a kept entry loses its bit (second chance, not immunity)
    clr = R.call("Atomic::store", "AtomicBool::store", "Atomic::swap", "AtomicBool::swap").filter(on_ref, "reference bit clear")(b)
    ctx.check(bool(clr), inst, "PIN", b.path, "a referenced entry has its bit cleared when it is passed over", None)


def check_expiry_first(ctx):
    """transparency includes expiry: with the cache off an expired key is refused by the lazy check before any tier is asked, so
    with the cache on the cache tier has to sit behind the same test (a hit for an expired, not yet retired generation would be
    served otherwise). Same rule as C11.lazy: every value tier of resolve_record_value, the cache lookup included, is reached
    only through the not-expired edge."""
    from rules import C11
    C11.check_lazy(ctx, "C16.expiry-first")


def check(ctx):
    check_expiry_first(ctx)
    check_watermarks(ctx)
    check_blocking_locks(ctx)
    check_sweep(ctx)
    check_keyed(ctx)
    check_match(ctx)
    check_invalidate(ctx)
    check_bytes(ctx)
