//! C04 on the UNMODIFIED tree: recovery's post-scan retirement is journalled per chunk of 1024 coalesced extents
//! (DiskIO::retire_extents). If it needs more than one chunk and is interrupted after an earlier chunk completed, the
//! extents of a later chunk are still on the device with no journal naming them. When the earlier chunk held an expired
//! newest generation and the later chunk its older generation, the next recovery reports the older value as live.
#![cfg(target_os = "linux")]

use feoxdb::constants::{FEOX_BLOCK_SIZE, FEOX_DATA_START_BLOCK, SECTOR_MARKER};
use feoxdb::FeoxStore;
use std::os::unix::process::CommandExt;
use std::process::Command;
use std::time::{Duration, Instant};

const DEVICE_SIZE: u64 = 128 * 1024 * 1024;
const DELETION_MARKER: &[u8; 8] = b"\0DELETED";
const HELPER: &str = "interrupted_recovery_helper";
const ENV_DEVICE: &str = "DEFECT_C04_DEVICE";
const ENV_LIMIT: &str = "DEFECT_C04_FSIZE_LIMIT";
const N: usize = 4000;

fn open(path: &str) -> feoxdb::Result<FeoxStore> {
    FeoxStore::builder()
        .device_path(path.to_string())
        .file_size(DEVICE_SIZE)
        .enable_caching(false)
        .enable_ttl(true)
        .build()
}

fn block(image: &[u8], sector: u64) -> &[u8] {
    let start = sector as usize * FEOX_BLOCK_SIZE;
    &image[start..start + FEOX_BLOCK_SIZE]
}

fn is_record_head(block: &[u8]) -> bool {
    block[..2] == SECTOR_MARKER.to_le_bytes()
}

fn key(i: usize) -> Vec<u8> {
    format!("key-{i:05}").into_bytes()
}

#[test]
fn interrupted_recovery_helper() {
    let Ok(path) = std::env::var(ENV_DEVICE) else {
        return;
    };
    let limit: u64 = std::env::var(ENV_LIMIT).unwrap().parse().unwrap();
    let rlimit = libc::rlimit { rlim_cur: limit, rlim_max: limit };
    assert_eq!(unsafe { libc::setrlimit(libc::RLIMIT_FSIZE, &rlimit) }, 0);
    let store = open(&path).expect("recovery failed");
    drop(store);
}

#[test]
fn recovery_interrupted_between_retirement_chunks_reports_the_same_contents() {
    let dir = tempfile::tempdir().unwrap();
    let device = dir.path().join("device.feox");
    let device = device.to_str().unwrap().to_string();

    // Phase 1: old generations, separated by padding and permanent neighbours.
    {
        let store = open(&device).unwrap();
        for i in 0..N {
            store.insert(format!("pad-{i:05}").as_bytes(), b"p").unwrap();
            store.insert(&key(i), format!("old-{i}").as_bytes()).unwrap();
            store.insert(format!("sep-{i:05}").as_bytes(), b"s").unwrap();
        }
        store.flush().unwrap();
        for i in 0..N {
            store.delete(format!("pad-{i:05}").as_bytes()).unwrap();
        }
        store.flush().unwrap();
    }
    let before = std::fs::read(&device).unwrap();

    // Phase 2: every key is rewritten with a short TTL in one flush.
    let rewritten_at = Instant::now();
    {
        let store = open(&device).unwrap();
        for i in 0..N {
            store.insert_with_ttl(&key(i), format!("new-{i}").as_bytes(), 2).unwrap();
        }
        store.flush().unwrap();
    }
    let after = std::fs::read(&device).unwrap();
    assert_eq!(before.len(), after.len());

    // Crash image: the rewrite reached the device, the retirement of the old generations did not.
    let total_sectors = before.len() as u64 / FEOX_BLOCK_SIZE as u64;
    let mut crashed = after.clone();
    let mut restored = Vec::new();
    for sector in FEOX_DATA_START_BLOCK..total_sectors {
        let (was, now) = (block(&before, sector), block(&after, sector));
        if was != now && now[..8] == *DELETION_MARKER && is_record_head(was) {
            let start = sector as usize * FEOX_BLOCK_SIZE;
            crashed[start..start + FEOX_BLOCK_SIZE].copy_from_slice(was);
            restored.push(sector);
        }
    }
    assert!(restored.len() > N * 9 / 10, "most old generations were retired by the rewrite: {}", restored.len());

    let expiry = Duration::from_millis(3300);
    if let Some(wait) = expiry.checked_sub(rewritten_at.elapsed()) {
        std::thread::sleep(wait);
    }

    // Reference: uninterrupted recovery of the crash image.
    let reference_device = dir.path().join("reference.feox");
    std::fs::write(&reference_device, &crashed).unwrap();
    let reference_device = reference_device.to_str().unwrap().to_string();
    let live_in_reference: Vec<usize> = {
        let store = open(&reference_device).unwrap();
        (0..N).filter(|i| store.get(&key(*i)).is_ok()).collect()
    };
    assert!(live_in_reference.is_empty(), "expired newest generations must hide their keys: {live_in_reference:?}");

    // Interrupted recovery: writes at or beyond a cut-off inside the used data area fail.
    let used_end = restored.iter().copied().max().unwrap();
    let mut failures = Vec::new();
    for percent in [15u64, 30, 45, 60, 75, 90] {
        let limit_sector = FEOX_DATA_START_BLOCK + (used_end - FEOX_DATA_START_BLOCK) * percent / 100;
        let crash_device = dir.path().join(format!("crash-{percent}.feox"));
        std::fs::write(&crash_device, &crashed).unwrap();
        let crash_device = crash_device.to_str().unwrap().to_string();
        // two interrupted recoveries in a row, then an uninterrupted one
        for _ in 0..2 {
            let mut child = Command::new(std::env::current_exe().unwrap());
            child
                .args(["--exact", HELPER, "--nocapture", "--test-threads=1"])
                .env(ENV_DEVICE, &crash_device)
                .env(ENV_LIMIT, (limit_sector * FEOX_BLOCK_SIZE as u64).to_string());
            unsafe {
                child.pre_exec(|| {
                    let no_core = libc::rlimit { rlim_cur: 0, rlim_max: 0 };
                    libc::setrlimit(libc::RLIMIT_CORE, &no_core);
                    Ok(())
                });
            }
            let output = child.output().unwrap();
            assert!(!output.status.success(), "recovery in the child was expected to be interrupted: {output:?}");
        }
        let store = open(&crash_device).unwrap();
        let resurrected: Vec<(usize, Vec<u8>)> = (0..N).filter_map(|i| store.get(&key(i)).ok().map(|v| (i, v))).collect();
        if !resurrected.is_empty() {
            failures.push(format!(
                "cut at {percent}%: {} keys whose newest generation had expired came back with their OLD value, e.g. {:?}",
                resurrected.len(),
                resurrected.iter().take(2).map(|(i, v)| (i, String::from_utf8_lossy(v).to_string())).collect::<Vec<_>>()
            ));
        }
        assert_eq!(store.len(), N, "the permanent neighbours are all there");
    }
    assert!(failures.is_empty(), "{failures:#?}");
}
