"""Seeded-mutant self-test of the checker (thorough tier and development aid).
Each mutant is a textual replacement applied to a *scratch copy* of /repo's
current tree (never to /repo); the named property's rules run on the copy and
must report at least one finding (optionally: one whose instance starts with
`expect`). A replacement that no longer applies is `skipped`, never a failure.

python3 -m feoxlint.mutants [C02 ...] [--only name] [--keep]
"""
import importlib
import json
import os
import shutil
import sys
import tempfile
import time

from . import extract
from .model import Program
from .rulekit import Ctx

VERIF = extract.VERIF


def load_mutants(pid):
    p = os.path.join(VERIF, "mutants", pid + ".json")
    if not os.path.exists(p):
        return []
    with open(p) as f:
        return json.load(f)


def make_scratch(repo):
    d = tempfile.mkdtemp(prefix="feoxmut-")
    for name in ("Cargo.toml", "Cargo.lock"):
        shutil.copy(os.path.join(repo, name), os.path.join(d, name))
    shutil.copytree(os.path.join(repo, "src"), os.path.join(d, "src"))
    for sub in ("benches", "examples", "tests"):
        if os.path.isdir(os.path.join(repo, sub)):
            shutil.copytree(os.path.join(repo, sub), os.path.join(d, sub))
    return d


def apply_edits(root, edits):
    """edits: list of {file, old, new, count?}. Returns False if any does not apply."""
    staged = {}
    for e in edits:
        p = os.path.join(root, e["file"])
        if p not in staged:
            try:
                with open(p) as f:
                    staged[p] = f.read()
            except OSError:
                return False
        s = staged[p]
        if "regex" in e:
            import re as _re
            s2, n = _re.subn(e["regex"], e["sub"], s)
            if n == 0:
                return False
            staged[p] = s2
            continue
        if e["old"] not in s:
            return False
        if e.get("all"):
            s = s.replace(e["old"], e["new"])
        else:
            nth = e.get("nth", 0)
            idx = -1
            for _ in range(nth + 1):
                idx = s.find(e["old"], idx + 1)
                if idx < 0:
                    return False
            s = s[:idx] + e["new"] + s[idx + len(e["old"]):]
        staged[p] = s
    for p, s in staged.items():
        with open(p, "w") as f:
            f.write(s)
    return True


def run_rules(pid, repo, config="lib"):
    """findings of property `pid` on the tree at `repo`, in the configurations its quick tier uses (lib; C15 also the CLI crate)"""
    mod = importlib.import_module("rules." + pid)
    cfgs = list(getattr(mod, "QUICK_CONFIGS", [config]))
    if config not in cfgs:
        cfgs = [config]
    findings = []
    for cfg in cfgs:
        facts, meta = extract.extract(cfg, repo=repo, cache=(cfg != cfgs[0]) or _FACTS_CACHED.get(repo, False))
        for f in facts:
            if f["crate"] == "feoxdb" and cfg == "bin" and "lib" in cfgs:
                continue
            if f["crate"] != "feoxdb" and not hasattr(mod, "check_bin"):
                continue
            ctx = Ctx(Program(f), pid, cfg)
            try:
                (mod.check if f["crate"] == "feoxdb" else mod.check_bin)(ctx)
            except Exception:
                import traceback
                ctx.fail("engine", "internal", "-", "rule engine error: " + traceback.format_exc()[-600:])
            findings.extend(ctx.findings)
    return findings


_FACTS_CACHED = {}


def run(pids, only=None, verbose=True):
    sys.path.insert(0, VERIF)
    results = []
    for pid in pids:
        for m in load_mutants(pid):
            if only and m["name"] != only:
                continue
            t0 = time.time()
            d = make_scratch(extract.REPO)
            try:
                if not apply_edits(d, m["edits"]):
                    results.append({"property": pid, "mutant": m["name"], "status": "skipped", "why": "edit no longer applies"})
                    if verbose:
                        print("%-4s %-40s %-12s %s" % (pid, m["name"], "skipped", "edit no longer applies"))
                    continue
                try:
                    fs = run_rules(pid, d, m.get("config", "lib"))
                except RuntimeError as e:
                    results.append({"property": pid, "mutant": m["name"], "status": "skipped",
                                    "why": "mutant does not compile: " + str(e)[-300:]})
                    if verbose:
                        print("%-4s %-40s %-12s %s" % (pid, m["name"], "skipped", "does not compile: " + str(e)[-160:].replace("\n", " ")))
                    continue
                exp = m.get("expect")
                hit = [f for f in fs if (not exp or f.inst.startswith(exp)) and f.kind != "internal"]
                status = "caught" if hit else ("caught-other" if fs else "MISSED")
                results.append({"property": pid, "mutant": m["name"], "status": status,
                                "findings": [f.key() for f in fs][:6], "wall_s": round(time.time() - t0, 1)})
            finally:
                th = extract.tree_hash(d)
                shutil.rmtree(d, ignore_errors=True)
                # drop the scratch tree's facts
                shutil.rmtree(os.path.join(extract.CACHE, "facts", th), ignore_errors=True)
            if verbose:
                r = results[-1]
                print("%-4s %-40s %-12s %s" % (pid, r["mutant"], r["status"], "; ".join(r.get("findings", [])[:2])[:200] or r.get("why", "")))
    return results


def run_benign(verbose=True, only=None, shard=None):
    """behaviour-preserving edits (renames, reordering, logging): NO property may report anything"""
    sys.path.insert(0, VERIF)
    with open(os.path.join(VERIF, "mutants", "benign.json")) as f:
        items = json.load(f)
    pids = sorted(f[:-3] for f in os.listdir(os.path.join(VERIF, "rules")) if f.startswith("C") and f.endswith(".py"))
    out = []
    # behaviour-preserving refactorings written independently by sub-agents (benign_independent/*.diff, applied with patch -p1)
    ind = os.path.join(VERIF, "benign_independent")
    known = {}
    if os.path.isdir(ind):
        kp = os.path.join(ind, "KNOWN_LIMITS.json")
        if os.path.exists(kp):
            with open(kp) as f:
                known = json.load(f)
        for fn in sorted(os.listdir(ind)):
            if fn.endswith(".diff"):
                items.append({"name": "ind-" + fn[:-5], "patch": os.path.join(ind, fn), "known_limit": known.get(fn[:-5])})
    if shard:
        items = items[shard[0]::shard[1]]
    for m in items:
        if only and not m["name"].startswith(only):
            continue
        d = make_scratch(extract.REPO)
        try:
            if "patch" in m:
                import subprocess
                pr = subprocess.run(["patch", "-p1", "-s", "-i", m["patch"]], cwd=d, capture_output=True, text=True)
                applied = pr.returncode == 0
            else:
                applied = apply_edits(d, m["edits"])
            if not applied:
                out.append({"benign": m["name"], "status": "skipped", "why": "edit no longer applies"})
                continue
            try:
                facts, meta = extract.extract("lib", repo=d, cache=False)
            except RuntimeError as e:
                out.append({"benign": m["name"], "status": "skipped", "why": "does not compile: " + str(e)[-200:]})
                continue
            alarms = []
            _FACTS_CACHED[d] = True
            for pid in pids:
                alarms += [f2.key() for f2 in run_rules(pid, d)]
            st = "quiet" if not alarms else "FALSE-ALARM"
            if alarms and m.get("known_limit"):
                st = "known-limit"      # a documented limitation of the checker (DESIGN §10.3), listed in benign_independent/KNOWN_LIMITS.json
            out.append({"benign": m["name"], "status": st, "alarms": alarms[:8]})
        finally:
            th = extract.tree_hash(d)
            shutil.rmtree(d, ignore_errors=True)
            shutil.rmtree(os.path.join(extract.CACHE, "facts", th), ignore_errors=True)
        if verbose:
            r = out[-1]
            print("%-44s %-12s %s" % (r["benign"], r["status"], "; ".join(r.get("alarms", [])[:3])[:400] or r.get("why", "")))
    return out


if __name__ == "__main__":
    if "--benign" in sys.argv:
        sh = None
        if "--shard" in sys.argv:
            a, b = sys.argv[sys.argv.index("--shard") + 1].split("/")
            sh = (int(a), int(b))
        res = run_benign(only=sys.argv[sys.argv.index("--only") + 1] if "--only" in sys.argv else None, shard=sh)
        bad = [r for r in res if r["status"] == "FALSE-ALARM"]
        print("benign edits: %d quiet, %d false alarms, %d skipped, %d known-limit" % (sum(r["status"] == "quiet" for r in res), len(bad), sum(r["status"] == "skipped" for r in res), sum(r["status"] == "known-limit" for r in res)))
        sys.exit(1 if bad else 0)
    args = [a for a in sys.argv[1:] if not a.startswith("--")]
    only = None
    if "--only" in sys.argv:
        only = sys.argv[sys.argv.index("--only") + 1]
        args = [a for a in args if a != only]
    if not args:
        args = sorted(f[:-5] for f in os.listdir(os.path.join(VERIF, "mutants")) if f.endswith(".json") and f != "benign.json")
    res = run(args, only)
    missed = [r for r in res if r["status"] == "MISSED"]
    print("mutants: %d caught, %d caught-other, %d missed, %d skipped" % (
        sum(r["status"] == "caught" for r in res), sum(r["status"] == "caught-other" for r in res),
        len(missed), sum(r["status"] == "skipped" for r in res)))
    sys.exit(1 if missed else 0)
