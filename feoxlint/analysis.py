"""Intra-procedural analyses over a Body: value tracing (provenance), switch
predicates, path-sensitive reachability (correlated branches + constant flag
locals), error exits."""
from collections import deque
import sys

sys.setrecursionlimit(10000)

from .model import call_matches, callee_name, op_local, op_place, path_matches

MAX_DEPTH = 80

# calls that return (a view of) their first argument: followed when tracing provenance
TRANSPARENT = [
    "Deref::deref", "DerefMut::deref_mut", "Clone::clone", "Arc::clone", "AsRef::as_ref", "Borrow::borrow",
    "Option::as_ref", "Option::as_mut", "Option::as_deref", "Result::as_ref", "OccupiedEntry::get",
    "OccupiedEntry::get_mut", "Vec::as_slice", "Vec::as_mut_slice", "Into::into", "From::from",
    "Option::unwrap", "Option::expect", "Result::unwrap", "Result::expect", "Option::cloned", "Option::copied",
    "CachePadded::deref", "Bytes::deref", "ToOwned::to_owned", "slice::to_vec", "Bytes::clone",
    "Option::unwrap_or_default", "IntoIterator::into_iter", "slice::iter", "Iterator::by_ref",
]


class E:
    """expression tree node produced by tracing"""
    __slots__ = ("k", "a", "ty", "nid", "extra", "_key")

    def __init__(self, k, a=(), ty=None, nid=None, extra=None):
        self.k = k          # const|arg|local|call|field|bin|un|discr|cast|agg|downcast|index|ref|deref|unknown
        self.a = tuple(a)   # sub-expressions
        self.ty = ty
        self.nid = nid      # defining node (calls, aggregates)
        self.extra = extra  # const value / callee / field (adt,name) / op / variant
        self._key = None

    def key(self):
        if self._key is None:
            if self.k == "call":
                # a call result is one dynamic evaluation: identified by its node
                self._key = ("call", self.nid)
            elif self.k == "local":
                self._key = ("local", self.extra)
            elif self.k == "const":
                # two different constants are two different values (they used to share one key, which correlated unrelated
                # predicates such as `s & RETIRED == 0` and `s & READERS == READERS`)
                d = self.extra if isinstance(self.extra, dict) else {}
                v = d.get("val", d.get("def", d.get("txt")))
                if v is None and d.get("prefs"):
                    v = tuple(d["prefs"])
                self._key = ("const", v if isinstance(v, (int, str, bool, tuple, type(None))) else repr(v), d.get("def"))
            else:
                self._key = (self.k, self.extra if not isinstance(self.extra, dict) else None) + tuple(x.key() for x in self.a)
        return self._key

    def skey(self):
        """structural key: calls keyed by callee + args instead of node"""
        if self.k == "call":
            return ("call", self.extra) + tuple(x.skey() for x in self.a)
        if self.k == "local":
            return ("local", self.extra)
        if self.k == "const":
            d = self.extra or {}
            return ("const", d.get("val", d.get("def", d.get("txt"))))
        return (self.k, self.extra if not isinstance(self.extra, dict) else None) + tuple(x.skey() for x in self.a)

    def walk(self):
        yield self
        for x in self.a:
            for y in x.walk():
                yield y

    def calls(self):
        return [x for x in self.walk() if x.k == "call"]

    def has_call(self, name):
        return any(x.k == "call" and path_matches(x.extra, name) for x in self.walk())

    def has_field(self, adt, field):
        return any(x.k == "field" and x.extra[1] == field and (adt is None or (x.extra[0] or "").endswith(adt)) for x in self.walk())

    def has_const(self, name=None, val=None):
        for x in self.walk():
            if x.k == "const":
                d = x.extra or {}
                if name is not None and d.get("def") and path_matches(d["def"], name):
                    return True
                if name is not None and any(path_matches(p, name) for p in (d.get("prefs") or []) if "::" in p or p == name):
                    return True
                if val is not None and d.get("val") == val:
                    return True
        return False

    def has_arg(self, idx=None, name=None):
        for x in self.walk():
            if x.k == "arg":
                if idx is not None and x.extra[0] == idx:
                    return True
                if name is not None and x.extra[1] == name:
                    return True
        return False

    def show(self, d=0):
        if d > 6:
            return "…"
        k = self.k
        if k == "const":
            e = self.extra or {}
            if e.get("prefs"):
                return "&" + "+".join(x.rsplit("::", 1)[-1] for x in e["prefs"])
            if e.get("def"):
                return e["def"].rsplit("::", 1)[-1]
            if "val" in e:
                return str(e["val"])
            return "const"
        if k == "arg":
            return "arg%d:%s" % (self.extra[0], self.extra[1])
        if k == "local":
            return "_%s" % (self.extra,)
        if k == "call":
            return "%s(%s)" % (self.extra.rsplit("::", 2)[-1] if "::" in self.extra else self.extra,
                               ", ".join(x.show(d + 1) for x in self.a))
        if k == "field":
            return "%s.%s" % (self.a[0].show(d + 1), self.extra[1])
        if k == "bin":
            return "%s(%s, %s)" % (self.extra, self.a[0].show(d + 1), self.a[1].show(d + 1))
        if k in ("un",):
            return "%s(%s)" % (self.extra, self.a[0].show(d + 1))
        if k == "downcast":
            return "(%s as %s)" % (self.a[0].show(d + 1), self.extra)
        if k == "agg":
            return "%s{%s}" % (self.extra, ", ".join(x.show(d + 1) for x in self.a))
        if self.a:
            return "%s(%s)" % (k, ", ".join(x.show(d + 1) for x in self.a))
        return k


class Tracer:
    """provenance of values inside one body. Flow-insensitive for single-def
    locals (temps), stops at multi-def locals and arguments."""

    def __init__(self, body, transparent=True):
        self.b = body
        self.memo = {}
        self.transparent = transparent
        self._trunc = 0

    def local(self, l, depth=0):
        if l in self.memo:
            return self.memo[l]
        b = self.b
        if depth > MAX_DEPTH:
            self._trunc += 1
            return E("local", extra=l, ty=b.local_ty(l))
        if 1 <= l <= b.argc and not b.defs.get(l):
            e = E("arg", extra=(l, b.local_name(l)), ty=b.local_ty(l))
            self.memo[l] = e
            return e
        d = b.defs.get(l, [])
        if len(d) != 1 or l in b.mut_borrowed_whole():
            e = E("local", extra=l, ty=b.local_ty(l))
            self.memo[l] = e
            return e
        self.memo[l] = E("local", extra=l, ty=b.local_ty(l))  # cycle guard
        t0 = self._trunc
        e = self.node_value(d[0], depth + 1)
        if b.local_name(l) and _local_outside_calls(e):
            # a named snapshot of a mutable local: the copy is not the current value
            e = E("local", extra=l, ty=b.local_ty(l))
        if self._trunc != t0:
            del self.memo[l]      # truncated by the depth limit: do not cache a partial trace
        else:
            self.memo[l] = e
        return e

    def node_value(self, nid, depth=0):
        b = self.b
        n = b.nodes[nid]
        ev = n.ev
        if n.kind == "call":
            args = [self.operand(a, depth + 1) for a in ev["args"]]
            name = callee_name(ev)
            if self.transparent and args and any(call_matches(ev, t) for t in TRANSPARENT):
                return args[0]
            return E("call", args, ty=ev.get("dest_ty"), nid=nid, extra=name)
        if n.kind != "assign":
            return E("unknown")
        rv = ev["rv"]
        ty = b.local_ty(ev["dst"]["l"]) if not ev["dst"]["p"] else None
        if rv == "use":
            return self.operand(ev["a"], depth + 1)
        if rv in ("ref", "rawptr"):
            return self.place(ev["pl"], depth + 1)
        if rv == "bin":
            return E("bin", [self.operand(ev["a"], depth + 1), self.operand(ev["b"], depth + 1)], ty=ty, nid=nid, extra=ev["op"])
        if rv == "un":
            return E("un", [self.operand(ev["a"], depth + 1)], ty=ty, nid=nid, extra=ev["op"])
        if rv == "discr":
            return E("discr", [self.place(ev["pl"], depth + 1)], ty=ty, nid=nid)
        if rv == "cast":
            inner = self.operand(ev["a"], depth + 1)
            if "PointerCoercion" in ev["kind"] or "Transmute" in ev["kind"]:
                return inner
            return E("cast", [inner], ty=ev["ty"], nid=nid, extra=ev["ty"])
        if rv == "agg":
            nm = ev.get("adt") or ev.get("def") or ev.get("agg")
            if ev.get("var") and ev.get("agg") == "adt":
                nm = nm + "::" + ev["var"]
            return E("agg", [self.operand(o, depth + 1) for o in ev["ops"]], ty=ty, nid=nid, extra=nm)
        if rv == "repeat":
            return E("repeat", [self.operand(ev["a"], depth + 1)], ty=ty, nid=nid)
        return E("unknown", nid=nid)

    def operand(self, op, depth=0):
        if op is None:
            return E("unknown")
        if op["k"] == "const":
            return E("const", ty=op.get("ty"), extra=op)
        pl = op_place(op)
        if pl is None:
            return E("unknown")
        return self.place(pl, depth)

    def place(self, pl, depth=0):
        e = self.local(pl["l"], depth)
        for p in pl["p"]:
            if p == "*":
                continue  # references are transparent
            if isinstance(p, dict):
                if "f" in p:
                    if e.k == "bin" and str(e.extra).endswith("WithOverflow"):
                        if p["f"] == 0:
                            e = E("bin", e.a, ty=p.get("ty"), nid=e.nid, extra=e.extra[:-len("WithOverflow")])
                        else:
                            e = E("overflow_flag", [e])
                        continue
                    # field of an aggregate built in this body -> the operand
                    if e.k == "agg" and p["f"] < len(e.a) and not ("adt" in p and e.extra and "::" in e.extra and False):
                        e = e.a[p["f"]]
                        continue
                    e = E("field", [e], ty=p.get("ty"), extra=(p.get("adt") or p.get("closure") or ("tuple" if p.get("tuple") else None), p.get("n", str(p["f"]))))
                elif "dc" in p:
                    e = E("downcast", [e], extra=p["dc"])
                elif "idx" in p:
                    e = E("index", [e, self.local(p["idx"], depth + 1)])
                elif "cidx" in p:
                    e = E("index", [e, E("const", extra={"val": p["cidx"]})])
                else:
                    e = E("proj", [e], extra=str(p))
            else:
                e = E("proj", [e], extra=str(p))
        return e


def _local_outside_calls(e):
    if e.k == "local":
        return True
    if e.k == "call":
        return False
    return any(_local_outside_calls(x) for x in e.a)


def tracer(body, transparent=True):
    attr = "_tracer_t" if transparent else "_tracer_n"
    t = getattr(body, attr, None)
    if t is None:
        t = Tracer(body, transparent)
        setattr(body, attr, t)
    return t


def origins(body, e, _seen=None):
    """identities an expression's value may originate from: arguments, opaque
    locals (followed through all their definitions), argument-less creation
    calls. Used to decide `these two sites talk about the same object`."""
    if _seen is None:
        _seen = set()
    out = set()
    tr = tracer(body)
    for x in e.walk():
        if x.k == "arg":
            out.add(("arg", x.extra[0]))
        elif x.k == "call":
            out.add(("call", x.nid))
        elif x.k == "local":
            l = x.extra
            out.add(("local", l))
            if l in _seen:
                continue
            _seen.add(l)
            for d in body.defs.get(l, []):
                out |= origins(body, tr.node_value(d), _seen)
    return out


def call_roots(body, call_nids):
    """keys of switch roots that denote the result of one of the calls: the call
    itself, or a multi-def local one of whose definitions moves the call's result in"""
    keys = set()
    cs = set(call_nids)
    tr = tracer(body, transparent=False)
    for c in cs:
        keys.add(("call", c))
        d = body.nodes[c].ev["dest"]
        if not d["p"] and len(body.defs.get(d["l"], [])) > 1:
            keys.add(("local", d["l"]))
    for l, ds in body.defs.items():
        if len(ds) < 2:
            continue
        for dn in ds:
            n = body.nodes[dn]
            if n.kind == "assign" and n.ev["rv"] == "use":
                v = tr.operand(n.ev["a"])
                if v.k == "call" and v.nid in cs:
                    keys.add(("local", l))
    return keys


# ----------------------------------------------------------------------------
# switch predicates

ENUM_VARIANTS = {
    "Result": ["Ok", "Err"],
    "Option": ["None", "Some"],
    "ControlFlow": ["Continue", "Break"],
    "Ordering": ["Less", "Equal", "Greater"],
}
FOREIGN_ENUMS = {
    "crossbeam_channel::err::RecvTimeoutError": ["Timeout", "Disconnected"],
    "crossbeam_channel::RecvTimeoutError": ["Timeout", "Disconnected"],
    "crossbeam_channel::err::TryRecvError": ["Empty", "Disconnected"],
    "std::ops::Bound": ["Included", "Excluded", "Unbounded"],
    "std::collections::Bound": ["Included", "Excluded", "Unbounded"],
    "scc::hash_map::Entry": ["Occupied", "Vacant"],
    "std::cmp::Ordering": ["Less", "Equal", "Greater"],
    "std::io::ErrorKind": None,
}


def enum_variants(prog, ty):
    if not ty:
        return None
    t = ty.lstrip("&").replace("mut ", "").strip()
    head = t.split("<", 1)[0]
    short = head.rsplit("::", 1)[-1]
    if head.startswith("std::") or head.startswith("core::"):
        if short in ENUM_VARIANTS:
            return ENUM_VARIANTS[short]
    if FOREIGN_ENUMS.get(head):
        return FOREIGN_ENUMS[head]
    a = prog.adts.get(head)
    if a and a["kind"] == "Enum":
        return [v["name"] for v in a["variants"]]
    if short in ENUM_VARIANTS and ("result::Result" in head or "option::Option" in head or "ControlFlow" in head):
        return ENUM_VARIANTS[short]
    return None


POLARITY_CALLS = {
    # callee suffix -> (input kind, {output abstract -> input abstract})
    "Try::branch": {"Continue": None},  # handled specially
    "Result::is_ok": {"true": "Ok", "false": "Err"},
    "Result::is_err": {"true": "Err", "false": "Ok"},
    "Option::is_some": {"true": "Some", "false": "None"},
    "Option::is_none": {"true": "None", "false": "Some"},
    "Option::ok_or": {"Ok": "Some", "Err": "None"},
    "Option::ok_or_else": {"Ok": "Some", "Err": "None"},
    "Result::map_err": {"Ok": "Ok", "Err": "Err"},
    "Result::map": {"Ok": "Ok", "Err": "Err"},
    "Result::ok": {"Some": "Ok", "None": "Err"},
    "Result::err": {"Some": "Err", "None": "Ok"},
    "Option::map": {"Some": "Some", "None": "None"},
    "Option::take": {"Some": "Some", "None": "None"},
    "Result::and_then": {"Err": None},
}


class SwitchInfo:
    """canonical reading of a SwitchInt: `root` expression and, per outgoing
    edge label, the abstract value of root on that edge (or None = unknown)."""

    def __init__(self, nid, root, edge_vals, raw):
        self.nid = nid
        self.root = root
        self.edge_vals = edge_vals  # label -> abstract value (str) or None
        self.raw = raw              # un-normalised traced discriminant


def switch_info(body, nid):
    cache = body.__dict__.setdefault("_swinfo", {})
    if nid in cache:
        return cache[nid]
    prog = body.prog
    n = body.nodes[nid]
    tr = tracer(body, transparent=False)
    e = tr.operand(n.ev["discr"])
    raw = e
    labels = [l for (_, l) in n.succ]
    concrete = [l for l in labels if l != "otherwise"]
    # initial interpretation of concrete values
    is_bool = n.ev.get("discr_ty") == "bool"
    vals = {}
    if is_bool:
        for l in labels:
            if l == 0:
                vals[l] = "false"
            elif l == "otherwise":
                vals[l] = "true" if 0 in concrete else None
            else:
                vals[l] = "true"
    else:
        for l in labels:
            vals[l] = l  # raw ints for now
    # peel
    for _ in range(12):
        if e.k == "un" and e.extra == "Not" and is_bool:
            vals = {l: ({"true": "false", "false": "true"}.get(v, v)) for l, v in vals.items()}
            e = e.a[0]
            continue
        if e.k == "bin" and is_bool and e.extra in ("Ne", "Ge", "Gt", "Le"):
            # canonical comparisons: only Eq and Lt remain (DESIGN §4.6)
            a0, b0 = e.a
            flip = {"true": "false", "false": "true"}
            if e.extra == "Ne":
                vals = {l: flip.get(v, v) for l, v in vals.items()}
                e = E("bin", [a0, b0], ty=e.ty, nid=e.nid, extra="Eq")
            elif e.extra == "Ge":      # a >= b  ==  !(a < b)
                vals = {l: flip.get(v, v) for l, v in vals.items()}
                e = E("bin", [a0, b0], ty=e.ty, nid=e.nid, extra="Lt")
            elif e.extra == "Gt":      # a > b   ==  b < a
                e = E("bin", [b0, a0], ty=e.ty, nid=e.nid, extra="Lt")
            elif e.extra == "Le":      # a <= b  ==  !(b < a)
                vals = {l: flip.get(v, v) for l, v in vals.items()}
                e = E("bin", [b0, a0], ty=e.ty, nid=e.nid, extra="Lt")
            continue
        if e.k == "bin" and is_bool and e.extra == "Eq" and repr(e.a[0].key()) > repr(e.a[1].key()):
            e = E("bin", [e.a[1], e.a[0]], ty=e.ty, nid=e.nid, extra="Eq")
            # fallthrough to break below (no further peeling of a comparison)
            break
        if e.k == "discr":
            inner = e.a[0]
            names = enum_variants(prog, inner.ty)
            nv = {}
            for l, v in vals.items():
                if l == "otherwise":
                    # the remaining variant if exactly one is left
                    if names:
                        rest = [names[i] for i in range(len(names)) if i not in concrete]
                        nv[l] = rest[0] if len(rest) == 1 else None
                    else:
                        nv[l] = None
                elif names and isinstance(v, int) and 0 <= v < len(names):
                    nv[l] = names[v]
                else:
                    nv[l] = str(v)
            vals = nv
            e = inner
            is_bool = False
            continue
        if e.k == "call":
            nm = e.extra
            done = True
            if path_matches(nm, "Try::branch") and e.a:
                inner = e.a[0]
                names = enum_variants(prog, inner.ty)
                if names == ENUM_VARIANTS["Result"]:
                    m = {"Continue": "Ok", "Break": "Err"}
                elif names == ENUM_VARIANTS["Option"]:
                    m = {"Continue": "Some", "Break": "None"}
                else:
                    m = None
                if m:
                    vals = {l: m.get(v) for l, v in vals.items()}
                    e = inner
                    done = False
            else:
                for suffix, m in POLARITY_CALLS.items():
                    if suffix != "Try::branch" and path_matches(nm, suffix) and e.a and None not in m.values():
                        vals = {l: m.get(v) for l, v in vals.items()}
                        e = e.a[0]
                        done = False
                        break
                else:
                    # transparent wrappers (deref/clone/as_ref...)
                    if e.a and any(path_matches(nm, t) for t in TRANSPARENT):
                        e = e.a[0]
                        done = False
            if done:
                break
            continue
        break
    # strip references etc. (Tracer already does); canonical values for bool roots
    info = SwitchInfo(nid, e, vals, raw)
    cache[nid] = info
    return info


def switches(body):
    return [n.id for n in body.nodes if n.kind == "switch"]


def pred_edges(body, root_match, value):
    """edges (switch node, label) on which a switch whose canonical root
    satisfies root_match(E) has abstract value `value`."""
    out = []
    for s in switches(body):
        info = switch_info(body, s)
        if root_match(info.root):
            for l, v in info.edge_vals.items():
                if v == value:
                    out.append((s, l))
    return out


def pred_switches(body, root_match):
    return [s for s in switches(body) if root_match(switch_info(body, s).root)]


# ----------------------------------------------------------------------------
# path-sensitive reachability

def flag_locals(body):
    """locals all of whose definitions assign a constant (drop flags, `retired`
    style booleans, matches! temporaries): tracked exactly along paths."""
    fl = getattr(body, "_flags", None)
    if fl is not None:
        return fl
    fl = {}
    for l, ds in body.defs.items():
        if l <= body.argc or l in body.pdefs or l in body.mut_borrowed:
            continue
        ok = True
        for d in ds:
            n = body.nodes[d]
            if not (n.kind == "assign" and n.ev["rv"] == "use" and n.ev["a"]["k"] == "const" and "val" in n.ev["a"]):
                ok = False
                break
        if ok and ds:
            fl[l] = True
    body._flags = fl
    return fl


def counter_locals(body):
    """integer locals every definition of which is a constant or `self (+|-) const`:
    tracked exactly along paths (retry counters such as `attempts`)."""
    cl = getattr(body, "_counters", None)
    if cl is not None:
        return cl
    cl = {}
    tr = tracer(body, transparent=False)
    for l, ds in body.defs.items():
        if l <= body.argc or l in body.mut_borrowed or len(ds) < 2:
            continue
        ty = body.local_ty(l)
        if ty not in ("i32", "i64", "u32", "u64", "usize", "isize", "u8", "u16", "i8", "i16"):
            continue
        steps = {}
        ok = True
        for d in ds:
            n = body.nodes[d]
            if n.kind != "assign" or n.ev["rv"] != "use":
                ok = False
                break
            a = n.ev["a"]
            if a["k"] == "const" and "val" in a:
                steps[d] = ("set", a["val"])
                continue
            v = tr.operand(a)
            # (_t.0) of AddWithOverflow/SubWithOverflow(copy l, const c), or plain Add/Sub
            if v.k == "field" and v.a:
                v = v.a[0]
            if v.k == "bin" and v.extra in ("Add", "Sub", "AddWithOverflow", "SubWithOverflow", "AddUnchecked", "SubUnchecked"):
                pass
            if v.k == "bin" and v.extra in ("Add", "Sub", "AddWithOverflow", "SubWithOverflow", "AddUnchecked", "SubUnchecked"):
                x, y = v.a
                if x.k == "local" and x.extra == l and y.k == "const" and "val" in (y.extra or {}):
                    sign = 1 if v.extra.startswith("Add") else -1
                    steps[d] = ("add", sign * y.extra["val"])
                    continue
            ok = False
            break
        if ok:
            cl[l] = steps
    body._counters = cl
    return cl


def variant_defs(body):
    """node -> (local, variant name) for `local = Adt::Variant{..}` aggregate assignments to multi-def locals"""
    vd = getattr(body, "_vdefs", None)
    if vd is not None:
        return vd
    vd = {}
    for l, ds in body.defs.items():
        if len(ds) < 2:
            continue
        for d in ds:
            n = body.nodes[d]
            if n.kind == "assign" and n.ev["rv"] == "agg" and n.ev.get("agg") == "adt" and n.ev.get("var"):
                vd[d] = (l, n.ev["var"])
            else:
                vd[d] = (l, None)
    body._vdefs = vd
    return vd


def _expr_locals(e):
    """locals/call nodes an expression depends on (for invalidation)"""
    deps = set()
    stack = [e]
    while stack:
        x = stack.pop()
        if x.k == "local":
            deps.add(("l", x.extra))
        elif x.k == "call":
            deps.add(("n", x.nid))
            continue
        stack.extend(x.a)
    return deps


def _written_fields(body):
    wf = getattr(body, "_wfields", None)
    if wf is None:
        wf = set()
        for n in body.nodes:
            d = None
            if n.kind == "assign":
                d = n.ev["dst"]
            elif n.kind == "call":
                d = n.ev["dest"]
            if d is not None:
                for p in d["p"]:
                    if isinstance(p, dict) and "n" in p:
                        wf.add(p["n"])
            # a mutable borrow of a field may be written through
            if n.kind == "assign" and n.ev.get("rv") in ("ref", "rawptr") and (n.ev.get("mut") or n.ev.get("rv") == "rawptr"):
                for p in n.ev["pl"]["p"]:
                    if isinstance(p, dict) and "n" in p:
                        wf.add(p["n"])
        body._wfields = wf
    return wf


def _immutable_root(body, e):
    """may two evaluations of this expression at different program points be
    assumed equal?  consts, never-reassigned arguments, non-atomic plain fields
    through shared references, comparisons of those, and single call results
    (identified by node, invalidated when the call re-executes)."""
    stack = [e]
    while stack:
        x = stack.pop()
        if x.k == "call":
            continue   # one dynamic evaluation, identified by its node: its arguments do not matter
        if x.k in ("const", "arg", "bin", "un", "cast", "discr", "downcast"):
            stack.extend(x.a)
            continue
        if x.k == "local":
            # a mutable local: usable, invalidated at each of its definitions
            if x.extra in body.mut_borrowed or x.extra in body.pdefs:
                return False
            continue
        if x.k == "field":
            ty = x.ty or ""
            if "Atomic" in ty or "Cell" in ty or "Mutex" in ty or "RwLock" in ty:
                return False
            if x.extra[1] in _written_fields(body):
                return False
            stack.extend(x.a)
            continue
        return False
    return True


class PathSearch:
    """forward exploration of (node, env) states. env tracks constant flag
    locals and the outcome of correlated predicates."""

    def __init__(self, body, sensitive=True, limit=400000):
        self.b = body
        self.sensitive = sensitive
        self.limit = limit
        self.flags = flag_locals(body) if sensitive else {}
        self.counters = counter_locals(body) if sensitive else {}
        self.vdefs = variant_defs(body) if sensitive else {}
        self._swkey = {}
        self._cmpkey = {}
        self.truncated = False
        if sensitive:
            self._prep()

    def _prep(self):
        b = self.b
        # group switches by canonical root key; only roots that are immutable matter
        groups = {}
        for s in switches(b):
            info = switch_info(b, s)
            root = info.root
            # flag local switch
            dl = op_local(b.nodes[s].ev["discr"])
            if dl is not None and dl in self.flags:
                self._swkey[s] = ("flag", dl)
                continue
            if root.k == "local" and root.extra in self.flags and b.local_ty(root.extra) == "bool":
                self._swkey[s] = ("flagroot", root.extra)
                continue
            if root.k == "local" and any(l == root.extra for (l, _) in self.vdefs.values()):
                self._swkey[s] = ("var", root.extra)
                continue
            if root.k == "bin" and root.extra in ("Eq", "Lt"):
                x, y = root.a
                if x.k == "local" and x.extra in self.counters and y.k == "const" and "val" in (y.extra or {}):
                    self._cmpkey[s] = ("cmp", x.extra, root.extra, y.extra["val"], "lc")
                elif y.k == "local" and y.extra in self.counters and x.k == "const" and "val" in (x.extra or {}):
                    self._cmpkey[s] = ("cmp", y.extra, root.extra, x.extra["val"], "cl")
            if not _immutable_root(b, root):
                continue
            k = ("pred", root.key())
            groups.setdefault(k, []).append(s)
        self.deps = {}
        for k, ss in groups.items():
            if len(ss) < 2:
                continue
            info0 = switch_info(b, ss[0])
            deps = _expr_locals(info0.root)
            self.deps[k] = deps
            for s in ss:
                self._swkey[s] = k
        # invalidation index: node -> pred keys to drop when passing it
        self.inval = {}
        for k, deps in self.deps.items():
            for kind, x in deps:
                if kind == "n":
                    self.inval.setdefault(x, set()).add(k)
                else:
                    for d in b.defs.get(x, []):
                        self.inval.setdefault(d, set()).add(k)

    def run(self, starts, blocked_nodes=frozenset(), blocked_edges=frozenset(), stop_at=frozenset(), start_env=None,
            mark_edges=frozenset(), unmark_nodes=frozenset()):
        """BFS; returns dict node -> (prev_state) for reached nodes. `starts`
        are node ids (entered with empty env). Traversal does not continue
        *through* blocked_nodes or stop_at nodes (stop_at nodes are reported as
        reached, blocked nodes are not)."""
        b = self.b
        seen = {}
        reached = {}
        self.reached_unmarked = {}
        marking = bool(mark_edges)
        MARK = ("mark", 0)
        dq = deque()
        env0 = frozenset(start_env.items()) if start_env else frozenset()
        for s in starts:
            st = (s, env0)
            if st not in seen:
                seen[st] = None
                dq.append(st)
        while dq:
            st = dq.popleft()
            nid, env = st
            if nid in blocked_nodes:
                continue
            if nid not in reached:
                reached[nid] = st
            if marking and nid not in self.reached_unmarked and (MARK, True) not in env:
                self.reached_unmarked[nid] = st
            if nid in stop_at:
                continue
            if len(seen) > self.limit:
                self.truncated = True
                break
            n = b.nodes[nid]
            envd = None
            # effects of the node on env
            if self.sensitive:
                if n.kind == "assign" and not n.ev["dst"]["p"]:
                    l = n.ev["dst"]["l"]
                    if l in self.flags:
                        envd = dict(env)
                        envd[("flag", l)] = n.ev["a"]["val"]
                    elif l in self.counters:
                        envd = dict(env)
                        step = self.counters[l].get(nid)
                        cur = envd.get(("ctr", l))
                        if step and step[0] == "set":
                            envd[("ctr", l)] = step[1]
                        elif step and cur is not None and abs(cur + step[1]) <= 64:
                            envd[("ctr", l)] = cur + step[1]
                        else:
                            envd.pop(("ctr", l), None)
                if nid in self.vdefs:
                    l, var = self.vdefs[nid]
                    if envd is None:
                        envd = dict(env)
                    if var is None:
                        envd.pop(("var", l), None)
                    else:
                        envd[("var", l)] = var
                inv = self.inval.get(nid)
                if inv:
                    if envd is None:
                        envd = dict(env)
                    for k in inv:
                        envd.pop(k, None)
            if marking and nid in unmark_nodes and (MARK, True) in env:
                if envd is None:
                    envd = dict(env)
                envd.pop(MARK, None)
            new_env = frozenset(envd.items()) if envd is not None else env
            for (s, label) in n.succ:
                if (nid, label) in blocked_edges:
                    continue
                e2 = new_env
                if marking and (nid, label) in mark_edges and (MARK, True) not in e2:
                    e2 = frozenset(list(e2) + [(MARK, True)])
                if self.sensitive and n.kind == "switch":
                    ck = self._cmpkey.get(nid)
                    if ck is not None:
                        cur = dict(new_env).get(("ctr", ck[1]))
                        if cur is not None:
                            lhs, rhs = (cur, ck[3]) if ck[4] == "lc" else (ck[3], cur)
                            t = (lhs == rhs) if ck[2] == "Eq" else (lhs < rhs)
                            v = switch_info(b, nid).edge_vals.get(label)
                            if v is not None and v != ("true" if t else "false"):
                                continue
                    key = self._swkey.get(nid)
                    if key is not None:
                        if key[0] == "flag":
                            cur = dict(new_env).get(key)
                            if cur is not None:
                                if not _label_matches(n, label, cur):
                                    continue
                        elif key[0] == "flagroot":
                            cur = dict(new_env).get(("flag", key[1]))
                            v = switch_info(b, nid).edge_vals.get(label)
                            if cur is not None and v is not None and v != ("true" if cur else "false"):
                                continue
                        elif key[0] == "var":
                            cur = dict(new_env).get(key)
                            v = switch_info(b, nid).edge_vals.get(label)
                            if cur is not None and v is not None and cur != v:
                                continue
                        elif key[0] == "pred":
                            info = switch_info(b, nid)
                            v = info.edge_vals.get(label)
                            cur = dict(new_env).get(key)
                            if cur is not None and v is not None:
                                if cur != v:
                                    continue
                            elif cur is None and v is not None:
                                d = dict(e2)
                                d[key] = v
                                e2 = frozenset(d.items())
                st2 = (s, e2)
                if st2 not in seen:
                    seen[st2] = st
                    dq.append(st2)
        self.seen = seen
        return reached

    def path_to(self, state):
        """witness path (list of node ids) to a state returned in run()'s map"""
        out = []
        st = state
        while st is not None:
            out.append(st[0])
            st = self.seen.get(st)
        out.reverse()
        return out


def _label_matches(n, label, cur):
    """does switch edge `label` agree with a flag local currently equal cur"""
    if label == "otherwise":
        concrete = [l for (_, l) in n.succ if l != "otherwise"]
        return cur not in concrete
    return label == cur


def reach(body, starts, blocked_nodes=frozenset(), blocked_edges=frozenset(), stop_at=frozenset(), sensitive=True):
    ps = PathSearch(body, sensitive)
    r = ps.run(starts, frozenset(blocked_nodes), frozenset(blocked_edges), frozenset(stop_at))
    return r, ps


def root_invalidators(body, root):
    """nodes after which a previously observed value of `root` is stale: the calls it
    contains re-executing, definitions of the mutable locals it reads, and mutable
    borrows of those locals"""
    out = set()
    for kind, x in _expr_locals(root):
        if kind == "n":
            out.add(x)
        else:
            for d in body.defs.get(x, []):
                out.add(d)
            for d in body.pdefs.get(x, []):
                out.add(d)
            for n in body.nodes:
                if n.kind == "assign" and n.ev.get("rv") in ("ref", "rawptr") and n.ev["pl"]["l"] == x and (n.ev.get("mut") or n.ev.get("rv") == "rawptr"):
                    out.add(n.id)
    return out


def succs(body, nid):
    return [s for (s, _) in body.nodes[nid].succ]


# ----------------------------------------------------------------------------
# error exits

def error_nodes(body, extra=None):
    """nodes that write an error value into the return place `_0`:
    `?` residuals, `Err(..)` aggregates (and `None` for Option-returning fns)."""
    out = []
    ret_ty = body.local_ty(0)
    opt = ret_ty.startswith("std::option::Option")
    for n in body.nodes:
        if n.kind == "call" and not n.ev["dest"]["p"] and n.ev["dest"]["l"] == 0:
            if call_matches(n.ev, "FromResidual::from_residual"):
                out.append(n.id)
        elif n.kind == "assign" and not n.ev["dst"]["p"] and n.ev["dst"]["l"] == 0:
            if n.ev["rv"] == "agg" and n.ev.get("agg") == "adt":
                if n.ev["adt"].endswith("result::Result") and n.ev["var"] == "Err":
                    out.append(n.id)
                elif opt and n.ev["adt"].endswith("option::Option") and n.ev["var"] == "None":
                    out.append(n.id)
        if extra and extra(n):
            out.append(n.id)
    return out


def ok_nodes(body):
    """nodes that write an Ok(..)/Some(..) aggregate into `_0`"""
    out = []
    for n in body.nodes:
        if n.kind == "assign" and not n.ev["dst"]["p"] and n.ev["dst"]["l"] == 0:
            if n.ev["rv"] == "agg" and n.ev.get("agg") == "adt":
                if (n.ev["adt"].endswith("result::Result") and n.ev["var"] == "Ok") or \
                   (n.ev["adt"].endswith("option::Option") and n.ev["var"] == "Some"):
                    out.append(n.id)
    return out


def error_sources(body, err_nid):
    """callee names (with node) whose result flows into the error written at
    err_nid; empty when the error is constructed in place."""
    n = body.nodes[err_nid]
    tr = tracer(body, transparent=False)
    if n.kind == "call":
        e = tr.operand(n.ev["args"][0]) if n.ev["args"] else None
    else:
        ops = n.ev.get("ops", [])
        e = tr.operand(ops[0]) if ops else None
    if e is None:
        return []
    # peel payload projections and the `?` plumbing down to the call that produced the error value
    out = []
    x = e
    for _ in range(16):
        if x.k in ("field", "downcast", "cast") and x.a:
            x = x.a[0]
            continue
        if x.k == "call" and x.a and (path_matches(x.extra, "Try::branch") or path_matches(x.extra, "From::from")
                                      or path_matches(x.extra, "Into::into")):
            x = x.a[0]
            continue
        if x.k == "call" and x.a and any(path_matches(x.extra, w) for w in ("Result::map_err", "Option::ok_or", "Option::ok_or_else", "Result::map")):
            out.append((x.nid, x.extra))
            x = x.a[0]
            continue
        break
    if x.k == "call":
        out.append((x.nid, x.extra))
    return out
