"""Guard (lock) dataflow: may-held / must-held sets per node, lock classes,
function acquire summaries, the lock-order + thread-wait graph (DESIGN §4.3)."""
import re
from collections import defaultdict

from . import analysis as A
from .model import call_matches, callee_name, op_local, op_place, path_matches

GUARD_RE = re.compile(
    r"(lock_api::(mutex::)?MutexGuard|lock_api::(rwlock::)?RwLock(Read|Write|UpgradableRead)Guard|"
    r"std::sync::(poison::)?(mutex::)?MutexGuard|std::sync::(poison::)?(rwlock::)?RwLock(Read|Write)Guard|"
    r"scc::hash_map::(Occupied|Vacant)?Entry<|core::record::ExtentReadGuard|core::cache::RecordCacheEntry|"
    r"crossbeam_epoch::(guard::)?Guard)")

PAYLOAD_CLASS = [
    (r"storage::io::DiskIO>$", "L_dev"),
    (r"storage::free_space::FreeSpaceManager>$", "L_fs"),
    (r"storage::metadata::Metadata>$", "L_meta"),
    (r"std::vec::Vec<core::cache::CacheEntry>>$", "L_cb"),
    (r"std::option::Option<bytes::Bytes>>$", "L_val"),
    (r"VecDeque<storage::write_buffer::WriteEntry>>$", "L_shard"),
    (r"std::vec::Vec<storage::write_buffer::WriteEntry>>$", "L_rpend"),
    (r"std::vec::Vec<std::thread::JoinHandle<\(\)>>>$", "L_wh"),
    (r"std::option::Option<std::thread::JoinHandle<\(\)>>>$", "L_ph"),
    (r"std::option::Option<core::ttl_sweep::TtlSweeper>>$", "L_sweeper"),
    (r"HashMap<storage::io::FileIdentity, ", "L_indet"),
]

NOT_LOCKS = {"PIN_extent", "PIN_epoch"}   # reference-count pins: tracked for HELD, not ordered


_REF_PREFIX = re.compile(r"(&|\*const |\*mut )('[A-Za-z_0-9]+ )?(mut )?$")


def is_guard_ty(ty):
    """the type owns a guard (possibly wrapped in Option/Result/tuple), not a reference to one"""
    if not ty or ty.startswith("&") or ty.startswith("*"):
        return False
    for m in GUARD_RE.finditer(ty):
        if not _REF_PREFIX.search(ty[:m.start()]):
            return True
    return False


def class_of_type(ty):
    if "scc::hash_map::" in ty and re.search(r"scc::hash_map::(Occupied|Vacant)?Entry<", ty):
        return "L_hb"
    if "core::record::ExtentReadGuard" in ty:
        return "PIN_extent"
    if "core::cache::RecordCacheEntry" in ty:
        return "L_cb"
    if "crossbeam_epoch" in ty:
        return "PIN_epoch"
    m = GUARD_RE.search(ty)
    if not m:
        return None
    # innermost guard generic text
    start = m.start()
    seg = ty[start:]
    depth = 0
    end = len(seg)
    for i, ch in enumerate(seg):
        if ch == "<":
            depth += 1
        elif ch == ">":
            depth -= 1
            if depth == 0:
                end = i + 1
                break
    g = seg[:end]
    for rx, cls in PAYLOAD_CLASS:
        if re.search(rx, g):
            return cls
    if re.search(r", \(\)>$", g):
        return None  # Mutex<()>: class comes from the field
    return "L[" + g.split(",")[-1].strip(" >")[-40:] + "]"


TRY_CALLS = ["Mutex::try_lock", "RwLock::try_read", "RwLock::try_write", "HashMap::try_entry", "Mutex::try_lock_for",
             "RwLock::try_write_for", "RwLock::try_read_for"]
SCC_OPS = re.compile(r"^scc::(hash_map::)?HashMap")


class BodyLocks:
    def __init__(self, body):
        self.b = body
        self.guard_locals = {i for i, l in enumerate(body.locals) if is_guard_ty(l["ty"])}
        self.acq = {}       # node -> class for fresh acquisitions
        self.try_acq = set()
        self._classify()
        self.may = None
        self.must = None

    def _field_class(self, n):
        e = A.tracer(self.b).operand(n.ev["args"][0]) if n.ev["args"] else None
        if e is None:
            return None
        x = e
        while x is not None:
            if x.k == "field" and x.extra[0] and "closure" not in str(x.extra[0]):
                return "L[%s.%s]" % (x.extra[0].rsplit("::", 1)[-1], x.extra[1])
            x = x.a[0] if x.a else None
        return None

    def _classify(self):
        b = self.b
        for n in b.calls():
            d = n.ev["dest"]
            if d["p"] or d["l"] not in self.guard_locals:
                continue
            # a transfer (moves a held guard in, e.g. Option::unwrap) is not an acquisition
            moved = [op_local(a) for a in n.ev["args"] if a.get("k") == "move" and op_local(a) in self.guard_locals]
            if moved:
                continue
            ty = b.local_ty(d["l"])
            cls = class_of_type(ty)
            if cls is None:
                cls = self._field_class(n) or "L[unit:%s]" % callee_name(n.ev).rsplit("::", 1)[-1]
            named = {"L[RetirementQueue.flush]": "L_rflush", "L[ClockCache.eviction_lock]": "L_evict"}
            cls = named.get(cls, cls)
            self.acq[n.id] = cls
            if any(call_matches(n.ev, t) for t in TRY_CALLS):
                self.try_acq.add(n.id)

    # ------------------------------------------------------------ dataflow
    def _transfer(self, n, state):
        """state: frozenset of (local, class)"""
        b = self.b
        k = n.kind
        if k == "dead":
            l = n.ev["l"]
            if any(x[0] == l for x in state):
                state = frozenset(x for x in state if x[0] != l)
            return state
        if k == "drop":
            pl = n.ev["pl"]
            if not pl["p"]:
                l = pl["l"]
                state = frozenset(x for x in state if x[0] != l)
            return state
        if k == "assign":
            dst = n.ev["dst"]
            if n.ev["rv"] == "use":
                src = op_place(n.ev["a"])
                if src is not None and n.ev["a"]["k"] == "move":
                    sl = src["l"]
                    held = [x for x in state if x[0] == sl]
                    if held and not dst["p"] and dst["l"] in self.guard_locals:
                        cls = held[0][1]
                        st = set(state)
                        st.add((dst["l"], cls))
                        # the guard itself moved (whole local, or the payload of an Option / Entry wrapper)
                        st = {x for x in st if x[0] != sl}
                        return frozenset(st)
            if n.ev["rv"] == "agg" and not dst["p"] and dst["l"] in self.guard_locals:
                # wrapping a guard (Some(guard), tuple) transfers
                st = set(state)
                for o in n.ev["ops"]:
                    l = op_local(o)
                    if l is not None and o["k"] == "move":
                        for x in list(st):
                            if x[0] == l:
                                st.discard(x)
                                st.add((dst["l"], x[1]))
                return frozenset(st)
            return state
        if k == "call":
            st = set(state)
            moved_cls = None
            for a in n.ev["args"]:
                if a.get("k") == "move":
                    l = op_local(a)
                    if l is not None:
                        for x in list(st):
                            if x[0] == l:
                                st.discard(x)
                                moved_cls = x[1]
            d = n.ev["dest"]
            if not d["p"] and d["l"] in self.guard_locals:
                if n.id in self.acq:
                    st.add((d["l"], self.acq[n.id]))
                elif moved_cls is not None:
                    st.add((d["l"], moved_cls))
            return frozenset(st)
        return state

    def solve(self, init=frozenset()):
        b = self.b
        may_in = {b.entry: frozenset(init)}
        must_in = {b.entry: frozenset(init)}
        work = [b.entry]
        seen_must = set([b.entry])
        while work:
            nid = work.pop()
            n = b.nodes[nid]
            out_may = self._transfer(n, may_in[nid])
            out_must = self._transfer(n, must_in[nid])
            for s, _ in n.succ:
                changed = False
                if s not in may_in:
                    may_in[s] = out_may
                    changed = True
                else:
                    u = may_in[s] | out_may
                    if u != may_in[s]:
                        may_in[s] = u
                        changed = True
                if s not in seen_must:
                    must_in[s] = out_must
                    seen_must.add(s)
                    changed = True
                else:
                    i = must_in[s] & out_must
                    if i != must_in[s]:
                        must_in[s] = i
                        changed = True
                if changed:
                    work.append(s)
        self.may = may_in
        self.must = must_in

    def may_classes(self, nid):
        return {c for (_, c) in self.may.get(nid, ())}

    def must_classes(self, nid):
        return {c for (_, c) in self.must.get(nid, ())}


class LockGraph:
    def __init__(self, prog, thread_groups=None, wait_table=None):
        self.prog = prog
        self.bl = {}
        self.closure_init = {}
        self._prepare_closures()
        for p, b in prog.bodies.items():
            if b.is_test:
                continue
            bl = BodyLocks(b)
            bl.solve(self.closure_init.get(p, frozenset()))
            self.bl[p] = bl
        self.acquires = {}
        self._summaries()
        self.edges = {}   # (a, b) -> witness
        self.waits = []
        self.thread_groups = thread_groups or {}
        self.wait_table = wait_table or []

    def _prepare_closures(self):
        """closures passed to scc HashMap operations run under the bucket lock"""
        prog = self.prog
        for b in prog.bodies.values():
            if b.is_test:
                continue
            tr = A.tracer(b)
            for n in b.calls():
                nm = callee_name(n.ev)
                if not SCC_OPS.search(nm):
                    continue
                for a in n.ev["args"]:
                    e = tr.operand(a)
                    if e.k == "agg" and e.extra in prog.bodies:
                        self.closure_init[e.extra] = frozenset([(-1, "L_hb")])

    def _direct(self, body):
        bl = self.bl[body.path]
        s = set(bl.acq.values())
        for n in body.calls():
            nm = callee_name(n.ev)
            if SCC_OPS.search(nm) and not n.ev.get("rlocal"):
                s.add("L_hb")
        return s

    def _summaries(self):
        prog = self.prog
        direct = {p: self._direct(prog.bodies[p]) for p in self.bl}
        outs = {p: [o for o in prog.edges_out(prog.bodies[p]) if o in self.bl] for p in self.bl}
        acq = {p: set(direct[p]) for p in self.bl}
        changed = True
        while changed:
            changed = False
            for p in self.bl:
                for o in outs[p]:
                    if not acq[o] <= acq[p]:
                        acq[p] |= acq[o]
                        changed = True
        self.acquires = acq
        self.direct = direct

    def acquires_of_call(self, body, n):
        """classes a call may acquire (callee summary, closures passed, scc internals)"""
        prog = self.prog
        out = set()
        for t in prog.targets(n.ev):
            if t in self.acquires:
                out |= self.acquires[t]
        nm = callee_name(n.ev)
        if SCC_OPS.search(nm) and not n.ev.get("rlocal"):
            out.add("L_hb")
        tr = A.tracer(body)
        for a in n.ev["args"]:
            e = tr.operand(a)
            # only a closure passed directly (by value or by reference), not closures upstream in the data flow
            if e.k == "agg" and e.extra in self.acquires:
                out |= self.acquires[e.extra]
        return out

    def build(self):
        prog = self.prog
        for p, bl in self.bl.items():
            b = prog.bodies[p]
            for n in b.calls():
                held = {c for c in bl.may_classes(n.id) if c not in NOT_LOCKS}
                if not held:
                    continue
                if n.id in bl.acq:
                    targets = set() if n.id in bl.try_acq else {bl.acq[n.id]}
                else:
                    targets = self.acquires_of_call(b, n)
                for h in held:
                    for t in targets:
                        if t in NOT_LOCKS:
                            continue
                        # a guard moved into the call is released by it (entry.remove(), drop(guard))
                        key = (h, t)
                        if key not in self.edges:
                            self.edges[key] = {"fn": p, "site": b.where(n.id), "call": callee_name(n.ev)}
        return self.edges

    def add_wait_edges(self, ctx_note=None):
        """thread waits: holding H while waiting on group G adds H -> W(G); W(G) -> everything G's entry may acquire"""
        prog = self.prog
        for (fn_pat, callee_pat, group) in self.wait_table:
            for p, bl in self.bl.items():
                b = prog.bodies[p]
                owner = b.root if b.is_closure else b.path
                if not path_matches(owner, fn_pat):
                    continue
                for n in b.calls():
                    if not call_matches(n.ev, callee_pat):
                        continue
                    held = {c for c in bl.may_classes(n.id) if c not in NOT_LOCKS}
                    self.waits.append({"fn": p, "site": b.where(n.id), "group": group, "held": sorted(held)})
                    for h in held:
                        self.edges.setdefault((h, "W(%s)" % group), {"fn": p, "site": b.where(n.id), "call": callee_name(n.ev)})
        for group, entries in self.thread_groups.items():
            for e in entries:
                for c in self.acquires.get(e, ()):  # entry closure path
                    if c in NOT_LOCKS:
                        continue
                    self.edges.setdefault(("W(%s)" % group, c), {"fn": e, "site": prog.bodies[e].where(prog.bodies[e].entry), "call": "thread entry"})

    def cycles(self):
        g = defaultdict(set)
        for (a, b) in self.edges:
            g[a].add(b)
        # Tarjan
        index = {}
        low = {}
        stack = []
        on = set()
        out = []
        counter = [0]

        def strong(v):
            index[v] = low[v] = counter[0]
            counter[0] += 1
            stack.append(v)
            on.add(v)
            for w in g.get(v, ()):
                if w not in index:
                    strong(w)
                    low[v] = min(low[v], low[w])
                elif w in on:
                    low[v] = min(low[v], index[w])
            if low[v] == index[v]:
                comp = []
                while True:
                    w = stack.pop()
                    on.discard(w)
                    comp.append(w)
                    if w == v:
                        break
                if len(comp) > 1 or (v in g.get(v, ())):
                    out.append(sorted(comp))
        nodes = set(g.keys()) | {b for bs in g.values() for b in bs}
        for v in sorted(nodes):
            if v not in index:
                strong(v)
        return out


def thread_entries(prog):
    """closures passed to thread::spawn / Builder::spawn: (body path of closure, spawning fn)"""
    out = []
    for b in prog.product_bodies():
        tr = A.tracer(b)
        for n in b.calls():
            if call_matches(n.ev, "thread::spawn") or call_matches(n.ev, "Builder::spawn") or call_matches(n.ev, "thread::Builder::spawn"):
                for a in n.ev["args"]:
                    e = tr.operand(a)
                    for x in e.walk():
                        if x.k == "agg" and x.extra in prog.bodies:
                            out.append((x.extra, b.path, b.where(n.id)))
    return out


_graph_cache = {}


def must_held(prog, body):
    """node -> set of classes certainly held (closures under scc ops start with L_hb)"""
    key = id(prog)
    g = _graph_cache.get(key)
    if g is None:
        g = LockGraph(prog)
        _graph_cache[key] = g
    return g.bl[body.path]


def lock_graph(prog):
    key = id(prog)
    g = _graph_cache.get(key)
    if g is None:
        g = LockGraph(prog)
        _graph_cache[key] = g
    return g
