"""Compile-fail witnesses (DESIGN §3 WITNESS): a module appended to a scratch copy of
/repo's src/lib.rs under a cfg must fail to type-check with the expected error code,
while its twin (differing only by the offending order) must compile. Nothing is run."""
import os
import re
import shutil
import subprocess
import tempfile

from . import extract

HEADER = """
#[allow(dead_code, unused_imports, unused_variables, unused_mut)]
mod __verif_witness {
    use crate::core::record::{Record, TreeSlot};
    use std::sync::Arc;
"""

WITNESSES = [
    {
        "name": "load_across_repin",
        "what": "a reference obtained from TreeSlot::load cannot be held across Guard::repin",
        "codes": ["E0502"],
        "bad": """
    pub fn w(slot: &TreeSlot) -> usize {
        let mut guard = crossbeam_epoch::pin();
        let r = slot.load(&guard);
        guard.repin();
        r.key.len()
    }
""",
        "twin": """
    pub fn w(slot: &TreeSlot) -> usize {
        let mut guard = crossbeam_epoch::pin();
        let n = slot.load(&guard).key.len();
        guard.repin();
        n
    }
""",
    },
    {
        "name": "load_across_guard_drop",
        "what": "a reference obtained from TreeSlot::load cannot outlive the epoch guard",
        "codes": ["E0505"],
        "bad": """
    pub fn w(slot: &TreeSlot) -> usize {
        let guard = crossbeam_epoch::pin();
        let r = slot.load(&guard);
        drop(guard);
        r.key.len()
    }
""",
        "twin": """
    pub fn w(slot: &TreeSlot) -> usize {
        let guard = crossbeam_epoch::pin();
        let r = slot.load(&guard);
        let n = r.key.len();
        drop(guard);
        n
    }
""",
    },
    {
        "name": "load_escapes_pin_scope",
        "what": "a reference obtained from TreeSlot::load cannot be returned out of the pinning scope",
        "codes": ["E0515", "E0597", "E0716"],
        "bad": """
    pub fn w(slot: &TreeSlot) -> &Arc<Record> {
        let guard = crossbeam_epoch::pin();
        slot.load(&guard)
    }
""",
        "twin": """
    pub fn w(slot: &TreeSlot) -> Arc<Record> {
        let guard = crossbeam_epoch::pin();
        Arc::clone(slot.load(&guard))
    }
""",
    },
    {
        "name": "extent_guard_outlives_record",
        "what": "an ExtentReadGuard borrows its record: the record cannot be dropped while the pin is alive",
        "codes": ["E0505"],
        "bad": """
    pub fn w() {
        let rec = Record::new(vec![1], vec![2], 1);
        let g = rec.acquire_extent();
        drop(rec);
        drop(g);
    }
""",
        "twin": """
    pub fn w() {
        let rec = Record::new(vec![1], vec![2], 1);
        let g = rec.acquire_extent();
        drop(g);
        drop(rec);
    }
""",
    },
    {
        "name": "cache_entry_outlives_cache",
        "what": "a RecordCacheEntry keeps its bucket guard: the cache cannot be dropped while the entry is alive",
        "codes": ["E0505"],
        "bad": """
    pub fn w(stats: Arc<crate::stats::Statistics>) {
        let cache = crate::core::cache::ClockCache::new(stats);
        let rec = Arc::new(Record::new(vec![1], vec![2], 1));
        let e = cache.record_entry(b"k", &rec);
        drop(cache);
        e.remove();
    }
""",
        "twin": """
    pub fn w(stats: Arc<crate::stats::Statistics>) {
        let cache = crate::core::cache::ClockCache::new(stats);
        let rec = Arc::new(Record::new(vec![1], vec![2], 1));
        let e = cache.record_entry(b"k", &rec);
        e.remove();
        drop(cache);
    }
""",
    },
]


def _check(scratch, cfg):
    """one `cargo check` of the scratch copy with `--cfg <cfg>` on the feoxdb crate. Serialised with the fact extraction
    (same lock: both drop the member's fingerprints in the shared target directory), and repeated until the driver confirms
    on stderr that it really compiled the crate with that cfg (cargo may otherwise answer from its freshness cache)."""
    import fcntl
    last = None
    for attempt in range(4):
        with open(os.path.join(extract.CACHE, "extract.lock"), "w") as lock:
            fcntl.flock(lock, fcntl.LOCK_EX)
            last = _check_once(scratch, cfg)
        rc, codes, err = last
        if ("feoxlint-witness-cfg: %s " % cfg) in err or ("feoxlint-witness-cfg: %s\n" % cfg) in err:
            return last
    rc, codes, err = last
    return 2, codes, "INCONCLUSIVE: the driver never reported compiling with --cfg %s\n%s" % (cfg, err[-800:])


def _check_once(scratch, cfg):
    target = os.path.join(extract.CACHE, "target")
    import glob
    for prof in glob.glob(os.path.join(target, "*", ".fingerprint", "feoxdb-*")):
        shutil.rmtree(prof, ignore_errors=True)
    env = dict(os.environ)
    env.update({
        "LD_LIBRARY_PATH": os.path.join(extract.sysroot(), "lib") + ":" + env.get("LD_LIBRARY_PATH", ""),
        "RUSTFLAGS": "-Zmir-opt-level=0 -Awarnings",
        "RUSTC_WORKSPACE_WRAPPER": extract.DRIVER,
        "FEOXLINT_EXTRA_CFG": cfg,
        "CARGO_TARGET_DIR": target,
        "CARGO_NET_OFFLINE": "true",
        "CARGO_INCREMENTAL": "0",
    })
    env.pop("FEOXLINT_OUT", None)
    r = subprocess.run(["cargo", "+nightly", "check", "--offline", "--lib", "--message-format=short"], cwd=scratch, env=env, capture_output=True, text=True)
    codes = sorted(set(re.findall(r"error\[(E\d{4})\]", r.stderr)))
    return r.returncode, codes, r.stderr[-6000:]


def run_all(repo=None):
    repo = repo or extract.REPO
    extract.ensure_driver()
    d = tempfile.mkdtemp(prefix="feoxwit-")
    out = []
    try:
        for name in ("Cargo.toml", "Cargo.lock"):
            shutil.copy(os.path.join(repo, name), os.path.join(d, name))
        shutil.copytree(os.path.join(repo, "src"), os.path.join(d, "src"))
        for sub in ("benches", "examples", "tests"):
            if os.path.isdir(os.path.join(repo, sub)):
                shutil.copytree(os.path.join(repo, sub), os.path.join(d, sub))
        lib = os.path.join(d, "src", "lib.rs")
        with open(lib) as f:
            base = f.read()
        extra = ""
        for w in WITNESSES:
            extra += "\n#[cfg(verif_witness_%s_bad)]%s%s}\n" % (w["name"], HEADER, w["bad"])
            extra += "\n#[cfg(verif_witness_%s_twin)]%s%s}\n" % (w["name"], HEADER, w["twin"])
        with open(lib, "w") as f:
            f.write(base + extra)
        # control: the scratch copy itself compiles
        rc, codes, err = _check(d, "verif_witness_none")
        if rc != 0:
            return [{"name": "control", "what": "scratch copy of the current tree compiles", "status": "skipped", "detail": err[-400:]}]
        for w in WITNESSES:
            rc_b, codes_b, err_b = _check(d, "verif_witness_%s_bad" % w["name"])
            rc_t, codes_t, err_t = _check(d, "verif_witness_%s_twin" % w["name"])
            if rc_t != 0:
                # the twin must compile; if it does not, the witness harness no longer fits the tree
                status = "twin-does-not-compile"
                detail = err_t[-600:]
            elif rc_b == 2 and "INCONCLUSIVE" in err_b:
                status = "inconclusive: witness build could not be observed"
                detail = err_b[-400:]
            elif rc_b == 0:
                status = "VIOLATED: the use-after-free shape type-checks"
                detail = None
            elif not (set(codes_b) & set(w["codes"])):
                status = "fails-with-unexpected-error"
                detail = {"codes": codes_b, "expected": w["codes"], "stderr": err_b[-400:]}
            else:
                status = "ok"
                detail = {"codes": codes_b}
            out.append({"name": w["name"], "what": w["what"], "status": status, "detail": detail, "expected": w["codes"]})
    finally:
        shutil.rmtree(d, ignore_errors=True)
    return out


if __name__ == "__main__":
    import json
    print(json.dumps(run_all(), indent=1))
