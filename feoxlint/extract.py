"""Run the rustc_private driver over /repo's *current working tree* and return
the facts files. Nothing in /repo is executed: `cargo check` type-checks and
builds MIR only. Facts are cached by a SHA-256 over the tree so the 19 checks
of one invocation share one extraction; a changed tree is always re-extracted.
"""
import fcntl
import glob
import hashlib
import json
import os
import shutil
import subprocess
import sys
import time
import uuid

VERIF = os.path.dirname(os.path.dirname(os.path.abspath(__file__)))
REPO = os.environ.get("FEOXLINT_REPO", "/repo")
CACHE = os.path.join(VERIF, ".cache")
DRIVER = os.path.join(VERIF, "driver", "target", "release", "feoxlint-driver")

# extraction configurations: name -> cargo arguments
CONFIGS = {
    # the shipped library: default features, no cfg(test)
    "lib": ["check", "--offline", "--lib"],
    # library compiled with cfg(test) (real crash_at / fail_at hook bodies)
    "libtest": ["check", "--offline", "--lib", "--profile", "test"],
    # system allocator feature set
    "sysalloc": ["check", "--offline", "--lib", "--no-default-features", "--features", "system-alloc"],
    # the feox-migrate binary (plus the lib it links)
    "bin": ["check", "--offline", "--bin", "feox-migrate"],
}


def tree_hash(repo=None):
    repo = repo or REPO
    h = hashlib.sha256()
    files = [os.path.join(repo, "Cargo.toml"), os.path.join(repo, "Cargo.lock")]
    for root, dirs, fs in os.walk(os.path.join(repo, "src")):
        dirs.sort()
        for f in sorted(fs):
            files.append(os.path.join(root, f))
    for f in files:
        h.update(f[len(repo):].encode())
        try:
            with open(f, "rb") as fh:
                h.update(fh.read())
        except OSError:
            h.update(b"<missing>")
    # the driver binary is part of the key too
    try:
        st = os.stat(DRIVER)
        h.update(("%d-%d" % (st.st_size, int(st.st_mtime))).encode())
    except OSError:
        pass
    return h.hexdigest()[:24]


def sysroot():
    out = subprocess.run(["rustc", "+nightly", "--print", "sysroot"], capture_output=True, text=True)
    if out.returncode != 0:
        raise RuntimeError("nightly toolchain missing: " + out.stderr)
    return out.stdout.strip()


def ensure_driver():
    if os.path.exists(DRIVER):
        return
    env = dict(os.environ, CARGO_NET_OFFLINE="true")
    r = subprocess.run(["cargo", "build", "--offline", "--release"],
                       cwd=os.path.join(VERIF, "driver"), env=env, capture_output=True, text=True)
    if r.returncode != 0:
        raise RuntimeError("driver build failed:\n" + r.stderr[-4000:])


def extract(config="lib", repo=None, cache=True):
    """Returns (list of facts dicts, meta). Raises RuntimeError when the tree
    does not compile or the driver did not run (fail closed)."""
    repo = repo or REPO
    ensure_driver()
    os.makedirs(CACHE, exist_ok=True)
    th = tree_hash(repo)
    out_dir = os.path.join(CACHE, "facts", th, config)
    lock_path = os.path.join(CACHE, "extract.lock")
    with open(lock_path, "w") as lock:
        fcntl.flock(lock, fcntl.LOCK_EX)
        done = os.path.join(out_dir, "DONE")
        if not (cache and os.path.exists(done)):
            if os.path.isdir(out_dir):
                shutil.rmtree(out_dir)
            os.makedirs(out_dir)
            _run(config, repo, out_dir)
            with open(done, "w") as f:
                f.write(str(time.time()))
            _prune(os.path.join(CACHE, "facts"), keep=th)
        # read under the lock: a concurrent run's prune must not remove this tree's facts before they are loaded
        facts = []
        for p in sorted(glob.glob(os.path.join(out_dir, "*.json"))):
            with open(p) as f:
                facts.append(json.load(f))
    if not facts:
        raise RuntimeError("no facts produced for config %s" % config)
    return facts, {"tree": th, "config": config, "dir": out_dir}


def _prune(root, keep):
    # keep the cache small: only the current tree and the two most recent others
    try:
        ents = [e for e in os.listdir(root) if e != keep]
        ents.sort(key=lambda e: os.path.getmtime(os.path.join(root, e)), reverse=True)
        for e in ents[2:]:
            shutil.rmtree(os.path.join(root, e), ignore_errors=True)
    except OSError:
        pass


def _run(config, repo, out_dir):
    nonce = uuid.uuid4().hex
    target = os.path.join(CACHE, "target")
    os.makedirs(target, exist_ok=True)
    # cargo's freshness cache would skip the wrapper: drop the member's fingerprints
    for prof in glob.glob(os.path.join(target, "*", ".fingerprint", "feoxdb-*")):
        shutil.rmtree(prof, ignore_errors=True)
    env = dict(os.environ)
    env.update({
        "LD_LIBRARY_PATH": os.path.join(sysroot(), "lib") + ":" + env.get("LD_LIBRARY_PATH", ""),
        "RUSTFLAGS": "-Zmir-opt-level=0 -Awarnings",
        "RUSTC_WORKSPACE_WRAPPER": DRIVER,
        "FEOXLINT_OUT": out_dir,
        "FEOXLINT_NONCE": nonce,
        "CARGO_TARGET_DIR": target,
        "CARGO_NET_OFFLINE": "true",
        "CARGO_INCREMENTAL": "0",
    })
    cmd = ["cargo", "+nightly"] + CONFIGS[config]
    t0 = time.time()
    r = subprocess.run(cmd, cwd=repo, env=env, capture_output=True, text=True)
    if r.returncode != 0:
        raise RuntimeError("extraction failed (%s): the tree does not type-check or the driver crashed\n%s"
                           % (" ".join(cmd), r.stderr[-6000:]))
    ok = False
    for p in glob.glob(os.path.join(out_dir, "*.json")):
        with open(p) as f:
            head = f.read(200)
        if nonce in head:
            ok = True
    if not ok:
        raise RuntimeError("driver did not run for this tree (no facts with nonce); stderr:\n" + r.stderr[-3000:])
    sys.stderr.write("[extract] %s %s in %.1fs\n" % (config, os.path.basename(os.path.dirname(out_dir)), time.time() - t0))


if __name__ == "__main__":
    cfg = sys.argv[1] if len(sys.argv) > 1 else "lib"
    facts, meta = extract(cfg)
    print(meta, [(f["crate"], f["is_test"], f["n_bodies"]) for f in facts])
