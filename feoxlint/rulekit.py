"""Rule kinds (DOM, FOLLOW, NEVER-AFTER, GUARD, NOERR-AFTER, CALLERS, FORBID,
FIELDW, ...) over the program model, plus the obligation recorder every rule
instance reports into. A rule instance never passes vacuously: selectors carry
floors and a missing anchor is a violation of its own kind (`anchor`)."""
import re

from . import analysis as A
from .model import AnchorMissing, call_matches, callee_name, op_local, op_place, path_matches, sp


class Finding:
    def __init__(self, prop, inst, kind, fn, what, site=None, detail=None):
        self.prop = prop
        self.inst = inst
        self.kind = kind
        self.fn = fn
        self.what = what
        self.site = site
        self.detail = detail

    def key(self):
        # no line numbers in the key: stable under unrelated edits
        return "%s|%s|%s|%s|%s" % (self.prop, self.inst, self.kind, self.fn, self.what)

    def to_json(self):
        return {"property": self.prop, "instance": self.inst, "rule": self.kind, "function": self.fn,
                "what": self.what, "site": self.site, "detail": self.detail, "key": self.key()}


class Ctx:
    def __init__(self, prog, prop, cfg="lib"):
        self.prog = prog
        self.prop = prop
        self.cfg = cfg
        self.obligations = []   # dicts
        self.findings = []
        self.sites_examined = set()
        self.nontrivial = set()
        self.notes = []

    # ---------------------------------------------------------------- record
    def ok(self, inst, kind, fn, what, site=None, nontrivial=True, detail=None):
        self.obligations.append({"instance": inst, "rule": kind, "function": fn, "what": what, "site": site,
                                 "status": "discharged", "detail": detail})
        k = (fn, site, what)
        self.sites_examined.add(k)
        if nontrivial:
            self.nontrivial.add(k)

    def fail(self, inst, kind, fn, what, site=None, detail=None):
        self.obligations.append({"instance": inst, "rule": kind, "function": fn, "what": what, "site": site,
                                 "status": "VIOLATED", "detail": detail})
        self.sites_examined.add((fn, site, what))
        self.nontrivial.add((fn, site, what))
        self.findings.append(Finding(self.prop, inst, kind, fn, what, site, detail))

    def anchor_missing(self, inst, what, fn="-"):
        self.fail(inst, "anchor", fn, "anchor missing: " + what, None,
                  "a rule instance lost its anchor (renamed / removed / count below the reviewed floor); "
                  "fail-closed: update the instance table after review")

    def check(self, cond, inst, kind, fn, what, site=None, detail=None, nontrivial=True):
        if cond:
            self.ok(inst, kind, fn, what, site, nontrivial, detail)
        else:
            self.fail(inst, kind, fn, what, site, detail)
        return cond

    def note(self, s):
        self.notes.append(s)

    # ---------------------------------------------------------------- anchors
    def fn(self, name, inst="?"):
        try:
            return self.prog.fn(name)
        except AnchorMissing as e:
            self.anchor_missing(inst, str(e))
            return None

    def guarded(self, inst, f, *args, **kw):
        """run a rule body; an AnchorMissing raised inside becomes a finding"""
        try:
            return f(*args, **kw)
        except AnchorMissing as e:
            self.anchor_missing(inst, str(e))
            return None

    def sites(self, body, sel, inst, floor=1, exact=None, what=None):
        """select nodes in body; enforce the reviewed floor"""
        got = sel(body)
        desc = what or getattr(sel, "desc", "site")
        if exact is not None and len(got) != exact:
            self.anchor_missing(inst, "%s: expected exactly %d site(s) of %s, found %d" % (body.path, exact, desc, len(got)), body.path)
            if len(got) < exact:
                return got
        elif len(got) < floor:
            self.anchor_missing(inst, "%s: expected >= %d site(s) of %s, found %d" % (body.path, floor, desc, len(got)), body.path)
        return got


# -------------------------------------------------------------------- selectors

class Sel:
    def __init__(self, f, desc):
        self.f = f
        self.desc = desc

    def __call__(self, body):
        return self.f(body)

    def __or__(self, other):
        return Sel(lambda b: sorted(set(self.f(b)) | set(other.f(b))), "%s | %s" % (self.desc, other.desc))

    def filter(self, pred, desc=""):
        return Sel(lambda b: [n for n in self.f(b) if pred(b, b.nodes[n])], self.desc + (" where " + desc if desc else ""))


def recv_expr(body, node, idx=0):
    """traced expression of call argument idx"""
    args = node.ev.get("args", [])
    if idx >= len(args):
        return A.E("unknown")
    return A.tracer(body).operand(args[idx])


def arg_expr(body, node, idx, transparent=True):
    args = node.ev.get("args", [])
    if idx >= len(args):
        return A.E("unknown")
    return A.tracer(body, transparent).operand(args[idx])


def call(*names, recv_field=None, recv_ty=None, arg_ty=None, where=None):
    """call sites whose (resolved or declared) callee matches one of names.
    recv_field=(Adt, field): receiver (arg 0) derives from that field.
    recv_ty: regex on the type of arg 0."""
    def f(body):
        out = []
        for n in body.calls():
            if not any(call_matches(n.ev, nm) for nm in names):
                # virtual targets
                ts = body.prog.targets(n.ev)
                if not any(t and path_matches(t, nm) for t in ts for nm in names):
                    continue
            if recv_ty is not None:
                tys = n.ev.get("arg_tys", [])
                if not tys or not re.search(recv_ty, tys[0]):
                    continue
            if arg_ty is not None:
                i, rx = arg_ty
                tys = n.ev.get("arg_tys", [])
                if i >= len(tys) or not re.search(rx, tys[i]):
                    continue
            if recv_field is not None:
                e = recv_expr(body, n)
                if not e.has_field(recv_field[0], recv_field[1]):
                    continue
            if where is not None and not where(body, n):
                continue
            out.append(n.id)
        return out
    d = "call " + "|".join(names)
    if recv_field:
        d += " on %s.%s" % recv_field
    if recv_ty:
        d += " recv~" + recv_ty
    return Sel(f, d)


def call_reaching(name, within=None):
    """call sites whose resolved product callee is `name` or a function that transitively calls it (wrappers and renamed
    variants of the same service match; the rule follows the service, not the spelling). within: optional ::-suffix the
    callee's own path must contain (e.g. 'FeoxStore::')."""
    def f(body):
        out = []
        prog = body.prog
        for n in body.calls():
            for t in prog.targets(n.ev):
                if not t or t not in prog.bodies:
                    continue
                if within is not None and within not in t:
                    continue
                if path_matches(t, name) or prog.reaches_name(t, name):
                    out.append(n.id)
                    break
        return out
    return Sel(f, "call reaching " + name)


def call_or_thin_helper(*names, max_nodes=120):
    """call sites of one of `names`, or of a *thin private helper* of it: a non-public local function of at most max_nodes MIR
    nodes that itself calls the name directly (a forwarder / small wrapper extracted during a refactor). The rule keeps talking
    about "the place where X happens" when X was moved behind such a helper."""
    def f(body):
        out = []
        prog = body.prog
        for n in body.calls():
            if any(call_matches(n.ev, nm) for nm in names):
                out.append(n.id)
                continue
            for t in prog.targets(n.ev):
                tb = prog.bodies.get(t) if t else None
                if tb is None or tb.is_test or (tb.raw.get("vis") or "Public") == "Public" or len(tb.nodes) > max_nodes:
                    continue
                if any(call_matches(c.ev, nm) for c in tb.calls() for nm in names):
                    out.append(n.id)
                    break
        return out
    return Sel(f, "call " + "|".join(names) + " (or a thin private helper of it)")


ATOMIC_WRITES = ["Atomic*::store", "Atomic*::fetch_*", "Atomic*::swap", "Atomic*::compare_exchange*",
                 "Atomic::store", "Atomic::fetch_*", "Atomic::swap", "Atomic::compare_exchange*"]
ATOMIC_LOADS = ["Atomic*::load", "Atomic::load"]


def _is_atomic_call(ev, kinds):
    for k in kinds:
        if call_matches(ev, k):
            return True
    return False


def field_write(adt, field, ops=None):
    """atomic RMW/store calls on `adt.field`, or plain assignments to it.
    ops: restrict atomic method names (e.g. ['store'])"""
    def f(body):
        out = []
        for n in body.nodes:
            if n.kind == "call" and _is_atomic_call(n.ev, ATOMIC_WRITES):
                if ops is not None and not any(callee_name(n.ev).rsplit("::", 1)[-1].startswith(o) for o in ops):
                    continue
                e = recv_expr(body, n)
                if _top_field(e, adt, field):
                    out.append(n.id)
            elif n.kind == "assign" and n.ev["dst"]["p"]:
                if ops is not None and "assign" not in ops:
                    continue
                last = n.ev["dst"]["p"][-1]
                if isinstance(last, dict) and last.get("n") == field and (last.get("adt") or "").endswith(adt):
                    out.append(n.id)
        return out
    return Sel(f, "write %s.%s" % (adt, field))


def _top_field(e, adt, field):
    """expression is (a view of) the field itself, not something merely derived from it"""
    return e.k == "field" and e.extra[1] == field and (e.extra[0] or "").endswith(adt)


def field_load(adt, field):
    def f(body):
        out = []
        for n in body.nodes:
            if n.kind == "call" and _is_atomic_call(n.ev, ATOMIC_LOADS):
                e = recv_expr(body, n)
                if _top_field(e, adt, field):
                    out.append(n.id)
        return out
    return Sel(f, "load %s.%s" % (adt, field))


def aggregate(adt, variant=None):
    def f(body):
        out = []
        for n in body.nodes:
            if n.kind == "assign" and n.ev.get("rv") == "agg" and n.ev.get("agg") == "adt":
                if path_matches(n.ev["adt"], adt) and (variant is None or n.ev.get("var") == variant):
                    out.append(n.id)
        return out
    return Sel(f, "construct %s%s" % (adt, ("::" + variant) if variant else ""))


def returns(kind="any"):
    """return-value writes: 'err' error writes to _0, 'ok' Ok/Some aggregates, 'ret' Return terminators"""
    def f(body):
        if kind == "err":
            return A.error_nodes(body)
        if kind == "ok":
            return A.ok_nodes(body)
        return body.return_nodes()
    return Sel(f, "return(%s)" % kind)


def reaching(pred_name, pred, direct=None):
    """call sites whose callee may transitively reach a primitive (call-graph
    reachability), or that call the primitive directly"""
    def f(body):
        out = []
        prog = body.prog
        for n in body.calls():
            for t in prog.targets(n.ev):
                if t and (pred(t) or prog.reaches(t, pred)):
                    out.append(n.id)
                    break
        return out
    return Sel(f, "call reaching " + pred_name)


def nodes_where(pred, desc):
    return Sel(lambda b: [n.id for n in b.nodes if pred(b, n)], desc)


# -------------------------------------------------------------------- path rules

def _site(body, nid):
    return body.where(nid)


def _desc(body, nid):
    from .dump import fmt_ev
    return fmt_ev(body.nodes[nid])[:140]


def witness(body, ps, state, maxn=14):
    if state is None:
        return None
    path = ps.path_to(state)
    # compress: only calls, switches, returns
    keep = [p for p in path if body.nodes[p].kind in ("call", "switch", "return")]
    if len(keep) > maxn:
        keep = keep[:maxn // 2] + keep[-maxn // 2:]
    return ["%s %s" % (body.where(p), _desc(body, p)[:80]) for p in keep]


def _reach_any(body):
    """nodes the path-sensitive search reaches from the entry with nothing blocked (memoised per body)"""
    r = getattr(body, "_reach_any", None)
    if r is None:
        r, _ = A.reach(body, [body.entry])
        body._reach_any = r = set(r)
    return r


def _vacuity(ctx, inst, body, nodes, what):
    """a path rule about a site the search cannot reach at all would pass vacuously: report it instead (fail closed).
    Sites that are unreachable even in the plain CFG (dead arms) are left alone."""
    ok = True
    pr = None
    for n in nodes:
        if n in _reach_any(body):
            continue
        if pr is None:
            pr, _ = A.reach(body, [body.entry], sensitive=False)
        if n in pr:
            ctx.fail(inst, "engine", body.path, "the path search prunes every path to the site of `%s` although the CFG reaches it "
                     "(the rule would pass vacuously)" % what, _site(body, n))
            ok = False
    return ok


def dom(ctx, inst, body, a_nodes, b_nodes, what, blocked_edges=frozenset(), a_desc="A"):
    """every path entry -> each B passes some A node"""
    ok_all = True
    if not blocked_edges:
        _vacuity(ctx, inst, body, b_nodes, what)
    for bnode in b_nodes:
        r, ps = A.reach(body, [body.entry], blocked_nodes=set(a_nodes) - {bnode}, blocked_edges=blocked_edges)
        good = bnode not in r or bnode in a_nodes
        ctx.check(good, inst, "DOM", body.path, what, _site(body, bnode),
                  None if good else {"rule": "a path from entry reaches the site without passing " + a_desc,
                                     "witness": witness(body, ps, r.get(bnode))})
        ok_all &= good
    return ok_all


def follow(ctx, inst, body, a_nodes, b_nodes, what, exempt=(), exits=None, b_desc="B"):
    """every path from each A to a normal exit passes some B; paths through an
    error write to _0 (or an `exempt` node) are exempt"""
    errs = set(A.error_nodes(body)) | set(exempt)
    rets = set(exits if exits is not None else body.return_nodes())
    ok_all = True
    for a in a_nodes:
        starts = A.succs(body, a)
        r, ps = A.reach(body, starts, blocked_nodes=set(b_nodes) | errs)
        bad = [x for x in rets if x in r]
        good = not bad
        ctx.check(good, inst, "FOLLOW", body.path, what, _site(body, a),
                  None if good else {"rule": "a path from the site reaches a normal exit without passing " + b_desc,
                                     "witness": witness(body, ps, r.get(bad[0]))})
        ok_all &= good
    return ok_all


def never_after(ctx, inst, body, a_nodes, b_nodes, what):
    ok_all = True
    for a in a_nodes:
        r, ps = A.reach(body, A.succs(body, a))
        bad = [b for b in b_nodes if b in r]
        good = not bad
        ctx.check(good, inst, "NEVER-AFTER", body.path, what, _site(body, a),
                  None if good else {"rule": "the second site is reachable after the first",
                                     "witness": witness(body, ps, r.get(bad[0]))})
        ok_all &= good
    return ok_all


def guard_edges_for_call(body, p_nodes, value):
    """switch edges on which the result of one of the predicate calls p_nodes has abstract value `value`"""
    keys = A.call_roots(body, p_nodes)
    edges = A.pred_edges(body, lambda e: e.key() in keys, value)
    if value in ("true", "false"):
        # Result<bool> / Option<bool>: the boolean payload of the call's result (`f()? `, `if let Ok(b) = f()`)
        def payload(e):
            x = e
            d = 0
            while d < 8:
                if x.k in ("field", "downcast") and x.a:
                    x = x.a[0]
                    d += 1
                    continue
                if x.k == "call" and x.a and path_matches(x.extra, "Try::branch"):
                    x = x.a[0]
                    d += 1
                    continue
                break
            return d > 0 and x.key() in keys
        edges = edges + A.pred_edges(body, payload, value)
    return edges


def guard(ctx, inst, body, s_nodes, edges, what, require_edges=True):
    """each S is reachable from entry only through one of `edges` (edges of the
    predicate's switch carrying the required polarity) with no re-definition of
    the tested value between that edge and S"""
    if require_edges and not edges:
        ctx.anchor_missing(inst, "%s: predicate of `%s` is not tested by any branch" % (body.path, what), body.path)
        return False
    unmark = set()
    for (sw, _) in edges:
        unmark |= A.root_invalidators(body, A.switch_info(body, sw).root)
    # a borrow taken only to make the guarded call itself is not a reassignment of the tested value
    for s in s_nodes:
        n = body.nodes[s]
        if n.kind != "call":
            continue
        work = [op_local(a) for a in n.ev["args"]]
        for _ in range(3):
            nxt = []
            for l in work:
                if l is None:
                    continue
                for d in body.defs.get(l, []):
                    dn = body.nodes[d]
                    if dn.kind == "assign" and dn.ev.get("rv") in ("ref", "rawptr", "use"):
                        if dn.ev.get("rv") == "use" and body.local_name(l):
                            # `state = current`: a user variable receiving a new value IS a reassignment of the tested value
                            continue
                        unmark.discard(d)
                        if dn.ev.get("rv") == "use":
                            nxt.append(op_local(dn.ev["a"]))
                        else:
                            nxt.append(dn.ev["pl"]["l"] if dn.ev["pl"]["p"] else None)
            work = nxt
    ps = A.PathSearch(body)
    ps.run([body.entry], mark_edges=frozenset(edges), unmark_nodes=frozenset(unmark))
    ok_all = True
    _vacuity(ctx, inst, body, s_nodes, what)
    for s in s_nodes:
        st = ps.reached_unmarked.get(s)
        good = st is None
        ctx.check(good, inst, "GUARD", body.path, what, _site(body, s),
                  None if good else {"rule": "the site is reachable without the required outcome of the predicate holding "
                                             "(branch not taken, or the tested value was reassigned afterwards)",
                                     "witness": witness(body, ps, st)})
        ok_all &= good
    return ok_all


def guard_call(ctx, inst, body, s_nodes, p_sel, value, what, floor=1):
    p_nodes = ctx.sites(body, p_sel, inst, floor=floor)
    if not p_nodes:
        return False
    edges = guard_edges_for_call(body, p_nodes, value)
    return guard(ctx, inst, body, s_nodes, edges, what)


def noerr_after(ctx, inst, body, s_nodes, what, allowed=()):
    """no error exit is reachable after S unless the error comes from a callee in `allowed`"""
    errs = A.error_nodes(body)
    ok_all = True
    for s in s_nodes:
        r, ps = A.reach(body, A.succs(body, s))
        bad = []
        for e in errs:
            if e in r:
                srcs = [x for x in A.error_sources(body, e)
                        if not any(path_matches(x[1], w) for w in ("Result::map_err", "Option::ok_or", "Option::ok_or_else", "Result::map"))]
                if srcs and all(any(path_matches(nm, al) for al in allowed) or _helper_only_fails_through(body.prog, nm, allowed) for (_, nm) in srcs):
                    continue
                bad.append(e)
        good = not bad
        ctx.check(good, inst, "NOERR-AFTER", body.path, what, _site(body, s),
                  None if good else {"rule": "an error return is reachable after shared state was changed",
                                     "error_site": _site(body, bad[0]),
                                     "witness": witness(body, ps, r.get(bad[0]))})
        ok_all &= good
    return ok_all


def _helper_only_fails_through(prog, callee, allowed):
    """`callee` is a non-public local helper every error exit of which comes from a callee in `allowed` (the tail of a function
    extracted into a private helper keeps the exemption its fallible step had)"""
    hb = prog.bodies.get(callee)
    if hb is None or hb.is_test or (hb.raw.get("vis") or "Public") == "Public":
        return False
    errs = A.error_nodes(hb)
    if not errs:
        return False
    for e in errs:
        srcs = [x for x in A.error_sources(hb, e)
                if not any(path_matches(x[1], w) for w in ("Result::map_err", "Option::ok_or", "Option::ok_or_else", "Result::map"))]
        if not srcs or not all(any(path_matches(nm, al) for al in allowed) for (_, nm) in srcs):
            return False
    return True


# -------------------------------------------------------------------- call-graph rules

def owner_fn(prog, body):
    """closures are attributed to their enclosing fn"""
    return body.root if body.is_closure else body.path


def callers_within(ctx, inst, callee, allowed, what=None, floor=1, site_filter=None):
    """every product call site of `callee` lies in a function of `allowed`"""
    prog = ctx.prog
    sites = prog.call_sites(callee)
    if site_filter:
        sites = [(b, n) for (b, n) in sites if site_filter(b, n)]
    # a floor counts reviewed *uses*: a site inside a private helper of reviewed callers counts once per call of the helper
    eff = 0
    for b, n in sites:
        o = owner_fn(prog, b)
        if not any(path_matches(o, a) for a in allowed) and _private_helper_of(prog, o, allowed, 0):
            eff += max(1, sum(1 for cb in prog.product_bodies() for cn in cb.calls() if o in [t for t in prog.targets(cn.ev) if t]))
        else:
            eff += 1
    if eff < floor:
        ctx.anchor_missing(inst, "call sites of %s: expected >= %d, found %d" % (callee, floor, eff))
    for b, n in sites:
        o = owner_fn(prog, b)
        good = any(path_matches(o, a) for a in allowed) or _private_helper_of(prog, o, allowed, 0)
        ctx.check(good, inst, "CALLERS", o, what or ("only {%s} may call %s" % (", ".join(allowed), callee)),
                  b.where(n.id), None if good else {"rule": "call from a function outside the reviewed set", "callee": callee_name(n.ev)})
    return sites


def _private_helper_of(prog, fn_path, allowed, depth):
    """fn_path is a non-public function all of whose (>= 1) product call sites lie in reviewed functions (or in such helpers):
    a write+sync pair, a metadata stamp, ... extracted into a private helper stays inside the reviewed entry points, which is what
    a who-may-call table states. Public functions never qualify: anybody may call them."""
    b = prog.bodies.get(fn_path)
    if b is None or depth > 2:
        return False
    vis = b.raw.get("vis")
    if not vis or vis == "Public":
        return False
    sites = prog.call_sites_of_path(fn_path) if hasattr(prog, "call_sites_of_path") else None
    if sites is None:
        sites = [(cb, cn) for cb in prog.product_bodies() for cn in cb.calls() if fn_path in [t for t in prog.targets(cn.ev) if t]]
    if not sites:
        return False
    for cb, cn in sites:
        o = owner_fn(prog, cb)
        if o == fn_path:
            continue
        if not (any(path_matches(o, a) for a in allowed) or _private_helper_of(prog, o, allowed, depth + 1)):
            return False
    return True


def forbid(ctx, inst, scope_pred, callees, what, control=None):
    """no product body satisfying scope_pred calls one of `callees`"""
    prog = ctx.prog
    n_sites = 0
    n_bodies = 0
    for b in prog.product_bodies():
        if not scope_pred(b):
            continue
        n_bodies += 1
        for n in b.calls():
            n_sites += 1
            for c in callees:
                if call_matches(n.ev, c):
                    ctx.fail(inst, "FORBID", owner_fn(prog, b), what + ": " + c, b.where(n.id),
                             {"rule": "forbidden callee in this scope", "callee": callee_name(n.ev)})
    if n_bodies == 0:
        ctx.anchor_missing(inst, "FORBID scope for `%s` is empty" % what)
    else:
        ctx.ok(inst, "FORBID", "scope(%d bodies, %d calls)" % (n_bodies, n_sites), what, nontrivial=False)
    return n_bodies, n_sites


def fieldw_within(ctx, inst, adt, field, allowed, floor=1, ops=None):
    """every write to adt.field lies in a function of `allowed`"""
    prog = ctx.prog
    sel = field_write(adt, field, ops)
    total = 0
    for b in prog.product_bodies():
        for nid in sel(b):
            total += 1
            o = owner_fn(prog, b)
            good = any(path_matches(o, a) for a in allowed)
            ctx.check(good, inst, "FIELDW", o, "write to %s.%s only in {%s}" % (adt, field, ", ".join(allowed)),
                      b.where(nid), None if good else {"rule": "field written outside the reviewed set"})
    # struct-literal initialisations
    for b in prog.product_bodies():
        for n in b.nodes:
            if n.kind == "assign" and n.ev.get("rv") == "agg" and n.ev.get("agg") == "adt" and path_matches(n.ev["adt"], adt):
                if field in n.ev.get("fields", []):
                    total += 1
                    o = owner_fn(prog, b)
                    good = any(path_matches(o, a) for a in allowed)
                    ctx.check(good, inst, "FIELDW", o, "construction of %s (sets %s) only in {%s}" % (adt, field, ", ".join(allowed)),
                              b.where(n.id), None if good else {"rule": "struct constructed outside the reviewed set"})
    if total < floor:
        ctx.anchor_missing(inst, "writes to %s.%s: expected >= %d, found %d" % (adt, field, floor, total))
    return total


# -------------------------------------------------------------------- NODISCARD

def _places_in(ev, kind):
    """locals read by an event (operands, borrowed / inspected places)"""
    out = set()

    def op(o):
        if o and o.get("k") in ("copy", "move"):
            out.add(o["pl"]["l"])
            for p in o["pl"]["p"]:
                if isinstance(p, dict) and "idx" in p:
                    out.add(p["idx"])

    if kind == "assign":
        rv = ev["rv"]
        if rv in ("use", "repeat", "cast", "un"):
            op(ev["a"])
        elif rv == "bin":
            op(ev["a"])
            op(ev["b"])
        elif rv in ("ref", "rawptr", "discr"):
            out.add(ev["pl"]["l"])
        elif rv == "agg":
            for o in ev["ops"]:
                op(o)
        # writing through a projection reads the base
        if ev["dst"]["p"]:
            out.add(ev["dst"]["l"])
    elif kind == "call":
        for a in ev["args"]:
            op(a)
        if ev.get("fn_op"):
            op(ev["fn_op"])
    elif kind == "switch":
        op(ev["discr"])
    elif kind == "assert":
        op(ev["cond"])
    return out


LAUNDER = ["Result::ok", "Result::err", "Result::map_err", "Result::map", "Result::is_ok", "Result::is_err",
           "Result::unwrap_or_default", "Result::or", "Result::as_ref"]


def result_is_used(body, nid, depth=0):
    """is the value produced at call node nid read by anything other than its drop?"""
    d = body.nodes[nid].ev["dest"]
    if d["p"] or d["l"] == 0:
        return True  # stored into a place / returned
    l = d["l"]
    for n in body.nodes:
        if n.id == nid or n.kind in ("dead", "live", "drop"):
            continue
        if l in _places_in(n.ev, n.kind):
            if n.kind == "call" and depth < 3 and any(call_matches(n.ev, x) for x in LAUNDER) and \
                    not call_matches(n.ev, "Result::is_ok") and not call_matches(n.ev, "Result::is_err"):
                if result_is_used(body, n.id, depth + 1):
                    return True
                continue
            return True
    return False


def nodiscard(ctx, inst, scope_pred, result_ty_re, exceptions, what):
    """every Result<_, FeoxError> produced by a call in scope is read"""
    prog = ctx.prog
    rx = re.compile(result_ty_re)
    n_sites = 0
    seen_exc = set()
    for b in prog.product_bodies():
        if not scope_pred(b):
            continue
        for n in b.calls():
            if not rx.search(n.ev.get("dest_ty") or ""):
                continue
            if n.ev.get("span", {}).get("exp") and call_matches(n.ev, "Try::branch"):
                continue
            n_sites += 1
            used = result_is_used(b, n.id)
            owner = owner_fn(prog, b)
            callee = callee_name(n.ev)
            exc = None
            for (f, c, why) in exceptions:
                if not path_matches(owner, f):
                    continue
                if path_matches(callee, c):
                    exc = (f, c)
                else:
                    # the excepted call extracted into a private helper of the same owner: the helper's only storage-error
                    # source of that name is still the excepted one, and nobody else calls the helper unreviewed
                    for t in prog.targets(n.ev):
                        tb = prog.bodies.get(t) if t else None
                        if tb is not None and (tb.raw.get("vis") or "Public") != "Public" and prog.reaches_name(t, c) and \
                                any(call_matches(x.ev, c) for x in tb.calls()):
                            exc = (f, c)
            if used:
                ctx.ok(inst, "NODISCARD", owner, "%s: result of %s is consumed" % (what, callee.rsplit("::", 1)[-1]), b.where(n.id), nontrivial=True)
            elif exc:
                seen_exc.add(exc)
                ctx.ok(inst, "NODISCARD", owner, "%s: reasoned exception for %s" % (what, callee.rsplit("::", 1)[-1]), b.where(n.id), nontrivial=False)
            else:
                ctx.fail(inst, "NODISCARD", owner, "%s: result of %s is discarded" % (what, callee.rsplit("::", 1)[-1]), b.where(n.id),
                         {"rule": "a storage-layer error is dropped (`let _ =`, `.ok()`, unused)", "callee": callee})
    if n_sites == 0:
        ctx.anchor_missing(inst, "NODISCARD scope is empty")
    return n_sites, seen_exc
