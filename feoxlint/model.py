"""Program model over the driver's facts: bodies as event-level CFGs (one node
per statement / terminator, cleanup blocks excluded), def maps, call graph."""
import re
from collections import defaultdict


class AnchorMissing(Exception):
    pass


TEST_PATH_RE = re.compile(r"(^|/)src/tests/|(^|/)tests/|(^|/)benches/|(^|/)examples/")


def sp(span):
    if not span:
        return "?"
    return "%s:%d" % (span.get("file", "?"), span.get("lo", 0))


class Node:
    __slots__ = ("id", "bb", "idx", "ev", "kind", "succ", "pred")

    def __init__(self, id, bb, idx, ev, kind):
        self.id = id
        self.bb = bb
        self.idx = idx
        self.ev = ev
        self.kind = kind  # 'assign','dead','live','call','switch','return','drop','goto','assert','unreachable','other',...
        self.succ = []  # list of (node_id, label)
        self.pred = []


def place_local(pl):
    return pl["l"]


def place_is_local(pl):
    return not pl["p"]


def op_place(op):
    if op and op.get("k") in ("copy", "move"):
        return op["pl"]
    return None


def op_local(op):
    """local index if operand is a bare local (no projection)"""
    pl = op_place(op)
    if pl is not None and not pl["p"]:
        return pl["l"]
    return None


class Body:
    def __init__(self, prog, raw):
        self.prog = prog
        self.raw = raw
        self.path = raw["path"]
        self.kind = raw["kind"]
        self.span = raw["span"]
        self.file = raw["span"]["file"]
        self.locals = raw["locals"]
        self.argc = raw["argc"]
        self.root = raw.get("root", self.path)  # enclosing fn for closures
        self.parent = raw.get("parent")
        self.is_closure = self.kind == "Closure"
        self.sig = raw.get("sig", "")
        self.impl_self = raw.get("impl_self")
        self.impl_trait = raw.get("impl_trait")
        self.is_test = bool(TEST_PATH_RE.search(self.file)) or "::tests::" in self.path or self.path.startswith("tests::")
        self._build()

    # ------------------------------------------------------------------ graph
    def _build(self):
        blocks = self.raw["blocks"]
        self.nodes = []
        self.bb_first = {}
        self.bb_term = {}
        for bi, b in enumerate(blocks):
            if b["cleanup"]:
                continue
            first = None
            for si, s in enumerate(b["stmts"]):
                n = Node(len(self.nodes), bi, si, s, s["s"])
                self.nodes.append(n)
                if first is None:
                    first = n.id
            t = b["term"]
            n = Node(len(self.nodes), bi, len(b["stmts"]), t, t["t"])
            self.nodes.append(n)
            if first is None:
                first = n.id
            self.bb_first[bi] = first
            self.bb_term[bi] = n.id
        # edges
        for n in self.nodes:
            b = blocks[n.bb]
            if n.idx < len(b["stmts"]):
                n.succ.append((n.id + 1, None))
                continue
            t = n.ev
            k = n.kind

            def tgt(x):
                return self.bb_first.get(x)

            if k == "goto":
                n.succ.append((tgt(t["target"]), None))
            elif k == "switch":
                for v, bb in t["arms"]:
                    n.succ.append((tgt(bb), v))
                n.succ.append((tgt(t["otherwise"]), "otherwise"))
            elif k in ("call",):
                if t.get("target") is not None:
                    n.succ.append((tgt(t["target"]), None))
            elif k in ("drop", "assert"):
                n.succ.append((tgt(t["target"]), None))
            # return/unreachable/resume/terminate/tailcall/other: no successors
        for n in self.nodes:
            n.succ = [(s, l) for (s, l) in n.succ if s is not None]
            for s, l in n.succ:
                self.nodes[s].pred.append((n.id, l))
        self.entry = self.bb_first.get(0, 0)
        # def map: local -> nodes that (re)define the whole local
        self.defs = defaultdict(list)
        # partial writes: local -> nodes writing through a projection of it
        self.pdefs = defaultdict(list)
        for n in self.nodes:
            d = None
            if n.kind == "assign":
                d = n.ev["dst"]
            elif n.kind == "call":
                d = n.ev["dest"]
            elif n.kind == "setdiscr":
                d = n.ev["pl"]
            if d is not None:
                if not d["p"]:
                    self.defs[d["l"]].append(n.id)
                else:
                    self.pdefs[d["l"]].append(n.id)
        # locals whose address is taken mutably (may be written through a reference)
        self.mut_borrowed = set()
        for n in self.nodes:
            if n.kind == "assign" and n.ev.get("rv") in ("ref", "rawptr"):
                if n.ev.get("mut") or n.ev.get("rv") == "rawptr":
                    self.mut_borrowed.add(n.ev["pl"]["l"])

    # ------------------------------------------------------------------ helpers
    def local_ty(self, l):
        return self.locals[l]["ty"]

    def local_name(self, l):
        return self.locals[l].get("name")

    def where(self, nid):
        n = self.nodes[nid]
        return sp(n.ev.get("span"))

    def calls(self):
        return [n for n in self.nodes if n.kind == "call"]

    def single_def(self, l):
        """the unique defining node of local l (args have none)"""
        d = self.defs.get(l, [])
        if len(d) == 1 and l > self.argc and l not in self.mut_borrowed_whole():
            return d[0]
        return None

    def mut_borrowed_whole(self):
        return self._mbw if hasattr(self, "_mbw") else self._compute_mbw()

    def _compute_mbw(self):
        # temps that are mutably borrowed may be modified through the borrow; do not
        # treat those as single-assignment values when tracing (user variables only:
        # compiler temps are borrowed mutably for autoref but not reassigned).
        s = set()
        for l in self.mut_borrowed:
            if self.locals[l].get("name"):
                s.add(l)
        self._mbw = s
        return s

    def return_nodes(self):
        return [n.id for n in self.nodes if n.kind == "return"]

    def __repr__(self):
        return "<Body %s>" % self.path


def callee_name(ev):
    """best name for a call event: resolved instance path, else declared path"""
    return ev.get("resolved") or ev.get("callee") or "<indirect>"


def call_matches(ev, name):
    """suffix match of a call against `name` (path suffix, `::`-aligned). A
    name ending in '*' matches a prefix of the last segment."""
    for cand in (ev.get("resolved"), ev.get("callee")):
        if cand and path_matches(cand, name):
            return True
    return False


_norm_re = re.compile(r"<[^<>]*>")


def strip_generics(p):
    prev = None
    while prev != p:
        prev = p
        p = _norm_re.sub("", p)
    while "::::" in p:
        p = p.replace("::::", "::")
    return p


_pm_cache = {}


def _name_re(name):
    r = _pm_cache.get(name)
    if r is None:
        r = re.compile(r"(^|::)" + re.escape(name).replace(r"\*", "[^:]*") + "$")
        _pm_cache[name] = r
    return r


def path_variants(path):
    p = strip_generics(path)
    cands = [p]
    # `<Type as Trait>::method` -> also `Type::method` and `Trait::method`
    m = re.match(r"^<(.+) as (.+)>::(.+)$", path)
    if m:
        cands.append(strip_generics(m.group(1)) + "::" + m.group(3))
        cands.append(strip_generics(m.group(2)) + "::" + m.group(3))
        return cands
    # `module::<impl Trait for Type>::method` / `module::<impl Type>::method`
    m = re.match(r"^(.*?)<impl (.+?) for (.+)>::(.+)$", path)
    if m:
        cands.append(strip_generics(m.group(3)) + "::" + m.group(4))
        cands.append(strip_generics(m.group(2)) + "::" + m.group(4))
        cands.append(m.group(1) + m.group(4))
        return cands
    m = re.match(r"^(.*?)<impl (.+)>::(.+)$", path)
    if m:
        cands.append(strip_generics(m.group(2)) + "::" + m.group(3))
        cands.append(m.group(1) + m.group(3))  # module::method (e.g. persistence::flush_all)
        return cands
    m = re.match(r"^<(.+)>::(.+)$", path)
    if m:
        cands.append(strip_generics(m.group(1)) + "::" + m.group(2))
    return cands


def path_matches(path, name):
    r = _name_re(name)
    for c in path_variants(path):
        if r.search(c):
            return True
    return False


class Program:
    def __init__(self, facts):
        self.facts = facts
        self.crate = facts["crate"]
        self.is_test_cfg = facts["is_test"]
        self.bodies = {}
        for raw in facts["bodies"]:
            b = Body(self, raw)
            self.bodies[b.path] = b
        self.adts = {a["path"]: a for a in facts["adts"]}
        self.consts = {c["path"]: c for c in facts["consts"]}
        self.impls = facts["impls"]
        self.unsafe = facts["unsafe"]
        self._callers = None
        self._reach_cache = {}

    # -------------------------------------------------------------- lookup
    def product_bodies(self):
        return [b for b in self.bodies.values() if not b.is_test]

    def find(self, name):
        """bodies whose path matches `name` by ::-aligned suffix (product only)"""
        return [b for b in self.product_bodies() if not b.is_closure and path_matches(b.path, name)]

    def fn(self, name):
        got = self.find(name)
        if len(got) != 1:
            raise AnchorMissing("function anchor `%s` matched %d bodies%s" % (
                name, len(got), (": " + ", ".join(b.path for b in got[:4])) if got else ""))
        return got[0]

    def closures_of(self, body):
        """closure bodies syntactically inside `body` (transitively)"""
        return [b for b in self.bodies.values() if b.is_closure and b.root == body.root and b.path.startswith(body.path + "::")]

    def family(self, body):
        """body plus its closures"""
        return [body] + self.closures_of(body)

    def const(self, name):
        got = [c for p, c in self.consts.items() if path_matches(p, name)]
        if len(got) != 1:
            raise AnchorMissing("const anchor `%s` matched %d items" % (name, len(got)))
        return got[0]

    def adt(self, name):
        got = [a for p, a in self.adts.items() if path_matches(p, name)]
        if len(got) != 1:
            raise AnchorMissing("type anchor `%s` matched %d items" % (name, len(got)))
        return got[0]

    # -------------------------------------------------------------- call graph
    def callees_of(self, body):
        """list of (node, [target body paths or external names])"""
        out = []
        for n in body.calls():
            out.append((n, self.targets(n.ev)))
        return out

    def targets(self, ev):
        """possible target names of a call event (local impls for virtual calls)"""
        rk = ev.get("rkind")
        if rk == "virtual" or (rk == "unresolved" and ev.get("trait")):
            tr = ev.get("trait")
            meth = (ev.get("callee") or "").rsplit("::", 1)[-1]
            outs = []
            for b in self.bodies.values():
                if b.impl_trait == tr and b.path.rsplit("::", 1)[-1] == meth:
                    outs.append(b.path)
            return outs or [ev.get("callee")]
        r = ev.get("resolved") or ev.get("callee")
        return [r] if r else []

    def callers(self):
        """callee path -> list of (body, node)"""
        if self._callers is None:
            m = defaultdict(list)
            for b in self.bodies.values():
                for n in b.calls():
                    for t in self.targets(n.ev):
                        m[t].append((b, n))
            self._callers = m
        return self._callers

    def call_sites(self, name, product_only=True):
        """all (body, node) call sites whose callee matches `name`"""
        out = []
        for b in self.bodies.values():
            if product_only and b.is_test:
                continue
            for n in b.calls():
                if call_matches(n.ev, name) or any(path_matches(t, name) for t in self.targets(n.ev) if t):
                    out.append((b, n))
        return out

    def edges_out(self, body):
        """callee body paths reachable in one step: calls + closures created here"""
        outs = set()
        for n in body.calls():
            for t in self.targets(n.ev):
                if t:
                    outs.add(t)
        for n in body.nodes:
            if n.kind == "assign" and n.ev.get("rv") == "agg" and n.ev.get("agg") in ("closure", "coroutine"):
                outs.add(n.ev["def"])
        return outs

    def reaches(self, start_name, pred, _depth=0):
        """does the function named start_name (a body path or external path)
        transitively reach a callee name satisfying pred(name)?  Memoised
        fixpoint over the local call graph."""
        key = id(pred)
        self._reach_keep = getattr(self, "_reach_keep", [])
        if not any(k is pred for k in self._reach_keep):
            self._reach_keep.append(pred)   # keep alive: ids of dead lambdas are reused
            self._reach_cache.pop(key, None)
        cache = self._reach_cache.setdefault(key, {})
        if not cache:
            # compute for all local bodies at once (fixpoint)
            direct = {}
            for p, b in self.bodies.items():
                outs = self.edges_out(b)
                direct[p] = outs
            val = {p: any(pred(o) for o in outs) for p, outs in direct.items()}
            changed = True
            while changed:
                changed = False
                for p, outs in direct.items():
                    if not val[p] and any(val.get(o, False) for o in outs):
                        val[p] = True
                        changed = True
            cache.update(val)
            cache["__done__"] = True
        if start_name in cache:
            return cache[start_name]
        return pred(start_name)

    def reaches_name(self, start_name, name):
        """does start_name transitively reach a callee matching the ::-suffix `name` (cached by name)"""
        cache = self._reach_cache.setdefault(("name", name), {})
        if not cache:
            direct = {p: self.edges_out(b) for p, b in self.bodies.items()}
            val = {p: any(path_matches(o, name) for o in outs) for p, outs in direct.items()}
            changed = True
            while changed:
                changed = False
                for p, outs in direct.items():
                    if not val[p] and any(val.get(o, False) for o in outs):
                        val[p] = True
                        changed = True
            cache.update(val)
        return cache.get(start_name, path_matches(start_name, name))

    def reach_set(self, pred):
        self.reaches("", pred)
        cache = self._reach_cache[id(pred)]
        return {p for p, v in cache.items() if v is True and p != "__done__"}
